"""C16 -- seeded calls are reproducible and independent of the global RNG state.

Correspondence (corr:C16): the SOURCE PROJECTION of the draw trace.  (The standard library's module-level random functions and
an unseeded numpy.random.default_rng() are logged as draws from the global generator too.)  A logging RandomState subclass replaces
np.random.mtrand._rand (sharing its bit generator, so np.random.get_state() still sees every draw), the module
level numpy.random functions are routed through it, np.random.RandomState is replaced by the logging class (so
generators created inside a call by check_random_state(int) are seen) and logging instances are passed as
random_state.  Per call the harness records five bits (completed, global drawn, fresh object drawn, passed
instance drawn, global state changed) which the model (Model/Draws.v skeleton of the entry point, executed on
a toy generator inside Coq) must predict (exactly, except that an additional child generator created inside the call is tolerated: Corr.C16.proj_eqb).  Draw counts / shapes / values are never compared.

Static correspondence (corr:C16-static): a Python-ast extraction turns the source of every function / class of
tensorly with a random_state (seed) parameter into a term of the Python-shaped language pskel (names kept, callees
resolved by module-qualified name); Coq evaluates the proved analysis pglobal_free on it (Props C16_source_analysis)
and compares draw-freeness with the hand-written skeletons.

Predicates (on the implementation's outputs, independent of the model): same int seed + perturbed global state
=> bit-identical results; int-seeded call leaves np.random.get_state() untouched; two generators seeded
identically => identical results and identical final generator states; fit twice on one estimator => identical
results and the constructor argument is still the seed; RNG-free functions: repeated calls identical, no draw; two identically
seeded generators threaded through the same multi-step call sequence (sequential and interleaved) agree step by step; a second
interpreter (other PYTHONHASHSEED, other global state, no interposition) returns the same bits for the same int-seeded calls."""
import random, re, threading
import numpy as np
from harness import common as C

HEADER = """From Coq Require Import List ZArith Bool. Import ListNotations.
From TLV Require Import Model.Draws Corr.C16."""

ORIG_RS = np.random.RandomState          # the real class (data generation, restoring)
_RS_METHODS = [n for n in dir(ORIG_RS) if not n.startswith("_") and callable(getattr(ORIG_RS, n))]
_NOT_DRAWS = {"get_state", "set_state", "seed"}
SAMPLERS = frozenset(n for n in _RS_METHODS if n not in _NOT_DRAWS)


class _Trace:
    def __init__(self):
        self.active = False
        self.drawn = []      # generator objects drawn from while active
        self.created = []    # generator objects created while active
        self.entropy = 0     # numpy.random.default_rng() created WITHOUT a seed while active (operating-system entropy)
        self.other = 0       # events logged as "the global generator" that are not NumPy's legacy generator (entropy + stdlib random)
        self.origins = []    # for every event on a process-wide source: is the code that touched it part of tensorly (True) or third-party (False)

    def start(self):
        self.drawn, self.created, self.active = [], [], True
        self.entropy = self.other = 0
        self.origins = []

    def stop(self):
        self.active = False
        return self.drawn, self.created


TRACE = _Trace()
_HERE = __file__[:-1] if __file__.endswith(".pyc") else __file__


def _origin_is_tensorly():
    """the nearest caller outside this harness file and outside numpy: True when it is tensorly's own code (or the harness's
    call of the entry point), False when a third-party library (SciPy ...) touches the process-wide source on its own"""
    import sys
    f = sys._getframe(2)
    while f is not None:
        fn = f.f_code.co_filename
        if fn != _HERE and "/numpy/" not in fn.replace("\\", "/"):
            fn = fn.replace("\\", "/")
            return not ("/site-packages/" in fn or "/dist-packages/" in fn) or "/tensorly/" in fn
        f = f.f_back
    return True


class LogRS(ORIG_RS):
    """RandomState that reports every access to a sampling method (the set of generators drawn from is what
    the correspondence compares; how often / with which arguments is deliberately not recorded)."""

    def __init__(self, *a, **k):
        super().__init__(*a, **k)
        if TRACE.active:
            TRACE.created.append(self)

    def __getattribute__(self, name):
        if name in SAMPLERS and TRACE.active:
            TRACE.drawn.append(self)
            if self is _Installed.G:
                TRACE.origins.append(_origin_is_tensorly())
        return super().__getattribute__(name)


class _Installed:
    G = None
    orig = None
    saved = []


def install():
    """route every use of NumPy's legacy global generator through a logging instance (no /repo hook needed)"""
    if _Installed.G is not None:
        return _Installed.G
    orig = np.random.mtrand._rand
    G = LogRS(orig._bit_generator)      # same MT19937 object: the state is shared with the original
    _Installed.G, _Installed.orig = G, orig
    for mod in (np.random, np.random.mtrand):
        for n in _RS_METHODS:
            f = getattr(mod, n, None)
            if f is not None and getattr(f, "__self__", None) is orig:
                _Installed.saved.append((mod, n, f))
                setattr(mod, n, (lambda *a, _n=n, **k: getattr(G, _n)(*a, **k)))
        _Installed.saved.append((mod, "RandomState", mod.RandomState))
        mod.RandomState = LogRS
    _Installed.saved.append((np.random.mtrand, "_rand", orig))
    np.random.mtrand._rand = G
    # other process-wide sources of randomness count as "the global generator" in the trace: the module-level functions of the
    # standard library's random (bound methods of its hidden instance) and numpy.random.default_rng() called without a seed
    import random as _pyrandom

    def _logged(f):
        def w(*a, **k):
            if TRACE.active:
                TRACE.drawn.append(G); TRACE.other += 1; TRACE.origins.append(_origin_is_tensorly())
            return f(*a, **k)
        return w
    for n in dir(_pyrandom):
        f = getattr(_pyrandom, n)
        if not n.startswith("_") and n != "getstate" and getattr(f, "__self__", None) is _pyrandom._inst:
            _Installed.saved.append((_pyrandom, n, f))
            setattr(_pyrandom, n, _logged(f))
    real_default_rng = np.random.default_rng

    def default_rng(seed=None, *a, **k):
        if seed is None and TRACE.active:
            TRACE.drawn.append(G); TRACE.other += 1; TRACE.entropy += 1; TRACE.origins.append(_origin_is_tensorly())
        return real_default_rng(seed, *a, **k)
    _Installed.saved.append((np.random, "default_rng", real_default_rng))
    np.random.default_rng = default_rng
    return G


def uninstall():
    for mod, n, f in reversed(_Installed.saved):
        setattr(mod, n, f)
    _Installed.saved = []
    _Installed.G = None


def gstate():
    """everything np.random.get_state() could show, on the original AND the logging global object (they share
    the Mersenne-Twister state but have separate Gaussian caches)"""
    out = []
    for r in (_Installed.orig, _Installed.G):
        s = r.get_state()
        out.append((s[0], s[1].tobytes(), s[2], s[3], float(s[4]).hex()))
    return tuple(out)


def rs_state(r):
    s = r.get_state()
    return (s[0], s[1].tobytes(), s[2], s[3], float(s[4]).hex())


def perturb(rng):
    """arbitrary other use of the global generator between two calls"""
    k = rng.randrange(4)
    if k == 0:
        np.random.seed(rng.randrange(2 ** 32))
    elif k == 1:
        np.random.seed(rng.randrange(2 ** 32)); np.random.rand(rng.randrange(1, 40))
    elif k == 2:
        np.random.randn(rng.randrange(1, 8))          # odd counts leave a cached Gaussian behind
    else:
        np.random.seed(rng.randrange(2 ** 32)); np.random.standard_normal(3); np.random.randint(0, 10, size=5)
    np.random.random_sample(rng.randrange(0, 5))


def flat(o, out=None):
    """deep, bit-exact fingerprint of a returned structure"""
    if out is None:
        out = []
    if o is None:
        out.append("None")
    elif isinstance(o, np.ndarray):
        out.append((str(o.dtype), o.shape, np.ascontiguousarray(o).tobytes()))
    elif isinstance(o, (np.generic,)):
        out.append((str(o.dtype), (), o.tobytes()))
    elif isinstance(o, float):
        out.append(o.hex())
    elif isinstance(o, (bool, int, str)):
        out.append(repr(o))
    elif isinstance(o, dict):
        for k in sorted(o):
            out.append(str(k)); flat(o[k], out)
    elif isinstance(o, slice):
        out.append(repr(o))
    else:
        try:
            items = list(o)
        except TypeError:
            out.append(repr(o)[:80]); return out
        out.append(("seq", len(items)))
        for x in items:
            flat(x, out)
    return out


# ----------------------------------------------------------------------------- configurations
INIT = {"random": "IRandom", "svd": "ISvd", "user": "IUser"}
SVD = {"truncated_svd": "STruncated", "symeig_svd": "SSymeig", "randomized_svd": "SRandomized"}


def opts_lit(shape=(), rank=0, init="random", svd="truncated_svd", mask=False, nrep=0, iters=0, aux=0):
    return ("{| o_shape := %s; o_rank := %d%%nat; o_init := %s; o_svd := %s; o_mask := %s; o_nrep := %d%%nat; "
            "o_iters := %d%%nat; o_aux := %d%%nat |}" % (C.nat_list(list(shape)), rank, INIT[init], SVD[svd], C.boolc(mask), nrep, iters, aux))


class Cfg:
    def __init__(self, name, ep, o, fn, kinds=("none", "int", "inst", "globobj"), seedable=True, estimator=None, rng_free=False,
                 entry_point=None, key=None, known_defect=None):
        self.known_defect = known_defect        # id of a registered genuine defect this configuration exhibits (known_findings.d/C16.json)
        self.name, self.ep, self.o, self.fn = name, ep, o, fn
        self.kinds, self.seedable, self.estimator, self.rng_free = kinds, seedable, estimator, rng_free
        self.entry_point = entry_point or name.split("[")[0]
        self.key = key or name


def data(shape, seed=0, nonneg=True):
    r = ORIG_RS(1000 + seed)
    x = r.random_sample(shape)
    return x if nonneg else x - 0.5


def low_rank(shape, rank, seed=0):
    r = ORIG_RS(2000 + seed)
    fs = [r.random_sample((s, rank)) + 0.1 for s in shape]
    t = np.zeros(shape)
    for k in range(rank):
        v = fs[0][:, k]
        for f in fs[1:]:
            v = np.multiply.outer(v, f[:, k])
        t = t + v
    return t + 0.01 * r.random_sample(shape)


SPARSE_STATUS = ["not attempted"]
# GENUINE DEFECT (known_findings.d/C16.json, Props C16_sparse_partial_svd_refuted / _partial): on a SciPy whose eigsh has an `rng`
# argument, partial_svd(random_state=<int / instance>) seeds ARPACK's start vector only; the restart vectors come from
# numpy.random.default_rng(None).  Exactly this class is classified: a sparse.partial_svd configuration whose ONLY process-wide
# source during the call(s) was an unseeded default_rng (NumPy's legacy global generator neither drawn from nor moved).
SPARSE_DEFECT = "sparse_partial_svd_arpack_restart_entropy"
SPARSE_CLASSIFIER = "sparse_partial_svd_only_unseeded_default_rng"
FORCE_REPORT = [False]      # replay: report even when the finding is not (yet) in the merged known_findings.json


def sparse_classifier(f):
    return str(f.get("inputs", {}).get("config", "")).startswith("sparse.partial_svd[") and (f.get("extra") or {}).get("entropy_only") is True


def defect_registered(defect_id):
    try:
        return any(k.get("id") == defect_id for k in C.load_known("C16"))
    except Exception:   # noqa
        return False


def _sparse_backend():
    """tensorly.contrib.sparse's NumPy backend has the one seed-accepting definition outside the dense library (partial_svd: the
    start vector v0 of ARPACK is drawn from check_random_state(random_state)).  It imports the `sparse` package, which is not
    installed here: a stub module that only satisfies the import (a version string, a SparseArray type nothing is an instance of,
    placeholders that raise for everything else) lets the harness call the REAL partial_svd on dense matrices -- the branch with the
    draw site is reached by a dense matrix whenever n_eigenvecs < min(shape).  The stub is removed from sys.modules at once."""
    import sys, types, importlib
    had = sys.modules.get("sparse")
    try:
        if had is None:
            class _Stub(types.ModuleType):
                def __getattr__(self, name):
                    if name.startswith("__"):
                        raise AttributeError(name)

                    def placeholder(*a, **k):
                        raise NotImplementedError("stub of the `sparse` package: " + name)
                    return placeholder
            st = _Stub("sparse")
            st.__version__ = "0.15.0"
            st.SparseArray = type("SparseArray", (), {})
            st.COO = type("COO", (st.SparseArray,), {})
            sys.modules["sparse"] = st
        mod = importlib.import_module("tensorly.contrib.sparse.backend.numpy_backend")
        SPARSE_STATUS[0] = "real `sparse` package" if had is not None else "stub `sparse` module (dense matrices only)"
        return mod.NumpySparseBackend()
    except Exception as e:   # noqa  (reported in the evidence; the static correspondence still covers the definition)
        SPARSE_STATUS[0] = f"not traced: {type(e).__name__}: {e}"[:200]
        return None
    finally:
        if had is None:
            sys.modules.pop("sparse", None)


def configs(tier, rng):
    import tensorly as tl
    from tensorly import random as tlr
    from tensorly import tenalg
    from tensorly.tenalg import svd as tsvd
    from tensorly import decomposition as D
    from tensorly.decomposition import _cp, _tucker, _constrained_cp, _parafac2, _cp_power
    from tensorly.contrib.decomposition import tensor_train_cross
    from tensorly.regression import CPRegressor, TuckerRegressor
    from tensorly.regression.cp_plsr import CP_PLSR
    from tensorly.decomposition._cmtf_als import coupled_matrix_tensor_3d_factorization

    thorough = tier == "thorough"
    out = []
    BAD = ("none", "int", "inst", "globobj", "bad")
    shapes3 = [(4, 3, 5)] + ([(3, 3, 3), (2, 5, 4), (6, 2, 3)] if thorough else [])
    shapes_any = shapes3 + ([(5, 4), (3, 2, 4, 3)] if thorough else [(5, 4), (3, 2, 3, 2)])

    # ---- tensorly.random
    for sh in shapes_any:
        n = len(sh)
        out.append(Cfg(f"random_tensor[{sh}]", "E_random_tensor", opts_lit(sh), lambda rs, sh=sh: tlr.random_tensor(sh, random_state=rs), kinds=BAD,
                       entry_point="tensorly.random.random_tensor"))
        for orth in ((False, True) if thorough else (False,)):
            out.append(Cfg(f"random_cp[{sh},orth={orth}]", "E_random_cp", opts_lit(sh, 2), lambda rs, sh=sh, orth=orth: tlr.random_cp(sh, 2, orthogonal=orth, random_state=rs), kinds=BAD,
                           entry_point="tensorly.random.random_cp"))
        out.append(Cfg(f"random_cp_full[{sh}]", "E_random_cp", opts_lit(sh, 3), lambda rs, sh=sh: tlr.random_cp(sh, 3, full=True, random_state=rs),
                       entry_point="tensorly.random.random_cp"))
        out.append(Cfg(f"random_tucker[{sh}]", "E_random_tucker", opts_lit(sh, 2), lambda rs, sh=sh: tlr.random_tucker(sh, [2] * len(sh), random_state=rs), kinds=BAD,
                       entry_point="tensorly.random.random_tucker"))
        if thorough:
            out.append(Cfg(f"random_tucker_orth_nn[{sh}]", "E_random_tucker", opts_lit(sh, 2), lambda rs, sh=sh: tlr.random_tucker(sh, [2] * len(sh), orthogonal=True, non_negative=True, random_state=rs),
                           entry_point="tensorly.random.random_tucker"))
        out.append(Cfg(f"random_tt[{sh}]", "E_random_tt", opts_lit(sh, 2), lambda rs, sh=sh: tlr.random_tt(sh, [1] + [2] * (len(sh) - 1) + [1], random_state=rs), kinds=BAD,
                       entry_point="tensorly.random.random_tt"))
        out.append(Cfg(f"random_tr[{sh}]", "E_random_tr", opts_lit(sh, 2), lambda rs, sh=sh: tlr.random_tr(sh, [2] * (len(sh) + 1), random_state=rs), kinds=BAD,
                       entry_point="tensorly.random.random_tr"))
    out.append(Cfg("random_tt_full[(4, 3, 5)]", "E_random_tt", opts_lit((4, 3, 5), 2), lambda rs: tlr.random_tt((4, 3, 5), [1, 2, 2, 1], full=True, random_state=rs),
                   entry_point="tensorly.random.random_tt"))
    out.append(Cfg("random_tr_full[(4, 3, 5)]", "E_random_tr", opts_lit((4, 3, 5), 2), lambda rs: tlr.random_tr((4, 3, 5), [2, 2, 2, 2], full=True, random_state=rs),
                   entry_point="tensorly.random.random_tr"))
    out.append(Cfg("random_cp_orth[(4, 3, 5)]", "E_random_cp", opts_lit((4, 3, 5), 2), lambda rs: tlr.random_cp((4, 3, 5), 2, orthogonal=True, random_state=rs),
                   entry_point="tensorly.random.random_cp"))
    # orthogonal / non-negative random_tucker has its own draw site; backend-level tl.randn / tl.gamma take a `seed`
    out.append(Cfg("random_tucker_orth[(4, 3, 5)]", "E_random_tucker", opts_lit((4, 3, 5), 2), lambda rs: tlr.random_tucker((4, 3, 5), [2, 2, 2], orthogonal=True, random_state=rs),
                   entry_point="tensorly.random.random_tucker"))
    out.append(Cfg("random_tucker_full_nn[(4, 3, 5)]", "E_random_tucker", opts_lit((4, 3, 5), 2), lambda rs: tlr.random_tucker((4, 3, 5), [2, 2, 2], full=True, non_negative=True, random_state=rs),
                   entry_point="tensorly.random.random_tucker"))
    out.append(Cfg("tl.randn", "E_random_tensor", opts_lit((3, 4)), lambda rs: tl.randn((3, 4), seed=rs), kinds=BAD, entry_point="tensorly.randn"))
    out.append(Cfg("tl.gamma", "E_random_tensor", opts_lit((5,)), lambda rs: tl.gamma(2.0, 1.5, size=(5,), seed=rs), kinds=BAD, entry_point="tensorly.gamma"))
    for sh in [(2, 3, 2, 3)] + ([(2, 2, 2, 3, 2, 2), (3, 4)] if thorough else []):
        out.append(Cfg(f"random_tt_matrix[{sh}]", "E_random_tt_matrix", opts_lit(sh, 2), lambda rs, sh=sh: tlr.random_tt_matrix(sh, [1] + [2] * (len(sh) // 2 - 1) + [1], random_state=rs), kinds=BAD,
                       entry_point="tensorly.random.random_tt_matrix"))
    out.append(Cfg("random_tt_matrix_full[(2, 3, 2, 3)]", "E_random_tt_matrix", opts_lit((2, 3, 2, 3), 2), lambda rs: tlr.random_tt_matrix((2, 3, 2, 3), [1, 2, 1], full=True, random_state=rs),
                   entry_point="tensorly.random.random_tt_matrix"))
    shp3 = [(4 + i, 3) for i in range(3)]
    out.append(Cfg("random_parafac2[3,normalise_factors,full]", "E_random_parafac2", opts_lit((), 2, aux=3),
                   lambda rs: tlr.random_parafac2(shp3, 2, full=True, normalise_factors=True, random_state=rs), entry_point="tensorly.random.random_parafac2"))
    for ns in (2, 3) if thorough else (3,):
        shp = [(4 + i, 3) for i in range(ns)]
        out.append(Cfg(f"random_parafac2[{ns}]", "E_random_parafac2", opts_lit((), 2, aux=ns), lambda rs, shp=shp: tlr.random_parafac2(shp, 2, random_state=rs), kinds=BAD,
                       entry_point="tensorly.random.random_parafac2"))

    # ---- randomized SVD family
    M = data((7, 5), 1, nonneg=False)
    Mw = data((4, 9), 2, nonneg=False)
    mask2 = (data((7, 5), 3) > 0.2) * 1.0
    out.append(Cfg("randomized_range_finder", "E_range_finder", opts_lit(), lambda rs: tsvd.randomized_range_finder(M, 3, random_state=rs), kinds=BAD,
                   entry_point="tensorly.tenalg.svd.randomized_range_finder"))
    Mvw = data((2, 11), 4, nonneg=False)
    out.append(Cfg("randomized_range_finder[very wide]", "E_range_finder", opts_lit(), lambda rs: tsvd.randomized_range_finder(Mvw, 2, random_state=rs),
                   entry_point="tensorly.tenalg.svd.randomized_range_finder"))
    for nm, mat in (("tall", M), ("wide", Mw)):
        out.append(Cfg(f"randomized_svd[{nm}]", "E_randomized_svd", opts_lit(), lambda rs, mat=mat: tsvd.randomized_svd(mat, 2, random_state=rs),
                       entry_point="tensorly.tenalg.svd.randomized_svd"))
    for method in ("randomized_svd", "truncated_svd", "symeig_svd"):
        for mk, nrep in ((False, 0), (True, 3)) + (((True, 0), (True, 1)) if thorough else ()):
            out.append(Cfg(f"svd_interface[{method},mask={mk},rep={nrep}]", "E_svd_interface", opts_lit(svd=method, mask=mk, nrep=nrep),
                           lambda rs, method=method, mk=mk, nrep=nrep: tl.svd_interface(M, method=method, n_eigenvecs=2, mask=(mask2 if mk else None), n_iter_mask_imputation=nrep, random_state=rs),
                           entry_point="tensorly.tenalg.svd.svd_interface", rng_free=(method != "randomized_svd")))

    # ---- the sparse NumPy backend's partial_svd (tensorly/contrib/sparse/backend/numpy_backend.py), on dense matrices: with
    # n_eigenvecs < min(shape) it resolves random_state and draws ARPACK's start vector (model: check, then one draw -- the
    # skeleton of randomized_range_finder); with n_eigenvecs >= min(shape) it returns the LAPACK SVD before looking at random_state
    SB = _sparse_backend()
    if SB is not None:
        SPE = "tensorly.contrib.sparse.backend.numpy_backend.NumpySparseBackend.partial_svd"
        for nm, mat in (("tall", M), ("wide", Mw)):
            out.append(Cfg(f"sparse.partial_svd[dense,{nm},k=2]", "E_range_finder", opts_lit(), lambda rs, mat=mat: SB.partial_svd(mat, 2, random_state=rs), kinds=BAD, entry_point=SPE,
                           known_defect=SPARSE_DEFECT))
        # rank 2 < n_eigenvecs = 3: the Lanczos process breaks down and ARPACK restarts from a random vector (the failing input of
        # the known finding when SciPy draws that vector from operating-system entropy; reproducible otherwise)
        Mdef = np.diag([2.0, 1.0, 0.0, 0.0, 0.0, 0.0, 0.0])
        out.append(Cfg("sparse.partial_svd[dense,rank-deficient,k=3]", "E_range_finder", opts_lit(), lambda rs: SB.partial_svd(Mdef, 3, random_state=rs), entry_point=SPE,
                       known_defect=SPARSE_DEFECT))
        out.append(Cfg("sparse.partial_svd[dense,k=min_dim]", "E_rng_free", opts_lit(), lambda rs: SB.partial_svd(M, 5, random_state=rs), kinds=BAD, rng_free=True, seedable=False, entry_point=SPE))

    # ---- CP family
    def user_cp(sh, rank, seed=5):
        r = ORIG_RS(seed)
        return (np.ones(rank), [r.random_sample((s, rank)) for s in sh])

    cp_opts = []
    for sh in shapes3:
        X = low_rank(sh, 2, 1)
        msk = (data(sh, 7) > 0.15) * 1.0
        inits = [("random", "truncated_svd", False, 2), ("svd", "truncated_svd", False, 2), ("svd", "randomized_svd", False, 2),
                 ("svd", "randomized_svd", True, 2), ("svd", "truncated_svd", False, max(sh) + 1), ("user", "truncated_svd", False, 2),
                 # rank above SOME mode sizes only: the random padding columns of exactly these modes
                 ("svd", "truncated_svd", False, min(sh) + 1), ("svd", "truncated_svd", False, sorted(sh)[1] + 1), ("svd", "symeig_svd", False, min(sh) + 1)]
        if thorough:
            inits += [("svd", "symeig_svd", False, 2), ("svd", "truncated_svd", True, 2), ("random", "randomized_svd", True, 2),
                      ("svd", "randomized_svd", False, max(sh) + 1), ("random", "truncated_svd", False, max(sh) + 1), ("svd", "randomized_svd", True, min(sh) + 1)]
        for init, svd, mk, rank in inits:
            cp_opts.append((sh, X, msk, init, svd, mk, rank))
    for sh, X, msk, init, svd, mk, rank in cp_opts:
        tag = f"[{sh},{init},{svd},mask={mk},rank={rank}]"
        ini = (lambda: user_cp(sh, rank)) if init == "user" else (lambda init=init: init)
        o5 = opts_lit(sh, rank, init, svd, mk, 5, 2)
        o2 = opts_lit(sh, rank, init, svd, mk, 2, 2)
        out.append(Cfg("initialize_cp" + tag, "E_initialize_cp", o2,
                       lambda rs, X=X, msk=msk, ini=ini, svd=svd, mk=mk, rank=rank: _cp.initialize_cp(X, rank, init=ini(), svd=svd, random_state=rs, mask=(msk if mk else None), svd_mask_repeats=2),
                       entry_point="tensorly.decomposition._cp.initialize_cp"))
        out.append(Cfg("parafac" + tag, "E_parafac", o2,
                       lambda rs, X=X, msk=msk, ini=ini, svd=svd, mk=mk, rank=rank: D.parafac(X, rank, n_iter_max=2, init=ini(), svd=svd, random_state=rs, mask=(msk if mk else None), svd_mask_repeats=2),
                       entry_point="tensorly.decomposition.parafac"))
        out.append(Cfg("non_negative_parafac" + tag, "E_nn_parafac", o5,
                       lambda rs, X=X, msk=msk, ini=ini, svd=svd, mk=mk, rank=rank: D.non_negative_parafac(X, rank, n_iter_max=2, init=ini(), svd=svd, random_state=rs, mask=(msk if mk else None)),
                       entry_point="tensorly.decomposition.non_negative_parafac"))
        if not mk:
            out.append(Cfg("non_negative_parafac_hals" + tag, "E_nn_parafac_hals", o2,
                           lambda rs, X=X, ini=ini, svd=svd, rank=rank: D.non_negative_parafac_hals(X, rank, n_iter_max=2, init=ini(), svd=svd, random_state=rs),
                           entry_point="tensorly.decomposition.non_negative_parafac_hals"))
            out.append(Cfg("constrained_parafac" + tag, "E_constrained_parafac", o2,
                           lambda rs, X=X, ini=ini, svd=svd, rank=rank: D.constrained_parafac(X, rank, n_iter_max=2, init=ini(), svd=svd, random_state=rs, non_negative=True),
                           entry_point="tensorly.decomposition.constrained_parafac"))
            if init != "user":
                out.append(Cfg("randomised_parafac" + tag, "E_randomised_parafac", o2,
                               lambda rs, X=X, init=init, svd=svd, rank=rank: D.randomised_parafac(X, rank, n_samples=12, n_iter_max=2, init=init, svd=svd, random_state=rs),
                               entry_point="tensorly.decomposition.randomised_parafac"))
    X3 = low_rank((4, 3, 5), 2, 1)
    if thorough:
        for kw_name, kw in (("l1", dict(l1_reg=0.05)), ("simplex", dict(simplex=1.0)), ("smooth", dict(smoothness=0.1)), ("unimodal", dict(unimodality=True))):
            out.append(Cfg(f"constrained_parafac[{kw_name},random]", "E_constrained_parafac", opts_lit((4, 3, 5), 2, "random", iters=2),
                           lambda rs, kw=kw: D.constrained_parafac(X3, 2, n_iter_max=2, init="random", random_state=rs, **kw),
                           entry_point="tensorly.decomposition.constrained_parafac"))
        out.append(Cfg("parafac[normalize,linesearch,random]", "E_parafac", opts_lit((4, 3, 5), 2, "random", iters=9),
                       lambda rs: D.parafac(X3, 2, n_iter_max=9, init="random", normalize_factors=True, linesearch=True, random_state=rs),
                       entry_point="tensorly.decomposition.parafac"))
        out.append(Cfg("parafac[sparsity,random]", "E_parafac", opts_lit((4, 3, 5), 2, "random", iters=2),
                       lambda rs: D.parafac(X3, 2, n_iter_max=2, init="random", sparsity=0.1, random_state=rs),
                       entry_point="tensorly.decomposition.parafac"))
        out.append(Cfg("randomised_parafac[iters=0]", "E_randomised_parafac", opts_lit((4, 3, 5), 2, "svd", iters=0),
                       lambda rs: D.randomised_parafac(X3, 2, n_samples=12, n_iter_max=0, init="svd", random_state=rs),
                       entry_point="tensorly.decomposition.randomised_parafac"))
    fs3 = [data((s, 2), 11 + i) for i, s in enumerate((4, 3, 5))]
    out.append(Cfg("sample_khatri_rao", "E_sample_khatri_rao", opts_lit((4, 3, 5), 2),
                   lambda rs: D.sample_khatri_rao(fs3, 6, random_state=rs), entry_point="tensorly.decomposition.sample_khatri_rao"))
    # with indices_list supplied the generator is never looked at (no check_random_state, no draw): o_mask stands for "supplied"
    idx3 = [ORIG_RS(50 + i).randint(0, s, size=6) for i, s in enumerate((4, 3, 5))]
    out.append(Cfg("sample_khatri_rao[indices_list]", "E_sample_khatri_rao", opts_lit((4, 3, 5), 2, mask=True),
                   lambda rs: D.sample_khatri_rao(fs3, 6, indices_list=idx3, return_sampled_rows=True, random_state=rs), kinds=BAD, rng_free=True,
                   entry_point="tensorly.decomposition.sample_khatri_rao"))

    # ---- Tucker family
    for sh in shapes3:
        X = low_rank(sh, 2, 2)
        msk = (data(sh, 8) > 0.15) * 1.0
        rk = [2] * len(sh)
        combos = [("random", "truncated_svd", False), ("svd", "truncated_svd", False), ("svd", "randomized_svd", False), ("svd", "randomized_svd", True),
                  ("random", "randomized_svd", True), ("user", "truncated_svd", False)]
        if thorough:
            combos += [("svd", "symeig_svd", False), ("svd", "truncated_svd", True), ("user", "randomized_svd", True)]
        for init, svd, mk in combos:
            tag = f"[{sh},{init},{svd},mask={mk}]"

            def ini(init=init, sh=sh):
                if init != "user":
                    return init
                r = ORIG_RS(9)
                return (r.random_sample((2,) * len(sh)), [np.linalg.qr(r.random_sample((s, 2)))[0] for s in sh])
            o = opts_lit(sh, 2, init, svd, mk, 2, 2)
            o5 = opts_lit(sh, 2, init, svd, mk, 5, 2)
            out.append(Cfg("initialize_tucker" + tag, "E_initialize_tucker", o,
                           lambda rs, X=X, msk=msk, ini=ini, svd=svd, mk=mk, rk=rk: _tucker.initialize_tucker(X, rk, list(range(X.ndim)), rs, init=ini(), svd=svd, mask=(msk if mk else None), svd_mask_repeats=2),
                           entry_point="tensorly.decomposition._tucker.initialize_tucker"))
            out.append(Cfg("partial_tucker" + tag, "E_partial_tucker", o,
                           lambda rs, X=X, msk=msk, ini=ini, svd=svd, mk=mk, rk=rk: D.partial_tucker(X, rk, n_iter_max=2, init=ini(), svd=svd, random_state=rs, mask=(msk if mk else None), svd_mask_repeats=2),
                           entry_point="tensorly.decomposition.partial_tucker"))
            out.append(Cfg("tucker" + tag, "E_tucker", o5,
                           lambda rs, X=X, msk=msk, ini=ini, svd=svd, mk=mk, rk=rk: D.tucker(X, rk, n_iter_max=2, init=ini(), svd=svd, random_state=rs, mask=(msk if mk else None)),
                           entry_point="tensorly.decomposition.tucker"))
            if not mk:
                out.append(Cfg("non_negative_tucker_hals" + tag, "E_nn_tucker_hals", o,
                               lambda rs, X=X, ini=ini, svd=svd, rk=rk: D.non_negative_tucker_hals(X, rk, n_iter_max=2, init=ini(), svd=svd, random_state=rs),
                               entry_point="tensorly.decomposition.non_negative_tucker_hals"))
                if svd == "truncated_svd":
                    out.append(Cfg("non_negative_tucker" + tag, "E_nn_tucker", o,
                                   lambda rs, X=X, ini=ini, rk=rk: D.non_negative_tucker(X, rk, n_iter_max=2, init=ini(), random_state=rs),
                                   entry_point="tensorly.decomposition.non_negative_tucker"))
    # a 4-mode tensor with random initialisation (one draw per mode)
    X4 = low_rank((3, 2, 3, 2), 2, 5)
    out.append(Cfg("tucker[(3, 2, 3, 2),random]", "E_tucker", opts_lit((3, 2, 3, 2), 2, "random", "truncated_svd", False, 5, 2),
                   lambda rs: D.tucker(X4, [2, 2, 2, 2], n_iter_max=2, init="random", random_state=rs), entry_point="tensorly.decomposition.tucker"))
    if thorough:
        Xt = low_rank((4, 3, 5), 2, 2)
        out.append(Cfg("tucker[fixed_factors,randomized]", "E_tucker", opts_lit((4, 5), 2, "user", "randomized_svd", False, 5, 2),
                       lambda rs: D.tucker(Xt, [2, 2, 2], n_iter_max=2, svd="randomized_svd", random_state=rs, fixed_factors=[1],
                                           init=(ORIG_RS(3).random_sample((2, 2, 2)), [ORIG_RS(4 + i).random_sample((s, 2)) for i, s in enumerate((4, 3, 5))])),
                       entry_point="tensorly.decomposition.tucker"))

    # ---- PARAFAC2
    for ns in (3,) + ((5,) if thorough else ()):
        slices = [low_rank((5 + (i % 2), 4), 2, 20 + i) for i in range(ns)]
        combos = [("random", "truncated_svd", 2), ("svd", "truncated_svd", 2), ("svd", "randomized_svd", 2), ("random", "randomized_svd", 2), ("random", "truncated_svd", 0)]
        if thorough:
            combos += [("svd", "symeig_svd", 2), ("svd", "randomized_svd", 0), ("random", "randomized_svd", 0)]
        for init, svd, it in combos:
            tag = f"[{ns},{init},{svd},iters={it}]"
            o = opts_lit((), 2, init, svd, False, 0, it, ns)
            out.append(Cfg("parafac2" + tag, "E_parafac2", o,
                           lambda rs, slices=slices, init=init, svd=svd, it=it: D.parafac2(slices, 2, n_iter_max=it, init=init, svd=svd, random_state=rs, n_iter_parafac=2),
                           entry_point="tensorly.decomposition.parafac2"))
        out.append(Cfg(f"parafac2[{ns},nn_modes,randomized]", "E_parafac2", opts_lit((), 2, "random", "randomized_svd", False, 0, 2, ns),
                       lambda rs, slices=slices: D.parafac2(slices, 2, n_iter_max=2, init="random", svd="randomized_svd", random_state=rs, nn_modes=[0, 2], n_iter_parafac=2),
                       entry_point="tensorly.decomposition.parafac2"))
        out.append(Cfg(f"parafac2[{ns},nn_modes,svd,randomized]", "E_parafac2", opts_lit((), 2, "svd", "randomized_svd", False, 0, 1, ns),
                       lambda rs, slices=slices: D.parafac2(slices, 2, n_iter_max=1, init="svd", svd="randomized_svd", random_state=rs, nn_modes=[0, 2], n_iter_parafac=2),
                       entry_point="tensorly.decomposition.parafac2"))
        out.append(Cfg(f"parafac2[{ns},linesearch,randomized]", "E_parafac2", opts_lit((), 2, "svd", "randomized_svd", False, 0, 9, ns),
                       lambda rs, slices=slices: D.parafac2(slices, 2, n_iter_max=9, init="svd", svd="randomized_svd", random_state=rs, linesearch=True, n_iter_parafac=2, tol=1e-13),
                       entry_point="tensorly.decomposition.parafac2"))

    # ---- internal seed-accepting helpers (every definition of tensorly with a random_state parameter is traced)
    for init, svd, rank in [("random", "truncated_svd", 2), ("svd", "truncated_svd", 2), ("svd", "randomized_svd", 2), ("svd", "truncated_svd", 6),
                            ("user", "truncated_svd", 2)] + ([("svd", "randomized_svd", 6), ("svd", "symeig_svd", 2)] if thorough else []):
        ini = (lambda rank=rank: user_cp((4, 3, 5), rank)) if init == "user" else (lambda init=init: init)
        out.append(Cfg(f"initialize_constrained_parafac[{init},{svd},rank={rank}]", "E_initialize_constrained", opts_lit((4, 3, 5), rank, init, svd),
                       lambda rs, ini=ini, svd=svd, rank=rank: _constrained_cp.initialize_constrained_parafac(X3, rank, init=ini(), svd=svd, random_state=rs, non_negative=True),
                       kinds=BAD, entry_point="tensorly.decomposition._constrained_cp.initialize_constrained_parafac"))
    sl3 = [low_rank((5 + (i % 2), 4), 2, 20 + i) for i in range(3)]
    for init, svd in [("random", "truncated_svd"), ("svd", "truncated_svd"), ("svd", "randomized_svd")] + ([("svd", "symeig_svd"), ("random", "randomized_svd")] if thorough else []):
        out.append(Cfg(f"initialize_decomposition[{init},{svd}]", "E_parafac2_init", opts_lit((), 2, init, svd, aux=3),
                       lambda rs, init=init, svd=svd: _parafac2.initialize_decomposition(sl3, 2, init=init, svd=svd, random_state=rs),
                       kinds=BAD, entry_point="tensorly.decomposition._parafac2.initialize_decomposition", rng_free=(init == "svd" and svd != "randomized_svd")))
    p2f = [np.ones((3, 2)), np.eye(2), data((4, 2), 61, nonneg=False)]
    for svd in ("truncated_svd", "randomized_svd"):
        out.append(Cfg(f"_compute_projections[{svd}]", "E_compute_projections", opts_lit((), 2, "svd", svd, aux=3),
                       lambda rs, svd=svd: _parafac2._compute_projections(sl3, p2f, svd, random_state=rs),
                       kinds=BAD, entry_point="tensorly.decomposition._parafac2._compute_projections", rng_free=(svd != "randomized_svd")))

        def line_step(rs, svd=svd):
            ls = _parafac2._BroThesisLineSearch(1.0, svd, random_state=rs)
            return ls.line_step(3, sl3, [f * 0.9 for f in p2f], np.ones(2), p2f, _parafac2._compute_projections(sl3, p2f, "truncated_svd"), 1e9)
        out.append(Cfg(f"_BroThesisLineSearch.line_step[{svd}]", "(E_estimator E_compute_projections)", opts_lit((), 2, "svd", svd, aux=3), line_step,
                       kinds=BAD, entry_point="tensorly.decomposition._parafac2._BroThesisLineSearch.line_step", rng_free=(svd != "randomized_svd")))
    def line_step_nn(rs):
        ls = _parafac2._BroThesisLineSearch(1.0, "randomized_svd", nn_modes=[0, 2], random_state=rs)
        return ls.line_step(3, sl3, [f * 0.9 for f in p2f], np.ones(2), p2f, _parafac2._compute_projections(sl3, p2f, "truncated_svd"), 1e9)
    out.append(Cfg("_BroThesisLineSearch.line_step[randomized_svd,nn_modes]", "(E_estimator E_compute_projections)", opts_lit((), 2, "svd", "randomized_svd", aux=3), line_step_nn,
                   entry_point="tensorly.decomposition._parafac2._BroThesisLineSearch.line_step"))
    out.append(Cfg("tl.gamma[size=None]", "E_random_tensor", opts_lit(()), lambda rs: tl.gamma(2.0, 1.5, seed=rs), entry_point="tensorly.gamma"))
    out.append(Cfg("check_random_state", "E_check_random_state", opts_lit(), lambda rs: tl.check_random_state(rs) is None, kinds=BAD,
                   entry_point="tensorly.check_random_state"))

    # ---- tensor ring ALS, TT-cross
    for sh in shapes3[:2] + ([(3, 2, 3, 2)] if thorough else []):
        X = low_rank(sh, 2, 3)
        n = len(sh)
        for it in (2,) + ((0,) if thorough else ()):
            out.append(Cfg(f"tensor_ring_als[{sh},iters={it}]", "E_tr_als", opts_lit(sh, 2, iters=it),
                           lambda rs, X=X, n=n, it=it: D.tensor_ring_als(X, [2] * (n + 1), n_iter_max=it, random_state=rs),
                           entry_point="tensorly.decomposition.tensor_ring_als"))
            out.append(Cfg(f"tensor_ring_als_sampled[{sh},iters={it}]", "E_tr_als_sampled", opts_lit(sh, 2, iters=it),
                           lambda rs, X=X, n=n, it=it: D.tensor_ring_als_sampled(X, [2] * (n + 1), n_samples=10, n_iter_max=it, random_state=rs),
                           entry_point="tensorly.decomposition.tensor_ring_als_sampled"))
        if thorough:
            out.append(Cfg(f"tensor_ring_als_sampled[{sh},uniform,randomized_error]", "E_tr_als_sampled", opts_lit(sh, 2, iters=2),
                           lambda rs, X=X, n=n: D.tensor_ring_als_sampled(X, [2] * (n + 1), n_samples=10, n_iter_max=2, uniform_sampling=True, random_state=rs),
                           entry_point="tensorly.decomposition.tensor_ring_als_sampled"))
        out.append(Cfg(f"tensor_train_cross[{sh}]", "E_tt_cross", opts_lit(sh, 2, nrep=3, iters=3, aux=2),
                       lambda rs, X=X, n=n: tensor_train_cross(X, [1] + [2] * (n - 1) + [1], tol=1e-4, n_iter_max=3, random_state=rs),
                       entry_point="tensorly.contrib.decomposition.tensor_train_cross"))
    # TT-cross redraws an index tuple when it collides with one already chosen (a separate draw site inside a while
    # loop): ranks equal to the number of possible tuples make collisions near certain (7/9 per seed for the last mode)
    Xcol = low_rank((3, 4, 3), 2, 4)
    out.append(Cfg("tensor_train_cross[(3, 4, 3),colliding]", "E_tt_cross", opts_lit((3, 4, 3), 3, nrep=3, iters=2, aux=3),
                   lambda rs: tensor_train_cross(Xcol, [1, 3, 3, 1], tol=1e-4, n_iter_max=2, random_state=rs),
                   entry_point="tensorly.contrib.decomposition.tensor_train_cross", key="tensor_train_cross[colliding]"))

    # ---- regression (estimators: the seed is a constructor argument)
    Xr = data((8, 3, 4), 31, nonneg=False)
    yr = data((8,), 32, nonneg=False)
    Yr = data((8, 2), 33, nonneg=False)

    def est(make, fit, res, params=True):
        return dict(make=make, fit=fit, res=res, params=params)

    def cpreg_res(e):
        return [e.weight_tensor_, e.predict(Xr)]
    out.append(Cfg("CPRegressor.fit[y1d]", "E_cp_regressor", opts_lit((8, 3, 4), 2, iters=3, aux=0),
                   lambda rs: cpreg_res(CPRegressor(2, random_state=rs, verbose=0, n_iter_max=3).fit(Xr, yr)),
                   estimator=est(lambda rs: CPRegressor(2, random_state=rs, verbose=0, n_iter_max=3), lambda e: e.fit(Xr, yr), cpreg_res),
                   entry_point="tensorly.regression.CPRegressor.fit"))
    out.append(Cfg("CPRegressor.fit[y2d]", "E_cp_regressor", opts_lit((8, 3, 4), 2, iters=3, aux=1),
                   lambda rs: cpreg_res(CPRegressor(2, random_state=rs, verbose=0, n_iter_max=3).fit(Xr, Yr)),
                   estimator=est(lambda rs: CPRegressor(2, random_state=rs, verbose=0, n_iter_max=3), lambda e: e.fit(Xr, Yr), cpreg_res),
                   entry_point="tensorly.regression.CPRegressor.fit"))
    out.append(Cfg("TuckerRegressor.fit", "E_tucker_regressor", opts_lit((8, 3, 4), 2, iters=3),
                   lambda rs: cpreg_res(TuckerRegressor([2, 2], random_state=rs, verbose=0, n_iter_max=3).fit(Xr, yr)),
                   estimator=est(lambda rs: TuckerRegressor([2, 2], random_state=rs, verbose=0, n_iter_max=3), lambda e: e.fit(Xr, yr), cpreg_res),
                   entry_point="tensorly.regression.TuckerRegressor.fit"))

    def plsr_res(e):
        return [e.predict(Xr), e.transform(Xr)]
    out.append(Cfg("CP_PLSR.fit", "E_cp_plsr", opts_lit((8, 3, 4), 2, iters=3),
                   lambda rs: plsr_res(CP_PLSR(2, random_state=rs).fit(Xr, Yr)),
                   estimator=est(lambda rs: CP_PLSR(2, random_state=rs), lambda e: e.fit(Xr, Yr), plsr_res), rng_free=True,
                   entry_point="tensorly.regression.cp_plsr.CP_PLSR.fit"))

    # ---- decomposition classes (fit_transform passes self.random_state)
    Xc = low_rank((4, 3, 5), 2, 1)
    slices3 = [low_rank((5 + (i % 2), 4), 2, 20 + i) for i in range(3)]
    klasses = [
        ("CP", "E_parafac", opts_lit((4, 3, 5), 2, "random", iters=2), lambda rs: D.CP(2, n_iter_max=2, init="random", random_state=rs), Xc),
        ("CP[svd,randomized]", "E_parafac", opts_lit((4, 3, 5), 2, "svd", "randomized_svd", iters=2), lambda rs: D.CP(2, n_iter_max=2, init="svd", svd="randomized_svd", random_state=rs), Xc),
        ("CP_NN", "E_nn_parafac", opts_lit((4, 3, 5), 2, "random", iters=2), lambda rs: D.CP_NN(2, n_iter_max=2, init="random", random_state=rs), Xc),
        ("CP_NN_HALS", "E_nn_parafac_hals", opts_lit((4, 3, 5), 2, "random", iters=2), lambda rs: D.CP_NN_HALS(2, n_iter_max=2, init="random", random_state=rs), Xc),
        ("ConstrainedCP", "E_constrained_parafac", opts_lit((4, 3, 5), 2, "random", iters=2), lambda rs: D.ConstrainedCP(2, n_iter_max=2, init="random", random_state=rs, non_negative=True), Xc),
        ("RandomizedCP", "E_randomised_parafac", opts_lit((4, 3, 5), 2, "random", iters=2), lambda rs: D.RandomizedCP(2, 12, n_iter_max=2, init="random", random_state=rs), Xc),
        ("Tucker", "E_tucker", opts_lit((4, 3, 5), 2, "random", iters=2), lambda rs: D.Tucker([2, 2, 2], n_iter_max=2, init="random", random_state=rs), Xc),
        ("Tucker_NN", "E_nn_tucker", opts_lit((4, 3, 5), 2, "random", iters=2), lambda rs: _tucker.Tucker_NN([2, 2, 2], n_iter_max=2, init="random", random_state=rs), Xc),
        ("Tucker_NN_HALS", "E_nn_tucker_hals", opts_lit((4, 3, 5), 2, "random", iters=2), lambda rs: _tucker.Tucker_NN_HALS([2, 2, 2], n_iter_max=2, init="random", random_state=rs), Xc),
        ("Tucker_NN_HALS[svd,randomized]", "E_nn_tucker_hals", opts_lit((4, 3, 5), 2, "svd", "randomized_svd", iters=2), lambda rs: _tucker.Tucker_NN_HALS([2, 2, 2], n_iter_max=2, init="svd", svd="randomized_svd", random_state=rs), Xc),
        ("Tucker[svd,randomized]", "E_tucker", opts_lit((4, 3, 5), 2, "svd", "randomized_svd", iters=2), lambda rs: D.Tucker([2, 2, 2], n_iter_max=2, init="svd", svd="randomized_svd", random_state=rs), Xc),
        ("Parafac2", "E_parafac2", opts_lit((), 2, "random", "truncated_svd", False, 0, 2, 3), lambda rs: D.Parafac2(2, n_iter_max=2, init="random", random_state=rs, n_iter_parafac=2, return_errors=True), slices3),
        ("TensorRingALS", "E_tr_als", opts_lit((4, 3, 5), 2, iters=2), lambda rs: D.TensorRingALS([2, 2, 2, 2], n_iter_max=2, random_state=rs), Xc),
        ("TensorRingALSSampled", "E_tr_als_sampled", opts_lit((4, 3, 5), 2, iters=2), lambda rs: D.TensorRingALSSampled([2, 2, 2, 2], 10, n_iter_max=2, random_state=rs), Xc),
    ]
    for nm, ep, o, mk, Xd in klasses:
        out.append(Cfg(f"{nm}.fit_transform", f"(E_estimator {ep})", o, lambda rs, mk=mk, Xd=Xd: mk(rs).fit_transform(Xd),
                       estimator=est(mk, lambda e, Xd=Xd: e.fit_transform(Xd), None, params=False),
                       entry_point=f"tensorly.decomposition.{nm.split('[')[0]}.fit_transform"))

    # ---- functions without random choices (no random_state argument, or an unused one)
    w2 = np.ones(2)
    free = [
        ("tensor_train", lambda: D.tensor_train(Xc, [1, 2, 2, 1])),
        ("tensor_ring", lambda: D.tensor_ring(Xc, [2, 2, 2, 2])),
        ("tucker[svd]", lambda: D.tucker(Xc, [2, 2, 2], n_iter_max=3)),
        ("parafac[svd]", lambda: D.parafac(Xc, 2, n_iter_max=3)),
        ("non_negative_parafac_hals[svd]", lambda: D.non_negative_parafac_hals(Xc, 2, n_iter_max=3)),
        ("parafac2[svd]", lambda: D.parafac2(slices3, 2, n_iter_max=2, init="svd", n_iter_parafac=2)),
        ("robust_pca", lambda: D.robust_pca(Xc, n_iter_max=3, verbose=0)),
        ("cmtf[svd]", lambda: coupled_matrix_tensor_3d_factorization(Xc, data((4, 3), 40), 2, n_iter_max=3)),
        ("khatri_rao", lambda: tenalg.khatri_rao(fs3)),
        ("kronecker", lambda: tenalg.kronecker(fs3[:2])),
        ("mode_dot", lambda: tenalg.mode_dot(Xc, data((2, 3), 41), 1)),
        ("multi_mode_dot", lambda: tenalg.multi_mode_dot(Xc, fs3, transpose=True)),
        ("mttkrp", lambda: tenalg.unfolding_dot_khatri_rao(Xc, (w2, fs3), 1)),
        ("inner", lambda: tenalg.inner(Xc, Xc)),
        ("cp_to_tensor", lambda: tl.cp_to_tensor((w2, fs3))),
        ("truncated_svd", lambda: tsvd.truncated_svd(M, 2)),
        ("symeig_svd", lambda: tsvd.symeig_svd(M, 2)),
    ]
    # a broader sweep of the deterministic part of the library (tensor formats, proximal operators, metrics, solvers,
    # decompositions with their deterministic defaults): called twice with the global generator perturbed in between
    from tensorly.tenalg import proximal as prox
    from tensorly import metrics as MT
    from tensorly.solvers import nnls as NN
    ttf = [data((1, 4, 2), 71), data((2, 3, 2), 72), data((2, 5, 1), 73)]
    trf = [data((2, 4, 2), 74), data((2, 3, 2), 75), data((2, 5, 2), 76)]
    core3 = data((2, 2, 2), 77)
    G5 = M.T @ M
    free += [
        ("tt_to_tensor", lambda: tl.tt_to_tensor(ttf)), ("tt_to_unfolded", lambda: tl.tt_to_unfolded(ttf, 1)), ("tr_to_tensor", lambda: tl.tr_to_tensor(trf)),
        ("tucker_to_tensor", lambda: tl.tucker_to_tensor((core3, fs3))), ("tucker_mode_dot", lambda: tl.tucker_tensor.tucker_mode_dot((core3, list(fs3)), data((2, 3), 78), 1, copy=True)),
        ("cp_normalize", lambda: tl.cp_tensor.cp_normalize((w2, list(fs3)))), ("cp_norm", lambda: tl.cp_tensor.cp_norm((w2, fs3))),
        ("cp_mode_dot", lambda: tl.cp_tensor.cp_mode_dot((w2, list(fs3)), data((2, 3), 79), 1, copy=True)),
        ("fold_unfold", lambda: tl.fold(tl.unfold(Xc, 1), 1, Xc.shape)), ("partial_unfold", lambda: tl.partial_unfold(Xc, 1, skip_begin=1)),
        ("outer", lambda: tenalg.outer([fs3[0][:, 0], fs3[1][:, 0], fs3[2][:, 0]])), ("tensordot", lambda: tenalg.tensordot(Xc, Xc, 3)),
        ("soft_thresholding", lambda: prox.soft_thresholding(Xc, 0.1)), ("hard_thresholding", lambda: prox.hard_thresholding(M, 3)),
        ("simplex_prox", lambda: prox.simplex_prox(M, 1.0)), ("monotonicity_prox", lambda: prox.monotonicity_prox(M)),
        ("unimodality_prox", lambda: prox.unimodality_prox(np.abs(M))), ("l2_prox", lambda: prox.l2_prox(M, 0.5)), ("l2_square_prox", lambda: prox.l2_square_prox(M, 0.5)),
        ("normalized_sparsity_prox", lambda: prox.normalized_sparsity_prox(M, 2)), ("soft_sparsity_prox", lambda: prox.soft_sparsity_prox(np.abs(M), 1.0)),
        ("smoothness_prox", lambda: prox.smoothness_prox(M, 0.1)), ("svd_thresholding", lambda: prox.svd_thresholding(M, 0.1)), ("procrustes", lambda: prox.procrustes(M)),
        ("MSE", lambda: MT.regression.MSE(M, M * 0.9)), ("RMSE", lambda: MT.regression.RMSE(M, M * 0.9)), ("R2_score", lambda: MT.regression.R2_score(M, M * 0.9)),
        ("correlation", lambda: MT.regression.correlation(M, M * 0.9 + 0.1)), ("congruence_coefficient", lambda: MT.congruence_coefficient(fs3[0], fs3[0][:, ::-1])),
        ("vonneumann_entropy", lambda: MT.vonneumann_entropy(G5 / np.trace(G5))),
        ("hals_nnls", lambda: NN.hals_nnls(G5[:, :3], G5, n_iter_max=5)), ("fista", lambda: NN.fista(G5[:, :3], G5, n_iter_max=5)),
        ("active_set_nnls", lambda: NN.active_set_nnls(G5[:, 0], G5, n_iter_max=5)),
        ("partial_tucker[svd]", lambda: D.partial_tucker(Xc, [2, 2], modes=[0, 1], n_iter_max=2)), ("non_negative_tucker[svd]", lambda: D.non_negative_tucker(Xc, [2, 2, 2], n_iter_max=2)),
        ("non_negative_tucker_hals[svd]", lambda: D.non_negative_tucker_hals(Xc, [2, 2, 2], n_iter_max=2)),
        ("tensor_train_matrix", lambda: D.tensor_train_matrix(data((4, 4), 80).reshape((2, 2, 2, 2)), [1, 2, 1])),
        ("constrained_parafac[user]", lambda: D.constrained_parafac(Xc, 2, n_iter_max=2, init=user_cp((4, 3, 5), 2), non_negative=True)),
    ]
    for nm, f in free:
        out.append(Cfg(f"rng_free:{nm}", "E_rng_free", opts_lit(), lambda rs, f=f: f(), kinds=("none",), seedable=False, rng_free=True,
                       entry_point=f"tensorly:{nm}"))
    # tensor_train / tensor_ring / tensor_train_matrix have an `svd` option and NO random_state parameter: deterministic with the default
    # (and the symeig) SVD -- checked like every function without random choices, under the model E_tt_svd -- while
    # svd='randomized_svd' makes them draw from the global generator, unseedably (outside the statement: traced only)
    X4m = data((4, 4), 80).reshape((2, 2, 2, 2))
    for svdm in ("truncated_svd", "symeig_svd", "randomized_svd"):
        det = svdm != "randomized_svd"
        for nm, shp, f in (("tensor_train", (4, 3, 5), lambda svdm=svdm: D.tensor_train(Xc, [1, 2, 2, 1], svd=svdm)),
                           ("tensor_ring", (4, 3, 5), lambda svdm=svdm: D.tensor_ring(Xc, [2, 2, 2, 2], svd=svdm)),
                           ("tensor_train_matrix", (2, 2, 2, 2), lambda svdm=svdm: D.tensor_train_matrix(X4m, [1, 2, 1], svd=svdm))):
            out.append(Cfg(f"{nm}[{svdm}]", "E_tt_svd", opts_lit(shp, 2, "svd", svdm), lambda rs, f=f: f(), kinds=("none",), seedable=False, rng_free=det,
                           entry_point=f"tensorly.decomposition.{nm}"))
    # no random_state argument but module-level draws: outside the statement, trace only
    out.append(Cfg("power_iteration", "E_power_iteration", opts_lit((4, 3, 5), 1, iters=2, aux=2), lambda rs: _cp_power.power_iteration(Xc, n_repeat=2, n_iteration=2),
                   kinds=("none",), seedable=False, entry_point="tensorly.decomposition._cp_power.power_iteration"))
    return out


# ----------------------------------------------------------------------------- static extraction of draw skeletons (corr:C16-static)
# Python ast -> term of Model/Draws.v's pskel (the Python-shaped language: named variables, x = e, x = check_random_state(e),
# draws on a name, numpy.random draws, calls passing an expression).  NO abstraction is made here: the names of the code
# are kept and the analysis pgf (proved sound, Props C16_source_analysis) decides.  Per function / class of tensorly with a
# random_state (seed) argument; callees resolved by module-qualified name through the import tables; callee bodies
# inlined; constant keyword arguments and defaults propagated into `if` tests of the callee.  Local helper of this property.
import ast, os

SEED_PARAMS = ("random_state", "seed")
GLOBAL_OBJECTS = ("np.random", "numpy.random", "np.random.mtrand._rand", "numpy.random.mtrand._rand", "np.random.mtrand", "numpy.random.mtrand")


class _NotAScalar:
    def __repr__(self):
        return "<tuple/list>"

    def __bool__(self):
        return True


NOT_A_SCALAR = _NotAScalar()


def _dotted(node):
    parts = []
    while isinstance(node, ast.Attribute):
        parts.append(node.attr)
        node = node.value
    if isinstance(node, ast.Name):
        parts.append(node.id)
        return ".".join(reversed(parts))
    return None


# ---- pskel terms (tuples / strings) with pgf-preserving simplification (only PSkip is ever dropped)
def seq(items):
    items = [x for x in items if x != "PSkip"]
    if not items:
        return "PSkip"
    out = items[-1]
    for x in reversed(items[:-1]):
        out = ("PSeq", x, out)
    return out


def branch(a, b):
    return "PSkip" if a == "PSkip" and b == "PSkip" else ("PBranch", a, b)


def loop(b):
    return "PSkip" if b == "PSkip" else ("PFor", b)


def call(e, b):
    return "PSkip" if b == "PSkip" else ("PCall", e, b)


def coq(t):
    if isinstance(t, str):
        return t
    if t[0] == "PSeq":
        return "(PSeq %s %s)" % (coq(t[1]), coq(t[2]))
    if t[0] == "PBranch":
        return "(PBranch 0%%nat %s %s)" % (coq(t[1]), coq(t[2]))
    if t[0] == "PFor":
        return "(PFor 0%%nat 1%%nat %s)" % coq(t[1])
    if t[0] == "PCall":
        return "(PCall %s %s)" % (t[1], coq(t[2]))
    raise ValueError(t)


def pvar(i):
    return "(PVar %d%%nat)" % i


class Extractor:
    """Python ast -> pskel (Model/Draws.v).  Definitions are identified by 'relative/path.py::name' (methods:
    'path.py::Class.method'); callees are resolved through the import tables of the calling module (from-imports,
    module aliases, re-exports of package __init__ files), with a fallback to a bare name only when it is unique."""

    def __init__(self, repo, samplers):
        self.repo, self.samplers = repo, samplers
        self.defs = {}        # id -> (rel, FunctionDef | ClassDef, classname or None)
        self.modules = {}     # rel -> ast.Module
        self.imports = {}     # rel -> {local name: ("sym", modrel, orig) | ("mod", modrel)}
        self.stars = {}       # rel -> [modrel]   (from X import *)
        self.aliases = {}     # rel -> (numpy names, numpy.random names, {local: numpy.random function}, entropy modules, entropy functions)
        self.memo, self.stack = {}, []
        self.unresolved, self.flags = [], []
        self.stats = {"callees_resolved_by_qualified_name": 0, "callees_resolved_by_unique_bare_name": 0, "callees_ambiguous": 0}
        root = os.path.join(repo, "tensorly")
        for dp, dn, fns in os.walk(root):
            if "tests" in dp.split(os.sep) or "plugins" in dp.split(os.sep):
                continue
            for fn in sorted(fns):
                if fn.endswith(".py"):
                    path = os.path.join(dp, fn)
                    try:
                        self.modules[os.path.relpath(path, repo)] = ast.parse(open(path).read())
                    except SyntaxError:
                        continue
        for rel, tree in self.modules.items():
            for node in tree.body:
                if isinstance(node, ast.FunctionDef):
                    self.defs[f"{rel}::{node.name}"] = (rel, node, None)
                elif isinstance(node, ast.ClassDef):
                    self.defs[f"{rel}::{node.name}"] = (rel, node, None)
                    for m in node.body:
                        if isinstance(m, ast.FunctionDef):
                            self.defs[f"{rel}::{node.name}.{m.name}"] = (rel, m, node.name)
            imp, stars = {}, []
            # names bound to numpy / numpy.random / a process-wide entropy source other than NumPy's legacy generator
            # (stdlib random, secrets, os.urandom, numpy.random.default_rng() without a seed), per module
            np_alias, npr_alias, npr_funs, ent_mods, ent_funs = {"numpy"}, set(), set(), set(), set()
            for node in ast.walk(tree):
                if isinstance(node, ast.Import):
                    for a in node.names:
                        if a.name == "numpy":
                            np_alias.add(a.asname or "numpy")
                        elif a.name == "numpy.random" and a.asname:
                            npr_alias.add(a.asname)
                        elif a.name in ("random", "secrets"):
                            ent_mods.add(a.asname or a.name)
                elif isinstance(node, ast.ImportFrom) and not node.level:
                    for a in node.names:
                        if node.module == "numpy" and a.name == "random":
                            npr_alias.add(a.asname or "random")
                        elif node.module in ("numpy.random", "numpy.random.mtrand"):
                            npr_funs.add((a.asname or a.name, a.name))
                        elif node.module in ("random", "secrets") or (node.module == "os" and a.name == "urandom"):
                            ent_funs.add(a.asname or a.name)
            self.aliases[rel] = (np_alias, npr_alias, dict(npr_funs), ent_mods, ent_funs)
            for node in ast.walk(tree):
                if isinstance(node, ast.Import):
                    for a in node.names:
                        m = self._module_file(a.name.split("."), None, 0)
                        if m:
                            imp[a.asname or a.name.split(".")[0]] = ("mod", m if a.asname else self._module_file(a.name.split(".")[:1], None, 0))
                elif isinstance(node, ast.ImportFrom):
                    m = self._module_file(node.module.split(".") if node.module else [], rel, node.level)
                    if not m:
                        continue
                    for a in node.names:
                        if a.name == "*":
                            stars.append(m)
                        else:
                            imp[a.asname or a.name] = ("sym", m, a.name)
            self.imports[rel], self.stars[rel] = imp, stars
        # seed-accepting definitions
        self.seedparam = {}    # function / method id -> "random_state" | "seed" | "**"
        self.seedclass = {}    # class id -> parameter name of __init__
        for i, (rel, node, cls) in self.defs.items():
            if isinstance(node, ast.FunctionDef) and node.name != "__init__":
                p = self._explicit_seed_param(node)
                if p:
                    self.seedparam[i] = p
            elif isinstance(node, ast.ClassDef):
                for m in node.body:
                    if isinstance(m, ast.FunctionDef) and m.name == "__init__" and self._explicit_seed_param(m):
                        self.seedclass[i] = self._explicit_seed_param(m)
        for _ in range(3):     # **kwargs forwarded to a seed-accepting callee (svd_interface)
            for i, (rel, f, cls) in self.defs.items():
                if i in self.seedparam or not isinstance(f, ast.FunctionDef) or f.args.kwarg is None:
                    continue
                kw = f.args.kwarg.arg
                sc = _Scope(self, f, None, i, rel, cls, {})
                for n in ast.walk(f):       # svd_fun = randomized_svd
                    if isinstance(n, ast.Assign) and len(n.targets) == 1 and isinstance(n.targets[0], ast.Name) and isinstance(n.value, ast.Name):
                        r = self.resolve_symbol(rel, n.value.id)
                        if isinstance(r, str):
                            sc.fun_aliases.setdefault(n.targets[0].id, set()).add(r)
                for c in ast.walk(f):
                    if isinstance(c, ast.Call) and any(k.arg is None and isinstance(k.value, ast.Name) and k.value.id == kw for k in c.keywords):
                        if any(t in self.seedparam for t in self.resolve_call(rel, sc, c, count=False)):
                            self.seedparam[i] = "**"

    # ---- modules and symbols
    def _module_file(self, parts, rel, level):
        if level:
            base = os.path.dirname(rel)
            for _ in range(level - 1):
                base = os.path.dirname(base)
            cand = os.path.join(base, *parts) if parts else base
        else:
            if not parts or parts[0] != "tensorly":
                return None
            cand = os.path.join(*parts)
        for p in (cand + ".py", os.path.join(cand, "__init__.py")):
            if p in self.modules:
                return p
        return None

    def _submodule(self, modrel, name):
        if not modrel.endswith("__init__.py"):
            return None
        base = os.path.dirname(modrel)
        for p in (os.path.join(base, name + ".py"), os.path.join(base, name, "__init__.py")):
            if p in self.modules:
                return p
        return None

    def resolve_symbol(self, modrel, name, seen=()):
        """-> definition id | ('mod', relpath) | None"""
        if (modrel, name) in seen:
            return None
        seen = seen + ((modrel, name),)
        if f"{modrel}::{name}" in self.defs:
            return f"{modrel}::{name}"
        ent = self.imports.get(modrel, {}).get(name)
        if ent:
            if ent[0] == "mod":
                return ent
            r = self.resolve_symbol(ent[1], ent[2], seen)
            if r:
                return r
            sub = self._submodule(ent[1], ent[2])
            if sub:
                return ("mod", sub)
        sub = self._submodule(modrel, name)
        if sub:
            return ("mod", sub)
        for m in self.stars.get(modrel, []):
            r = self.resolve_symbol(m, name, seen)
            if r:
                return r
        return None

    def norm_dotted(self, rel, d):
        """dotted name with the module's aliases of numpy / numpy.random expanded (xp.random.rand -> numpy.random.rand)"""
        if not d:
            return d
        np_alias, npr_alias, npr_funs, _, _ = self.aliases.get(rel, ({"numpy"}, set(), {}, set(), set()))
        parts = d.split(".")
        if parts[0] in npr_alias:
            return ".".join(["numpy", "random"] + parts[1:])
        if len(parts) == 1 and parts[0] in npr_funs:
            return "numpy.random." + npr_funs[parts[0]]
        if parts[0] in np_alias or parts[0] == "np":
            return ".".join(["numpy"] + parts[1:])
        return d

    def entropy_call(self, rel, c):
        """a call that reads a process-wide source of randomness other than through a RandomState object: stdlib random /
        secrets / os.urandom, numpy.random.default_rng() or Generator / SeedSequence built without a seed"""
        d = _dotted(c.func) or ""
        _, _, _, ent_mods, ent_funs = self.aliases.get(rel, (set(), set(), {}, set(), set()))
        parts = d.split(".")
        unseeded = (not c.args or (isinstance(c.args[0], ast.Constant) and c.args[0].value is None)) and \
            not any(k.arg in ("seed", "entropy") and not (isinstance(k.value, ast.Constant) and k.value.value is None) for k in c.keywords)
        if len(parts) == 2 and parts[0] in ent_mods:
            return not (parts[1] in ("Random", "SystemRandom") and not unseeded)
        if len(parts) == 1 and parts[0] in ent_funs:
            return not (parts[0] == "Random" and not unseeded)
        if d == "os.urandom":
            return True
        n = self.norm_dotted(rel, d)
        if n in ("numpy.random.default_rng", "numpy.random.SeedSequence", "numpy.random.Generator", "numpy.random.PCG64", "numpy.random.MT19937", "numpy.random.Philox", "numpy.random.SFC64",
                 "numpy.random.RandomState", "numpy.random.mtrand.RandomState"):
            return unseeded        # RandomState() without a seed is seeded from the operating system
        if parts[-1] == "rvs" and len(parts) > 1 and not any(k.arg in ("random_state", "seed") and not (isinstance(k.value, ast.Constant) and k.value.value is None) for k in c.keywords):
            return True            # scipy.stats.<distribution>.rvs(...) without random_state draws from numpy's global generator
        return False

    def resolve_dotted(self, rel, parts):
        cur = self.resolve_symbol(rel, parts[0])
        for a in parts[1:]:
            if isinstance(cur, tuple):
                cur = self.resolve_symbol(cur[1], a)
            elif isinstance(cur, str) and f"{cur}.{a}" in self.defs:      # Class.method
                cur = f"{cur}.{a}"
            else:
                return None
        return cur if isinstance(cur, str) else None

    def resolve_call(self, rel, scope, c, count=True):
        """ids of the seed-accepting definitions this call may reach ([] = none / not seed-accepting)"""
        d = _dotted(c.func)
        if d is None:
            return []
        parts = d.split(".")
        if len(parts) == 1 and parts[0] in scope.fun_aliases:
            return sorted(t for t in scope.fun_aliases[parts[0]] if self.inlinable(t))
        tgt = None
        if parts[0] == "self" and scope.cls and len(parts) == 2:
            tgt = f"{rel}::{scope.cls}.{parts[1]}" if f"{rel}::{scope.cls}.{parts[1]}" in self.defs else None
        else:
            tgt = self.resolve_dotted(rel, parts)
        if tgt is not None:
            if count:
                self.stats["callees_resolved_by_qualified_name"] += 1
            return [tgt] if self.inlinable(tgt) else []
        last = parts[-1]
        # fallback 1: the tenalg functions are reached through a run-time dispatcher (tensorly.tenalg.<name>): take the
        # definition of the default (core) tenalg backend
        core = [i for i in self.defs if i.startswith("tensorly/tenalg/core_tenalg/") and i.split("::")[1] == last
                and isinstance(self.defs[i][1], ast.FunctionDef)]
        if len(core) == 1 and (len(parts) > 1 or self.resolve_symbol(rel, last) is None) and last not in scope.local_names():
            if count:
                self.stats["callees_resolved_through_the_tenalg_dispatcher"] = self.stats.get("callees_resolved_through_the_tenalg_dispatcher", 0) + 1
            return core
        # fallback 2: the bare name, only among seed-accepting definitions
        cands = sorted(i for i in list(self.seedparam) + list(self.seedclass) if i.split("::")[1].split(".")[-1] == last)
        if len(parts) == 1:
            # a plain name that the module neither defines nor imports is a local variable / parameter: not a callee we know
            if cands and count:
                self.unresolved.append((scope.where, f"call of the local name {d}, which is also the name of a seed-accepting definition"))
            return []
        if len(cands) == 1:
            if count:
                self.stats["callees_resolved_by_unique_bare_name"] += 1
            return cands
        if len(cands) > 1:
            if count:
                self.stats["callees_ambiguous"] += 1
                self.unresolved.append((scope.where, f"call {d}: several seed-accepting definitions are named {last}"))
            return cands
        return []

    def inlinable(self, i):
        """definitions whose body is transcribed at a call: every function / method of tensorly, and the classes that
        take a random_state (their methods); other classes are not followed"""
        return i in self.seedclass or (i in self.defs and isinstance(self.defs[i][1], ast.FunctionDef))

    @staticmethod
    def _explicit_seed_param(f):
        names = [a.arg for a in f.args.posonlyargs + f.args.args + f.args.kwonlyargs]
        for p in SEED_PARAMS:
            if p in names:
                return p
        return None

    # ---- bodies
    def body_of(self, i, env=None, genparam=None):
        """pskel of the definition i; variable 0 = its own random_state argument; env: parameters known to be constants.
        genparam: for a helper WITHOUT a random_state parameter that is handed a generator-related value in another parameter
        (positionally or by keyword), the name of that parameter: it is variable 0 of the helper's scope"""
        env = env or {}
        key = (i, tuple(sorted((k, repr(v)) for k, v in env.items())), genparam)
        if key in self.memo:
            return self.memo[key]
        if i in self.stack:
            return "PSkip"
        self.stack.append(i)
        try:
            rel, node, cls = self.defs[i]
            if i in self.seedclass:
                # constants passed to the constructor and stored by __init__ as self.<attr> = <parameter> are known
                # inside the methods (unless another method re-binds the attribute)
                attrs = {}
                init = [m for m in node.body if isinstance(m, ast.FunctionDef) and m.name == "__init__"][0]
                for n in ast.walk(init):
                    if isinstance(n, ast.Assign) and len(n.targets) == 1 and isinstance(n.targets[0], ast.Attribute) and \
                            isinstance(n.targets[0].value, ast.Name) and n.targets[0].value.id == "self" and isinstance(n.value, ast.Name) and n.value.id in env:
                        attrs["self." + n.targets[0].attr] = env[n.value.id]
                for m in node.body:
                    if isinstance(m, ast.FunctionDef) and m.name != "__init__":
                        for n in ast.walk(m):
                            tg = n.targets if isinstance(n, ast.Assign) else ([n.target] if isinstance(n, (ast.AugAssign, ast.AnnAssign)) else [])
                            for t in tg:
                                if isinstance(t, ast.Attribute) and isinstance(t.value, ast.Name) and t.value.id == "self":
                                    attrs.pop("self." + t.attr, None)
                out = seq([_Scope(self, m, "self", f"{i}.{m.name}", rel, node.name, attrs).block(m.body)
                           for m in node.body if isinstance(m, ast.FunctionDef) and m.name != "__init__"])
            else:
                out = _Scope(self, node, self.seedparam.get(i) or genparam, i, rel, cls, env, genparam=genparam).block(node.body)
        finally:
            self.stack.pop()
        self.memo[key] = out
        return out

    def call_env(self, callee, c, caller):
        """constants known for the parameters of [callee] at the call c made from scope [caller]"""
        rel, fd, cls = self.defs[callee]
        if not isinstance(fd, ast.FunctionDef):
            return {}
        a = fd.args
        pos = [x.arg for x in a.posonlyargs + a.args]
        if pos and pos[0] == "self":
            pos = pos[1:]
        env = {}
        dynamic = any(k.arg is None for k in c.keywords) or any(isinstance(x, ast.Starred) for x in c.args)
        if not dynamic:
            allpos = [x.arg for x in a.posonlyargs + a.args]
            for nm, d in zip(allpos[len(allpos) - len(a.defaults):], a.defaults):
                if isinstance(d, ast.Constant):
                    env[nm] = d.value
            for x, d in zip(a.kwonlyargs, a.kw_defaults):
                if isinstance(d, ast.Constant):
                    env[x.arg] = d.value

        val = caller.kval
        if not any(isinstance(x, ast.Starred) for x in c.args):
            for nm, e in zip(pos, c.args):
                ok, v = val(e)
                if ok:
                    env[nm] = v
                else:
                    env.pop(nm, None)
        for k in c.keywords:
            if k.arg is None:
                continue
            ok, v = val(k.value)
            if ok:
                env[k.arg] = v
            else:
                env.pop(k.arg, None)
        return env


class _Scope:
    def __init__(self, ex, f, param, where, rel, cls, env, genparam=None):
        self.ex, self.f, self.param, self.where, self.rel, self.cls = ex, f, param, where, rel, cls
        self.method_aliases = {}   # sample = rng.random_sample -> variable number of rng
        # constants known for parameters / local names, FLOW-SENSITIVELY: an assignment updates the knowledge from
        # that point on (constant -> that constant; tuple / list / instance of a class of the code base -> "not a
        # string, not None"; anything else -> unknown), branches are joined, names assigned in a loop or in the
        # enclosing function of a closure are unknown inside it
        self.known = dict(env or {})
        self.vars = {}          # generator-related names -> variable number (0 = the random_state argument)
        self.kwname = f.args.kwarg.arg if f.args.kwarg is not None else None
        if param in SEED_PARAMS or (genparam is not None and param == genparam):
            self.vars[param] = 0
        self.nvars = 1
        self.fun_aliases = {}   # local names assigned from functions (svd_fun = randomized_svd) -> ids, as encountered
        self.pre = []           # events produced while classifying an expression (inline check_random_state(...))

    def kval(self, e):
        """(known?, value) of an expression under the flow-sensitive constant knowledge"""
        if isinstance(e, ast.Constant):
            return True, e.value
        if isinstance(e, (ast.Tuple, ast.List)):
            return True, NOT_A_SCALAR          # init=(weights, factors): differs from every string / None
        if isinstance(e, ast.Name) and e.id in self.known:
            return True, self.known[e.id]
        if isinstance(e, ast.Attribute) and isinstance(e.value, ast.Name) and e.value.id == "self" and ("self." + e.attr) in self.known:
            return True, self.known["self." + e.attr]
        return False, None

    def local_names(self):
        if not hasattr(self, "_locals"):
            a = self.f.args
            self._locals = self.assigned_in([self.f]) | {x.arg for x in a.posonlyargs + a.args + a.kwonlyargs} | \
                {x.arg for x in (a.vararg, a.kwarg) if x is not None}
        return self._locals

    def var(self, name):
        if name not in self.vars:
            self.vars[name] = self.nvars
            self.nvars += 1
        return self.vars[name]

    def tmp(self):
        self.nvars += 1
        return self.nvars - 1

    def is_param_attr(self, e):
        return self.param == "self" and isinstance(e, ast.Attribute) and isinstance(e.value, ast.Name) and e.value.id == "self" and e.attr in SEED_PARAMS

    def is_check_call(self, e):
        return isinstance(e, ast.Call) and (_dotted(e.func) or "").split(".")[-1] == "check_random_state" and len(e.args) >= 1

    def pexp(self, e, what="random_state argument"):
        """expression of random_state type -> pexp (None when it is not one we understand)"""
        if isinstance(e, ast.Name) and e.id in self.vars:
            return pvar(self.vars[e.id])
        if self.is_param_attr(e):
            return pvar(0)
        if isinstance(e, ast.Constant) and e.value is None:
            return "PNoneE"
        if isinstance(e, ast.Constant) and isinstance(e.value, int) and not isinstance(e.value, bool):
            return "(PConstE (%d)%%Z)" % e.value
        if self.ex.norm_dotted(self.rel, _dotted(e) or "") in GLOBAL_OBJECTS:
            return "PGlobE"
        if self.is_check_call(e):
            inner = self.pexp(e.args[0], what)
            t = self.tmp()
            self.pre.append("(PCheck %d%%nat %s)" % (t, inner if inner is not None else pvar(0)))
            return pvar(t)
        return None

    def pexp_or_arg(self, e, what):
        p = self.pexp(e, what)
        if p is None:
            self.ex.unresolved.append((self.where, f"{what}: {ast.dump(e)[:80]}"))
            return pvar(0)
        return p

    # -- statements
    @staticmethod
    def terminates(stmts):
        """every path through the statement list ends in return / raise / break / continue"""
        if not stmts:
            return False
        last = stmts[-1]
        if isinstance(last, (ast.Return, ast.Raise, ast.Break, ast.Continue)):
            return True
        if isinstance(last, ast.If) and last.orelse:
            return _Scope.terminates(last.body) and _Scope.terminates(last.orelse)
        return False

    @staticmethod
    def may_exit(s):
        """a RETURN somewhere inside the statement (not inside a nested function or class): what follows may be skipped by a
        call that completes.  (A raise deeper inside is PFail where it stands: the failure flag is sticky and the model keeps
        going, conservatively, as everywhere.)"""
        todo = [s]
        while todo:
            n = todo.pop()
            if isinstance(n, ast.Return):
                return True
            for c in ast.iter_child_nodes(n):
                if not isinstance(c, (ast.FunctionDef, ast.AsyncFunctionDef, ast.ClassDef, ast.Lambda)):
                    todo.append(c)
        return False

    def block(self, stmts):
        """a statement list WITH its early exits: what follows `if c: ... return / raise` is transcribed on the other branch
        (exactly the control flow of structured code); a raise outside a try block is PFail; after a statement that may
        RETURN from deeper inside (a loop, a with / try block, a partially returning if) the rest is optional"""
        stmts = list(stmts)
        out = []
        for idx, s in enumerate(stmts):
            rest = stmts[idx + 1:]
            if isinstance(s, ast.Return):
                out.append(self.expr(s.value))
                return seq(out)
            if isinstance(s, ast.Raise):
                out.append(seq([self.expr(c) for c in (s.exc, s.cause) if c is not None]))
                if not getattr(self, "try_depth", 0):
                    out.append("PFail")
                return seq(out)
            if isinstance(s, (ast.Break, ast.Continue)):
                return seq(out)
            if isinstance(s, ast.If):
                t = self.truth(s.test)
                if t is not None:
                    out.append(self.expr(s.test))
                    out.append(self.block(list(s.body if t else s.orelse) + rest))
                    return seq(out)
                tb, to = self.terminates(s.body), self.terminates(s.orelse)
                if tb or to:
                    ev = self.expr(s.test)
                    k0 = dict(self.known)
                    a = self.block(list(s.body) + ([] if tb else rest))
                    k1 = self.known
                    self.known = dict(k0)
                    b = self.block(list(s.orelse) + ([] if to else rest))
                    if to and not tb:
                        self.known = k1
                    out += [ev, branch(a, b)]
                    return seq(out)
            out.append(self.stmt(s))
            if rest and self.may_exit(s):
                out.append(branch(self.block(rest), "PSkip"))
                return seq(out)
        return seq(out)

    @staticmethod
    def assigned_in(nodes):
        out = set()
        for root in nodes:
            for n in ast.walk(root):
                tg = []
                if isinstance(n, ast.Assign):
                    tg = n.targets
                elif isinstance(n, (ast.AugAssign, ast.AnnAssign, ast.For, ast.AsyncFor, ast.comprehension, ast.NamedExpr)):
                    tg = [n.target]
                elif isinstance(n, (ast.With, ast.AsyncWith)):
                    tg = [i.optional_vars for i in n.items if i.optional_vars is not None]
                elif isinstance(n, ast.ExceptHandler) and n.name:
                    out.add(n.name)
                elif isinstance(n, (ast.Import, ast.ImportFrom)):
                    out.update((a.asname or a.name).split(".")[0] for a in n.names)
                elif isinstance(n, (ast.FunctionDef, ast.ClassDef)):
                    out.add(n.name)
                for t in tg:
                    for m in ast.walk(t):
                        if isinstance(m, ast.Name):
                            out.add(m.id)
        return out

    def forget(self, names):
        for n in names:
            self.known.pop(n, None)

    @staticmethod
    def join_known(a, b):
        return {k: v for k, v in a.items() if k in b and (b[k] is v or (type(b[k]) is type(v) and b[k] == v))}

    def stmt(self, s):
        if isinstance(s, (ast.FunctionDef, ast.AsyncFunctionDef)):
            # local closure: inlined where it is defined; it may run later, when the names the enclosing function
            # assigns have other values.  A DIRECT call of it is transcribed once more at the call site with its parameters
            # bound (inline_local), so that a helper that receives the generator as an argument keeps its draws
            if not hasattr(self, "local_defs"):
                self.local_defs = {}
            self.local_defs[s.name] = s
            saved = dict(self.known)
            self.forget(self.assigned_in([self.f]) | self.assigned_in([s]) |
                        {a.arg for a in s.args.posonlyargs + s.args.args + s.args.kwonlyargs} |
                        {a.arg for a in (s.args.vararg, s.args.kwarg) if a is not None})
            out = self.block(s.body)
            self.known = saved
            return out
        if isinstance(s, ast.ClassDef):
            return "PSkip"
        if isinstance(s, ast.If):
            t = self.truth(s.test)
            if t is True:
                return seq([self.expr(s.test), self.block(s.body)])
            if t is False:
                return seq([self.expr(s.test), self.block(s.orelse)])
            ev = self.expr(s.test)
            k0 = dict(self.known)
            a = self.block(s.body)
            k1 = self.known
            self.known = dict(k0)
            b = self.block(s.orelse)
            self.known = self.join_known(k1, self.known)
            return seq([ev, branch(a, b)])
        if isinstance(s, (ast.For, ast.AsyncFor, ast.While)):
            self.forget(self.assigned_in([s]))
            if isinstance(s, ast.While):
                out = seq([loop(seq([self.expr(s.test), self.block(s.body)])), self.block(s.orelse)])
            else:
                out = seq([self.expr(s.iter), loop(self.block(s.body)), self.block(s.orelse)])
            self.forget(self.assigned_in([s]))
            return out
        if isinstance(s, (ast.With, ast.AsyncWith)):
            ev = [self.expr(i.context_expr) for i in s.items]
            self.forget(self.assigned_in([i.optional_vars for i in s.items if i.optional_vars is not None]))
            return seq(ev + [self.block(s.body)])
        if isinstance(s, ast.Try):
            self.forget(self.assigned_in([s]))
            self.try_depth = getattr(self, "try_depth", 0) + 1       # a raise inside the try body may be caught: not PFail
            body_sk = self.block(s.body)
            self.try_depth -= 1
            out = seq([body_sk] + [branch(self.block(h.body), "PSkip") for h in s.handlers] + [self.block(s.orelse), self.block(s.finalbody)])
            self.forget(self.assigned_in([s]))
            return out
        if isinstance(s, ast.Assign) and len(s.targets) == 1:
            out = self.assign(s.targets[0], s.value)
            self.learn(s.targets[0], s.value)
            return out
        if isinstance(s, ast.AnnAssign) and s.value is not None:
            out = self.assign(s.target, s.value)
            self.learn(s.target, s.value)
            return out
        out = seq([self.expr(c) for c in ast.iter_child_nodes(s) if isinstance(c, ast.expr)] +
                  [self.stmt(c) for c in ast.iter_child_nodes(s) if isinstance(c, ast.stmt)])
        self.forget(self.assigned_in([s]))
        return out

    def learn(self, target, value):
        """effect of `target = value` on what is known about constants"""
        if not isinstance(target, ast.Name):
            self.forget(self.assigned_in([ast.Assign(targets=[target], value=ast.Constant(value=None))]))
            return
        self.forget(self.assigned_in([value]))          # walrus inside the value
        if isinstance(value, ast.Constant):
            self.known[target.id] = value.value
        elif isinstance(value, (ast.Tuple, ast.List, ast.Dict, ast.Set)):
            self.known[target.id] = NOT_A_SCALAR
        elif isinstance(value, ast.Name) and value.id in self.known:
            self.known[target.id] = self.known[value.id]
        elif isinstance(value, ast.Call):
            r = self.ex.resolve_dotted(self.rel, (_dotted(value.func) or "?").split("."))
            if isinstance(r, str) and isinstance(self.ex.defs[r][1], ast.ClassDef):
                self.known[target.id] = NOT_A_SCALAR    # an instance of a class of the code base: not a string, not None
            else:
                self.known.pop(target.id, None)
        else:
            self.known.pop(target.id, None)

    def assign(self, target, value):
        """`target = value`: a binding of a generator-related name is kept as it is (PAssign / PCheck)"""
        if isinstance(value, ast.IfExp):        # x = a if c else b
            t = self.truth(value.test)
            if t is not None:
                return seq([self.expr(value.test), self.assign(target, value.body if t else value.orelse)])
            return seq([self.expr(value.test), branch(self.assign(target, value.body), self.assign(target, value.orelse))])
        if isinstance(value, ast.BoolOp) and isinstance(target, ast.Name):      # x = a or b / a and b: one of the operands
            ev = self.assign(target, value.values[0])
            for v in value.values[1:]:
                ev = branch(ev, self.assign(target, v))
            return ev
        if isinstance(target, (ast.Tuple, ast.List)) and isinstance(value, (ast.Tuple, ast.List)) and len(target.elts) == len(value.elts) \
                and not any(isinstance(x, ast.Starred) for x in list(target.elts) + list(value.elts)):
            return seq([self.assign(t, v) for t, v in zip(target.elts, value.elts)])       # a, b = x, y
        if isinstance(target, ast.Name) and isinstance(value, ast.Attribute) and isinstance(value.value, ast.Name) and \
                value.value.id in self.vars and value.attr in self.ex.samplers:
            self.method_aliases[target.id] = self.vars[value.value.id]                      # sample = rng.random_sample
            return "PSkip"
        if isinstance(target, ast.Name) and isinstance(value, ast.Attribute):
            nd = self.ex.norm_dotted(self.rel, _dotted(value) or "")
            if nd.rpartition(".")[0] in GLOBAL_OBJECTS and nd.rpartition(".")[2] in (self.ex.samplers | {"seed", "set_state"}):
                self.method_aliases[target.id] = "numpy.random"                             # sample = np.random.random_sample
                return "PSkip"
        if isinstance(target, ast.Name) or self.is_param_attr(target):
            name = target.id if isinstance(target, ast.Name) else None
            if name is not None and isinstance(value, ast.Name):
                r = self.ex.resolve_symbol(self.rel, value.id)
                if isinstance(r, str) and isinstance(self.ex.defs[r][1], ast.FunctionDef):
                    self.fun_aliases.setdefault(name, set()).add(r)
            if name is not None and isinstance(value, ast.Call) and \
                    self.ex.norm_dotted(self.rel, _dotted(value.func) or "") in ("numpy.random.RandomState", "numpy.random.mtrand.RandomState"):
                # x = RandomState(...): seeded with the argument / an int literal -> like check_random_state; seeded with another
                # expression -> a CHILD generator (PSeedFrom; the draws inside the expression come first; a clock / pid /
                # object id in the expression is a process-wide entropy source); without a seed -> the operating system's entropy
                args = list(value.args) + [k.value for k in value.keywords if k.arg == "seed"]
                x = self.var(name)
                if len(args) == 1 and not (isinstance(args[0], ast.Constant) and args[0].value is None):
                    self.pre = []
                    p = self.pexp(args[0])
                    pre = list(self.pre)
                    if p is not None:
                        return seq(pre + ["(PCheck %d%%nat %s)" % (x, p)])
                    ev = self.expr(args[0])
                    clock = any(isinstance(n, ast.Call) and ((_dotted(n.func) or "?").split(".")[0] in ("time", "datetime", "os", "uuid", "id", "hash", "secrets", "random"))
                                for n in ast.walk(args[0]))
                    if clock:
                        self.ex.flags.append((self.where, f"generator seeded from a clock / process id / object id: {ast.unparse(value)[:80]}"))
                    return seq([ev] + (["(PDrawNp 0%nat)"] if clock else []) + ["(PSeedFrom %d%%nat 0%%nat)" % x])
                self.ex.flags.append((self.where, f"generator seeded from the operating system: {ast.unparse(value)[:80]}"))
                return seq(["(PDrawNp 0%nat)", "(PAssign %d%%nat PGlobE)" % x])
            if self.is_check_call(value):
                sub = seq([self.expr(a) for a in value.args[1:]])
                self.pre = []
                inner = self.pexp(value.args[0])
                pre = list(self.pre)
                if inner is None:
                    self.ex.unresolved.append((self.where, f"check_random_state of {ast.dump(value.args[0])[:60]}"))
                    inner = pvar(0)
                if inner in ("PNoneE", "PGlobE"):
                    self.ex.flags.append((self.where, "check_random_state applied to None / the global generator"))
                x = self.var(name) if name is not None else 0
                return seq([sub] + pre + ["(PCheck %d%%nat %s)" % (x, inner)])
            self.pre = []
            p = self.pexp(value)
            pre = list(self.pre)
            tracked = (name in self.vars) if name is not None else True
            if p is not None and (tracked or p.startswith("(PVar") or p == "PGlobE"):
                # a generator-related value, or a tracked name that gets None / an int
                x = self.var(name) if name is not None else 0
                return seq(pre + ["(PAssign %d%%nat %s)" % (x, p)])
            if p is None and tracked and name is not None:
                self.ex.unresolved.append((self.where, f"{name} (generator-valued) re-bound to {ast.dump(value)[:60]}"))
        return self.expr(value)

    def truth(self, e):
        """three-valued evaluation of a test under what is known: constant parameters of this call, and the fact
        that the analysis is about random_state being an int or a generator object (never None)"""
        if isinstance(e, ast.Constant):
            return bool(e.value)
        if isinstance(e, (ast.Name, ast.Attribute)) and self.kval(e)[0]:
            return bool(self.kval(e)[1])
        if isinstance(e, ast.UnaryOp) and isinstance(e.op, ast.Not):
            t = self.truth(e.operand)
            return None if t is None else (not t)
        if isinstance(e, ast.BoolOp):
            ts = [self.truth(v) for v in e.values]
            if isinstance(e.op, ast.And):
                return False if any(t is False for t in ts) else (True if all(t is True for t in ts) else None)
            return True if any(t is True for t in ts) else (False if all(t is False for t in ts) else None)
        if isinstance(e, ast.Compare) and len(e.ops) == 1:
            l, r, op = e.left, e.comparators[0], e.ops[0]
            arg0 = (isinstance(l, ast.Name) and self.vars.get(l.id) == 0 and self.param in SEED_PARAMS and l.id not in self.reassigned0()) or self.is_param_attr(l)
            if arg0 and isinstance(r, ast.Constant) and r.value is None and isinstance(op, (ast.Is, ast.Eq)):
                return False
            if arg0 and isinstance(r, ast.Constant) and r.value is None and isinstance(op, (ast.IsNot, ast.NotEq)):
                return True

            (ok1, v1), (ok2, v2) = self.kval(l), self.kval(r)
            if ok1 and ok2:
                if isinstance(op, ast.Eq):
                    return v1 == v2
                if isinstance(op, ast.NotEq):
                    return v1 != v2
                if isinstance(op, ast.Is):
                    return v1 is v2
                if isinstance(op, ast.IsNot):
                    return v1 is not v2
        return None

    def reassigned0(self):
        """is the argument name itself assigned somewhere in the function? (then `random_state is None` is not decided)"""
        if not hasattr(self, "_re0"):
            self._re0 = set()
            for n in ast.walk(self.f):
                if isinstance(n, ast.Assign):
                    for t in n.targets:
                        if isinstance(t, ast.Name) and self.vars.get(t.id) == 0:
                            self._re0.add(t.id)
        return self._re0

    # -- expressions: events in evaluation order
    def expr(self, e):
        if e is None:
            return "PSkip"
        if isinstance(e, (ast.ListComp, ast.SetComp, ast.GeneratorExp)):
            gens = seq([seq([self.expr(g.iter)] + [self.expr(i) for i in g.ifs]) for g in e.generators])
            return seq([gens, loop(self.expr(e.elt))])
        if isinstance(e, ast.DictComp):
            gens = seq([seq([self.expr(g.iter)] + [self.expr(i) for i in g.ifs]) for g in e.generators])
            return seq([gens, loop(seq([self.expr(e.key), self.expr(e.value)]))])
        if isinstance(e, ast.Lambda):
            return self.expr(e.body)
        if isinstance(e, ast.NamedExpr):            # (x := value)
            out = self.assign(e.target, e.value)
            self.learn(e.target, e.value)
            return out
        if isinstance(e, ast.IfExp):
            t = self.truth(e.test)
            if t is not None:
                return seq([self.expr(e.test), self.expr(e.body if t else e.orelse)])
            return seq([self.expr(e.test), branch(self.expr(e.body), self.expr(e.orelse))])
        if isinstance(e, ast.Call):
            return self.call(e)
        return seq([self.expr(c) for c in ast.iter_child_nodes(e) if isinstance(c, ast.expr)])

    def call(self, c):
        seedkw = [k for k in c.keywords if k.arg in SEED_PARAMS]
        pre = [self.expr(c.func.value)] if isinstance(c.func, ast.Attribute) else []
        pre += [self.expr(a) for a in c.args] + [self.expr(k.value) for k in c.keywords if k not in seedkw or not self.is_check_call(k.value)]
        d = _dotted(c.func) or ""
        parts = d.split(".")
        last = parts[-1]
        ev = "PSkip"
        drawish = self.ex.samplers | {"seed", "set_state"}
        if last == "check_random_state":
            ev = "PSkip"                 # a binding emits PCheck (assign); as an argument: pexp; a bare call has no effect
        elif len(parts) == 2 and isinstance(c.func.value, ast.Name) and parts[0] in self.vars and last in self.ex.samplers:
            ev = "(PDraw %d%%nat 0%%nat)" % self.vars[parts[0]]
        elif len(parts) == 3 and parts[0] == "self" and parts[1] in SEED_PARAMS and self.param == "self" and last in self.ex.samplers:
            ev = "(PDraw 0%nat 0%nat)"
        elif self.ex.norm_dotted(self.rel, d).rpartition(".")[0] in GLOBAL_OBJECTS and self.ex.norm_dotted(self.rel, d).rpartition(".")[2] in drawish:
            ev = "(PDrawNp 0%nat)"
            self.ex.flags.append((self.where, f"draw on numpy's global generator: {d}"))
        elif self.ex.entropy_call(self.rel, c):
            ev = "(PDrawNp 0%nat)"     # not NumPy's legacy generator, but equally outside the control of random_state
            self.ex.flags.append((self.where, f"process-wide entropy source: {d}"))
        elif isinstance(c.func, ast.Name) and c.func.id in getattr(self, "local_defs", {}) and getattr(self, "closure_depth", 0) < 3:
            ev = self.inline_local(self.local_defs[c.func.id], c)
        elif isinstance(c.func, ast.Name) and c.func.id in self.method_aliases:
            if self.method_aliases[c.func.id] == "numpy.random":
                ev = "(PDrawNp 0%nat)"
                self.ex.flags.append((self.where, f"draw on numpy's global generator through the alias {c.func.id}"))
            else:
                ev = "(PDraw %d%%nat 0%%nat)" % self.method_aliases[c.func.id]        # sample = rng.random_sample; sample(...)
        else:
            alts = []
            for cal in self.ex.resolve_call(self.rel, self, c):
                if cal in self.ex.seedclass:
                    alts.append((cal, self.ex.seedclass[cal], True))
                else:
                    alts.append((cal, self.ex.seedparam.get(cal), False))
            evs = []
            for cal, pname, is_class in alts:
                self.pre = []
                # a callee without random_state parameter: its scope has no argument variable (None stands for it) -- unless the
                # call hands it a generator-related value in another parameter (helper(rng, shape)): that parameter is its variable 0
                gp = None
                if pname is not None:
                    a = self.arg_for(c, cal, pname, is_class)
                else:
                    a = "PNoneE"
                    gp, ga = self.generator_argument(c, cal)
                    if gp is not None:
                        a = ga
                evs.append(seq(list(self.pre) + [call(a, self.ex.body_of(cal, self.ex.call_env(cal + ".__init__" if is_class else cal, c, self), genparam=gp))]))
            if evs:
                ev = evs[0]
                for x in evs[1:]:
                    ev = branch(x, ev)
        return seq(pre + [ev])

    def generator_argument(self, c, callee):
        """(parameter name, pexp) of the first argument of the call c that is a generator-related value (a tracked name, the
        argument itself, np.random, an inline check_random_state(...)) -- for callees without a random_state parameter"""
        rel, fd, cls = self.ex.defs[callee]
        if not isinstance(fd, ast.FunctionDef) or any(isinstance(x, ast.Starred) for x in c.args):
            return None, None
        pos = [x.arg for x in fd.args.posonlyargs + fd.args.args]
        if pos and pos[0] in ("self", "cls") and cls is not None:
            pos = pos[1:]
        names = pos + [x.arg for x in fd.args.kwonlyargs]
        cands = list(zip(pos, c.args)) + [(k.arg, k.value) for k in c.keywords if k.arg in names]
        for pn, v in cands:
            saved = list(self.pre)
            self.pre = []
            p = self.pexp(v)
            if p is not None and (p.startswith("(PVar") or p == "PGlobE"):
                self.pre = saved + self.pre
                return pn, p
            self.pre = saved
        return None, None

    def inline_local(self, fdef, c):
        """a direct call of a local helper function: the parameters that receive a generator-related value (a tracked name, the
        argument, np.random) are bound to FRESH variable numbers, the other parameters hide outer names of the same spelling, the
        body is transcribed at the call site, and the outer meaning of the parameter names is restored afterwards"""
        a = fdef.args
        pos = [x.arg for x in a.posonlyargs + a.args]
        allp = pos + [x.arg for x in a.kwonlyargs] + [x.arg for x in (a.vararg, a.kwarg) if x is not None]
        binds = []
        for k, v in enumerate(c.args):
            if isinstance(v, ast.Starred) or k >= len(pos):
                break
            binds.append((pos[k], v))
        binds += [(kw.arg, kw.value) for kw in c.keywords if kw.arg in allp]
        saved_vars, saved_known = dict(self.vars), dict(self.known)
        evs, newmap = [], {}
        for pn, v in binds:
            self.pre = []
            p = self.pexp(v)
            pre = list(self.pre)
            if p is not None and (p.startswith("(PVar") or p == "PGlobE"):
                t = self.tmp()
                newmap[pn] = t
                evs += pre + ["(PAssign %d%%nat %s)" % (t, p)]
        for pn in allp:
            self.vars.pop(pn, None)
        self.vars.update(newmap)
        self.forget(self.assigned_in([self.f]) | self.assigned_in([fdef]) | set(allp))
        self.closure_depth = getattr(self, "closure_depth", 0) + 1
        try:
            body = self.block(fdef.body)
        finally:
            self.closure_depth -= 1
            for pn in allp:
                if pn in saved_vars:
                    self.vars[pn] = saved_vars[pn]
                else:
                    self.vars.pop(pn, None)
            self.known = saved_known
        return seq(evs + [body])

    def arg_for(self, c, callee, pname, is_class=False):
        """the random_state argument of the call c to [callee] (whose seed parameter is pname)"""
        names = list(SEED_PARAMS) if pname == "**" else [pname]
        for k in c.keywords:
            if k.arg in names:
                return self.pexp_or_arg(k.value, f"random_state argument passed to {callee}")
        # **kwargs forwarded: the function's own **kwargs can carry random_state only if the function has no explicit
        # random_state parameter (svd_interface); **tl.context(tensor) / **context never does
        for k in c.keywords:
            if k.arg is None:
                if isinstance(k.value, ast.Name) and k.value.id == self.kwname and self.param == "**":
                    return pvar(0)
                d = (_dotted(k.value.func) if isinstance(k.value, ast.Call) else _dotted(k.value)) or ""
                if d.split(".")[-1] not in ("context", "kwargs", self.kwname):
                    self.ex.unresolved.append((self.where, f"**{d or ast.dump(k.value)[:40]} passed to {callee}"))
        if pname != "**":
            rel, node, cls = self.ex.defs[callee]
            if is_class:
                init = [m for m in node.body if isinstance(m, ast.FunctionDef) and m.name == "__init__"][0]
                pos = [a.arg for a in init.args.posonlyargs + init.args.args][1:]
            else:
                pos = [a.arg for a in node.args.posonlyargs + node.args.args]
                if pos and pos[0] == "self":
                    pos = pos[1:]
            if pname in pos and pos.index(pname) < len(c.args) and not any(isinstance(a, ast.Starred) for a in c.args):
                return self.pexp_or_arg(c.args[pos.index(pname)], f"positional random_state argument passed to {callee}")
        return "PNoneE"


def entry(ex, i):
    """pskel of a whole call of the definition i: variable 0 is the caller's random_state argument"""
    return ex.body_of(i)


STATIC_EP = {
    "random_tensor": "E_random_tensor", "randn": "E_random_tensor", "gamma": "E_random_tensor", "random_cp": "E_random_cp",
    "random_tucker": "E_random_tucker", "random_tt": "E_random_tt", "random_tr": "E_random_tr", "random_tt_matrix": "E_random_tt_matrix",
    "random_parafac2": "E_random_parafac2", "randomized_range_finder": "E_range_finder", "randomized_svd": "E_randomized_svd",
    "svd_interface": "E_svd_interface", "initialize_cp": "E_initialize_cp", "parafac": "E_parafac", "non_negative_parafac": "E_nn_parafac",
    "non_negative_parafac_hals": "E_nn_parafac_hals", "constrained_parafac": "E_constrained_parafac", "randomised_parafac": "E_randomised_parafac",
    "sample_khatri_rao": "E_sample_khatri_rao", "initialize_tucker": "E_initialize_tucker", "partial_tucker": "E_partial_tucker", "tucker": "E_tucker",
    "non_negative_tucker": "E_nn_tucker", "non_negative_tucker_hals": "E_nn_tucker_hals", "parafac2": "E_parafac2", "tensor_ring_als": "E_tr_als",
    "tensor_ring_als_sampled": "E_tr_als_sampled", "tensor_train_cross": "E_tt_cross", "CPRegressor": "E_cp_regressor", "TuckerRegressor": "E_tucker_regressor",
    "CP_PLSR": "E_cp_plsr", "CP": "(E_estimator E_parafac)", "CP_NN": "(E_estimator E_nn_parafac)", "CP_NN_HALS": "(E_estimator E_nn_parafac_hals)",
    "ConstrainedCP": "(E_estimator E_constrained_parafac)", "RandomizedCP": "(E_estimator E_randomised_parafac)", "Tucker": "(E_estimator E_tucker)",
    "Tucker_NN": "(E_estimator E_nn_tucker)", "Tucker_NN_HALS": "(E_estimator E_nn_tucker_hals)",
    "initialize_constrained_parafac": "E_initialize_constrained", "initialize_decomposition": "E_parafac2_init",
    "_compute_projections": "E_compute_projections", "_BroThesisLineSearch": "(E_estimator E_compute_projections)",
    "Parafac2": "(E_estimator E_parafac2)", "TensorRingALS": "(E_estimator E_tr_als)", "TensorRingALSSampled": "(E_estimator E_tr_als_sampled)",
}
# CP_PLSR.fit calls initialize_cp(Z, 1) without random_state; the extraction cannot see that the rank-1 padding branch is
# unreachable (Model/Draws.v: sk_cp_plsr, theorem C16_cp_plsr_global_free), so global-freeness is not REQUIRED of its
# option-insensitive extracted skeleton (the traced calls show that nothing is drawn)
STATIC_NOT_REQUIRED = {"CP_PLSR"}
HEADER_STATIC = HEADER + "\nFrom TLV Require Import Model.DrawsSparse.\nDefinition failing := failing_static."


HEADER_TABLE = HEADER + "\nDefinition failing := failing_table."


def stored_generators(ex):
    """the model's standing assumption "library code keeps no generator object across calls", checked on the source: no function
    or method (constructors included) assigns a RESOLVED generator -- check_random_state(...), RandomState(...), default_rng(...),
    or a local name bound from one of these -- to an attribute, a subscript, or a name declared global / nonlocal.  (Storing the
    raw random_state argument, as every estimator's __init__ does, is what keeps fit reproducible.)"""
    out = []
    makers = ("check_random_state", "RandomState", "default_rng", "Generator")
    for i, (rel, f, cls) in sorted(ex.defs.items()):
        if not isinstance(f, ast.FunctionDef):
            continue
        bound, escaping = set(), set()
        for n in ast.walk(f):
            if isinstance(n, (ast.Global, ast.Nonlocal)):
                escaping.update(n.names)

        def resolved(v):
            return (isinstance(v, ast.Call) and (_dotted(v.func) or "").split(".")[-1] in makers) or (isinstance(v, ast.Name) and v.id in bound)
        for n in ast.walk(f):     # ast.walk is breadth-first: good enough for "bound somewhere in this function"
            if isinstance(n, ast.Assign) and len(n.targets) == 1 and isinstance(n.targets[0], ast.Name) and \
                    isinstance(n.value, ast.Call) and (_dotted(n.value.func) or "").split(".")[-1] in makers:
                bound.add(n.targets[0].id)
        # containers that provably stay inside the call: a local name bound (only) to a dict / list literal or dict() / list() in this
        # function, not a parameter, not declared global / nonlocal, never returned, yielded or stored elsewhere (e.g. a kwargs dict)
        params = {a.arg for a in f.args.posonlyargs + f.args.args + f.args.kwonlyargs} | {a.arg for a in (f.args.vararg, f.args.kwarg) if a is not None}
        lit_bound, other_bound, leaked = set(), set(), set()
        for n in ast.walk(f):
            if isinstance(n, ast.Assign):
                is_lit = isinstance(n.value, (ast.Dict, ast.List)) or (isinstance(n.value, ast.Call) and _dotted(n.value.func) in ("dict", "list") and not n.value.args)
                for t in n.targets:
                    if isinstance(t, ast.Name):
                        (lit_bound if is_lit else other_bound).add(t.id)
                    elif isinstance(t, (ast.Attribute, ast.Subscript)) and isinstance(n.value, ast.Name):
                        leaked.add(n.value.id)
            elif isinstance(n, (ast.Return, ast.Yield, ast.YieldFrom)) and n.value is not None:
                leaked.update(m.id for m in ast.walk(n.value) if isinstance(m, ast.Name))
        local_containers = lit_bound - other_bound - params - escaping - leaked
        for n in ast.walk(f):
            if isinstance(n, ast.Assign) and resolved(n.value):
                for t in n.targets:
                    if isinstance(t, ast.Subscript) and isinstance(t.value, ast.Name) and t.value.id in local_containers:
                        continue
                    if isinstance(t, (ast.Attribute, ast.Subscript)) or (isinstance(t, ast.Name) and t.id in escaping):
                        out.append((i, f"line {n.lineno}: {ast.unparse(n)[:100]}"))
    return out


def crs_table_case(ex):
    """the if / elif chain of Backend.check_random_state, re-read from the source, as a decision table of Model/Draws.v
    (crs_test * crs_action list + default action).  Fail closed: whatever is not understood becomes TUnknown / AUnknown,
    which Corr.C16.crs_table_ok rejects."""
    i = "tensorly/backend/core.py::Backend.check_random_state"
    if i not in ex.defs:
        return None, "definition not found"
    rel, f, _ = ex.defs[i]
    params = [a.arg for a in f.args.posonlyargs + f.args.args if a.arg != "self"]
    if len(params) != 1:
        return "(0%nat, [(TUnknown, AUnknown)], AUnknown)", "unexpected signature"
    arg = params[0]

    def is_arg(e):
        return isinstance(e, ast.Name) and e.id == arg

    def test(e):
        if isinstance(e, ast.Compare) and len(e.ops) == 1 and isinstance(e.ops[0], ast.Is) and is_arg(e.left) and \
                isinstance(e.comparators[0], ast.Constant) and e.comparators[0].value is None:
            return "TIsNone"
        if isinstance(e, ast.Call) and _dotted(e.func) == "isinstance" and len(e.args) == 2 and not e.keywords and is_arg(e.args[0]):
            ts = e.args[1].elts if isinstance(e.args[1], ast.Tuple) else [e.args[1]]
            ds = [ex.norm_dotted(rel, _dotted(t) or "?") for t in ts]
            if all(d in ("int", "numpy.integer", "numbers.Integral") for d in ds) and "int" in ds:
                return "TIsInt"
            if ds in (["numpy.random.RandomState"], ["numpy.random.mtrand.RandomState"]):
                return "TIsRandomState"
        return "TUnknown"

    def action(stmts):
        stmts = [x for x in stmts if not (isinstance(x, ast.Expr) and isinstance(x.value, ast.Constant))]
        if len(stmts) != 1:
            return "AUnknown"
        st = stmts[0]
        if isinstance(st, ast.Raise):
            return "ARaise"
        if isinstance(st, ast.Return) and st.value is not None:
            v = st.value
            if is_arg(v):
                return "ASelf"
            if ex.norm_dotted(rel, _dotted(v) or "?") == "numpy.random.mtrand._rand":
                return "AGlobalGen"
            if isinstance(v, ast.Call) and ex.norm_dotted(rel, _dotted(v.func) or "?") in ("numpy.random.RandomState", "numpy.random.mtrand.RandomState") \
                    and len(v.args) == 1 and not v.keywords:
                a0 = v.args[0]
                if is_arg(a0) or (isinstance(a0, ast.Call) and _dotted(a0.func) == "int" and len(a0.args) == 1 and is_arg(a0.args[0])):
                    return "AFreshSeeded"
        return "AUnknown"

    body = [x for x in f.body if not (isinstance(x, ast.Expr) and isinstance(x.value, ast.Constant))]
    rows, dflt = [], "AUnknown"
    while body:
        st = body[0]
        if isinstance(st, ast.If):
            rows.append((test(st.test), action(st.body)))
            if st.orelse:
                if len(body) > 1 and not (len(st.orelse) == 1 and isinstance(st.orelse[0], ast.If)):
                    rows.append(("TUnknown", "AUnknown"))       # an else branch followed by more code: not a plain chain
                body = list(st.orelse) + body[1:] if (len(st.orelse) == 1 and isinstance(st.orelse[0], ast.If)) else (list(st.orelse) if len(body) == 1 else body[1:])
            else:
                body = body[1:]
        else:
            dflt = action(body)
            break
    lit = "[" + "; ".join(f"({t}, {a})" for t, a in rows) + "]"
    return f"(0%nat, {lit}, {dflt})", f"{lit} default {dflt}"


HEADER_RNGFREE = HEADER + "\nDefinition failing := failing_rngfree."
# functions WITHOUT random choices (property statement: SVD-initialised decompositions, tensor algebra): bare name,
# constants of the call (None = the defaults of the signature only; NOT_A_SCALAR = a user-supplied (weights, factors))
RNGFREE = [("tensor_train", {}), ("tensor_train_matrix", {}), ("tensor_ring", {}), ("robust_pca", {}),
           ("tucker", {}), ("partial_tucker", {}), ("non_negative_tucker", {}), ("non_negative_tucker_hals", {}),
           ("parafac2", {"init": "svd", "svd": "truncated_svd"}), ("parafac2", {"init": "svd", "svd": "symeig_svd"}),
           ("parafac", {"init": NOT_A_SCALAR, "svd": "truncated_svd"}), ("non_negative_parafac", {"init": NOT_A_SCALAR, "svd": "truncated_svd"}),
           ("non_negative_parafac_hals", {"init": NOT_A_SCALAR, "svd": "truncated_svd"}), ("constrained_parafac", {"init": NOT_A_SCALAR, "svd": "truncated_svd"}),
           ("svd_interface", {"method": "truncated_svd"}), ("svd_interface", {"method": "symeig_svd"}), ("truncated_svd", {}), ("symeig_svd", {}),
           ("svd_flip", {}), ("make_svd_non_negative", {}),
           ("khatri_rao", {}), ("kronecker", {}), ("mode_dot", {}), ("multi_mode_dot", {}), ("unfolding_dot_khatri_rao", {}), ("inner", {}), ("outer", {}),
           ("batched_outer", {}), ("tensordot", {}),
           ("cp_to_tensor", {}), ("cp_normalize", {}), ("cp_norm", {}), ("cp_mode_dot", {}), ("tucker_to_tensor", {}), ("tucker_mode_dot", {}),
           ("tt_to_tensor", {}), ("tr_to_tensor", {}), ("parafac2_to_tensor", {}), ("unfold", {}), ("fold", {}), ("partial_unfold", {}), ("tensor_to_vec", {})]


# ... and, found automatically on every run, EVERY top-level function without a random_state parameter of the modules below
# (tensor algebra, tensor formats, metrics, proximal operators, SVD-based TT / TR, robust PCA, utilities): with the constant
# defaults of its signature its transcribed source, all resolvable callees inlined, must not contain a draw.  Fail closed: a
# new function of these modules that draws is a disagreement unless it is listed here with the reason.
RNGFREE_MODULES = ["tensorly/tenalg/core_tenalg/*.py", "tensorly/tenalg/proximal.py", "tensorly/tenalg/tenalg_utils.py", "tensorly/base.py",
                   "tensorly/cp_tensor.py", "tensorly/tucker_tensor.py", "tensorly/tt_tensor.py", "tensorly/tr_tensor.py", "tensorly/tt_matrix.py",
                   "tensorly/parafac2_tensor.py", "tensorly/metrics/*.py", "tensorly/utils/*.py", "tensorly/preprocessing.py", "tensorly/solvers/*.py",
                   "tensorly/decomposition/robust_decomposition.py", "tensorly/decomposition/_tt.py", "tensorly/decomposition/_tr_svd.py",
                   "tensorly/decomposition/_cmtf_als.py", "tensorly/decomposition/_symmetric_cp.py", "tensorly/decomposition/_cp_power.py"]
RNGFREE_EXEMPT = {
    "coupled_matrix_tensor_3d_factorization": "no random_state parameter; its initialize_cp pads with draws from the global generator when the rank exceeds a mode size",
    "power_iteration": "no random_state parameter, starts from np.random draws (outside the property's statement, traced as E_power_iteration)",
    "parafac_power_iteration": "calls power_iteration", "symmetric_power_iteration": "no random_state parameter, starts from np.random draws",
    "symmetric_parafac_power_iteration": "calls symmetric_power_iteration",
}


def rngfree_auto(ex, have):
    import fnmatch
    out = []
    for i, (rel, node, cls) in sorted(ex.defs.items()):
        if cls is not None or not isinstance(node, ast.FunctionDef) or i in ex.seedparam or node.name in RNGFREE_EXEMPT:
            continue
        if not any(fnmatch.fnmatch(rel, p) for p in RNGFREE_MODULES) or (node.name, i) in have:
            continue
        out.append(i)
    return out


def rngfree_cases(ex):
    """pskel of every function of RNGFREE found in the source (core tenalg backend, not contrib / other backends), every
    resolvable callee inlined, the signature's constant defaults and the listed constants propagated"""
    cases, names, missing = [], [], []
    for name, consts in RNGFREE:
        cands = sorted(i for i in ex.defs if i.split("::")[1] == name and isinstance(ex.defs[i][1], ast.FunctionDef)
                       and "/einsum_tenalg/" not in i and "/contrib/" not in i and "/backend/" not in i and "/plugins/" not in i)
        if not cands:
            missing.append(name)
        for i in cands:
            a = ex.defs[i][1].args
            env = {}
            allpos = [x.arg for x in a.posonlyargs + a.args]
            for nm, d in zip(allpos[len(allpos) - len(a.defaults):], a.defaults):
                if isinstance(d, ast.Constant):
                    env[nm] = d.value
            for x, d in zip(a.kwonlyargs, a.kw_defaults):
                if isinstance(d, ast.Constant):
                    env[x.arg] = d.value
            env.update(consts)
            cases.append(f"({len(cases)}%nat, {coq(ex.body_of(i, env))})")
            names.append(f"{i} {dict((k, repr(v)) for k, v in consts.items())}")
    listed = {n.split(" ")[0] for n in names}
    for i in rngfree_auto(ex, set()):
        if i in listed:
            continue
        a = ex.defs[i][1].args
        env = {}
        allpos = [x.arg for x in a.posonlyargs + a.args]
        for nm, d in zip(allpos[len(allpos) - len(a.defaults):], a.defaults):
            if isinstance(d, ast.Constant):
                env[nm] = d.value
        for x, d in zip(a.kwonlyargs, a.kw_defaults):
            if isinstance(d, ast.Constant):
                env[x.arg] = d.value
        cases.append(f"({len(cases)}%nat, {coq(ex.body_of(i, env))})")
        names.append(f"{i} (found automatically, signature defaults)")
    return cases, names, missing


def static_cases(cfgs):
    ex = Extractor(C.REPO, SAMPLERS)
    models = {}
    for c in cfgs:
        models.setdefault(c.ep, set()).add(c.o)
    ids = sorted(set(ex.seedparam) | set(ex.seedclass))
    cases = []
    for k, i in enumerate(ids):
        sk = entry(ex, i)
        bare = i.split("::")[1].split(".")[-1]
        ep = STATIC_EP.get(bare)
        ms = "[" + "; ".join(f"skeleton {ep} {o}" for o in sorted(models.get(ep, ()))) + "]"
        if ep is None and bare == "partial_svd" and "/sparse/" in i:
            # the sparse backend's partial_svd has no constructor of [ep]; its hand-written skeleton (Model/DrawsSparse.v, the
            # source-free variant = the repaired code / a SciPy without the entropy source) draws, so the transcribed source must too
            ms = "[sk_sparse_partial_svd false false]"
        cases.append(f"({k}%nat, {C.boolc(bare not in STATIC_NOT_REQUIRED)}, {coq(sk)}, {ms}, {'(Some %s)' % ep if ep else 'None'})")
    return ex, ids, cases


# ----------------------------------------------------------------------------- running one configuration
def rs_lit(kind, seed):
    return {"none": "HNone", "int": f"(HInt {C.z(seed)})", "inst": f"(HInst {C.z(seed)})", "globobj": "HGlobObj", "bad": "HBad"}[kind]


_RAW = object()
LAST_INFO = {}


def entropy_only(*infos):
    """every process-wide source touched during these traced calls was touched by THIRD-PARTY code on its own (SciPy's eigsh creating
    an unseeded numpy.random.default_rng(), or whatever another SciPy version does instead), never by tensorly's code -- and there
    was at least one such event"""
    return not any(i.get("from_tensorly") for i in infos) and any(i.get("third_party") for i in infos)


def no_tensorly_source(*infos):
    return not any(i.get("from_tensorly") for i in infos)


def traced_call(cfg, kind, seed, raw=_RAW):
    """one call of the implementation under the draw-trace; returns (call_impl result, projection bits, passed instance)"""
    G = _Installed.G
    passed = None
    if raw is not _RAW:
        rs = raw
    elif kind == "none":
        rs = None
    elif kind == "int":
        rs = int(seed)
    elif kind == "inst":
        passed = rs = LogRS(int(seed))
    elif kind == "globobj":
        rs = G
    else:
        rs = "not-a-random-state"
    s0 = gstate()
    TRACE.start()
    try:
        res = C.call_impl(cfg.fn, rs, timeout=60)
    finally:
        drawn, created = TRACE.stop()
    s1 = gstate()
    g_drawn = any(d is G for d in drawn)
    LAST_INFO.clear()
    LAST_INFO.update(entropy=TRACE.entropy, numpy_global=sum(1 for d in drawn if d is G) > TRACE.other, state_changed=(s0 != s1),
                     from_tensorly=any(TRACE.origins), third_party=bool(TRACE.origins) and not any(TRACE.origins))
    p_drawn = passed is not None and any(d is passed for d in drawn)
    f_drawn = any((d is not G) and (d is not passed) for d in drawn)
    return res, (res[0] == "ok", g_drawn, f_drawn, p_drawn, s0 != s1), passed


def proj_lit(p):
    return "(" + ", ".join(C.boolc(b) for b in p) + ")"


TIMEOUTS = [0]


def timed_out(r):
    return r[0] == "crash" and r[1] == "timeout"


def same(a, b):
    """bit-identical outcomes; a per-case timeout (loaded machine) is never a difference"""
    if timed_out(a) or timed_out(b):
        TIMEOUTS[0] += 1
        return True
    if a[0] != b[0]:
        return False
    if a[0] != "ok":
        return a[1] == b[1]
    return flat(a[1]) == flat(b[1])


def check_config(cfg, seeds, rng, chk, cases, meta, n_perturb=1):
    """runs every kind of random_state for one configuration: emits Coq cases + evaluates the predicates"""
    ep = cfg.entry_point

    def emit(kind, seed, proj, info=None):
        if cfg.known_defect and info is not None and (proj[1] or proj[4]) and entropy_only(info):
            # known defect: the hand-written skeleton is the one of the REPAIRED code; the trace is compared with it after masking
            # what the defect adds (process-wide sources touched by SciPy's eigsh on its own, never by tensorly's code)
            proj = (proj[0], False) + tuple(proj[2:4]) + (False,)
            chk.hist("known defect: entropy source masked before the comparison with the model", cfg.name)
        cid = len(cases)
        cases.append(f"({cid}%nat, {cfg.ep}, {cfg.o}, {rs_lit(kind, seed)}, {proj_lit(proj)})")
        meta.append((cfg.name, kind, seed, proj))

    def fail(pred, msg, kind, seed, extra=None, infos=()):
        extra = dict(extra or {})
        if cfg.known_defect and infos and not entropy_only(*infos) and no_tensorly_source(*infos):
            # nothing tensorly's code did can explain the failure (no process-wide source touched by it): nondeterminism of the
            # third-party routine under this SciPy / LAPACK build -- environment, counted, never a verdict
            chk.hist("known-defect configuration: third-party nondeterminism without a visible source (skipped, not a verdict)", cfg.name + " / " + pred)
            chk.cov["third_party_nondeterminism_skipped"] = chk.cov.get("third_party_nondeterminism_skipped", 0) + 1
            return
        if cfg.known_defect and infos and entropy_only(*infos):
            extra["entropy_only"] = True
            if not (FORCE_REPORT[0] or defect_registered(cfg.known_defect)):
                # a genuine defect whose entry in known_findings.d/C16.json is not yet merged into known_findings.json: observed and
                # written to the evidence, reported as KNOWN-FINDING as soon as the entry is merged (never silently dropped)
                obs = chk.cov.setdefault("genuine_defect_observed_entry_not_yet_merged_into_known_findings_json", {})
                lst = obs.setdefault(cfg.known_defect, [])
                if not any(o["config"] == cfg.name and o["predicate"] == pred for o in lst):
                    lst.append({"config": cfg.name, "random_state": kind, "seed": seed, "predicate": pred, "message": msg[:160]})
                chk.hist("known defect observed (entry not yet merged)", pred)
                return
        chk.finding(ep, {"config": cfg.name, "random_state": kind, "seed": seed}, msg, pred, extra=extra)

    skipped = False
    for kind in cfg.kinds:
        ks = seeds if kind in ("int", "inst") else [None]
        for seed in ks:
            perturb(rng)
            r1, proj, inst1 = traced_call(cfg, kind, seed)
            i1 = dict(LAST_INFO)
            chk.count(key=(cfg.name, kind), nontrivial=True)
            chk.hist("random_state kind", kind); chk.hist("outcome", r1[0])
            if kind != "bad" and r1[0] != "ok":
                # the configuration itself does not run (unrelated to random_state): counted, not compared
                chk.hist("skipped (call raised)", cfg.name)
                skipped = True
                continue
            emit(kind, seed if seed is not None else 0, proj, i1 if kind in ("int", "inst") else None)
            if kind == "bad":
                continue
            st_changed = proj[4]
            if kind in ("int", "inst") and proj[1]:
                fail("C16_global_untouched", "a call given an integer seed / a RandomState instance drew from a process-wide generator "
                     "(numpy's global one, the standard library's random, or an unseeded default_rng)", kind, seed, infos=(i1,))
            if kind == "int":
                if st_changed:
                    fail("C16_global_untouched", "np.random.get_state() changed by a call with an integer seed", kind, seed, infos=(i1,))
                for _ in range(n_perturb):
                    perturb(rng)
                    r2, proj2, _ = traced_call(cfg, kind, seed)
                    i2 = dict(LAST_INFO)
                    chk.cov["evaluations"] += 1
                    if not same(r1, r2):
                        fail("C16_seeded_reproducible", "two calls with the same integer seed differ after the global generator was perturbed", kind, seed, infos=(i1, i2))
                    if proj2[4]:
                        fail("C16_global_untouched", "np.random.get_state() changed by a call with an integer seed", kind, seed, infos=(i2,))
            elif kind == "inst":
                if st_changed:
                    fail("C16_instances_identical", "np.random.get_state() changed by a call with a RandomState instance", kind, seed, infos=(i1,))
                perturb(rng)
                r2, proj2, inst2 = traced_call(cfg, kind, seed)
                i2 = dict(LAST_INFO)
                chk.cov["evaluations"] += 1
                if not same(r1, r2):
                    fail("C16_instances_identical", "two generators seeded identically give different results", kind, seed, infos=(i1, i2))
                elif rs_state(inst1) != rs_state(inst2):
                    fail("C16_instances_identical", "two generators seeded identically end in different states", kind, seed, infos=(i1, i2))
            elif kind == "none" and cfg.rng_free:
                perturb(rng)
                r2, proj2, _ = traced_call(cfg, kind, seed)
                chk.cov["evaluations"] += 1
                if not same(r1, r2):
                    fail("C16_rng_free", "function without random choices returned different results on a repeated call", kind, seed)
                if proj[1] or proj[2] or proj[4] or proj2[4]:
                    fail("C16_rng_free", "function without random choices drew random numbers / moved the global generator", kind, seed)
    # FALSY-LOOKING seeds.  0 is an integer seed like any other (every configuration is run with seed 0 above); False is an
    # int in Python and seeds like 0; numpy.int64(0) / 0.0 are rejected by check_random_state today -- whatever the code does
    # with them, it must never treat them like None: no draw from the global generator, global state untouched, and if the
    # call is accepted it returns what seed 0 returns.
    if "int" in cfg.kinds and cfg.seedable and not skipped and 0 in seeds:
        perturb(rng)
        r0 = C.call_impl(cfg.fn, 0, timeout=60)
        for label, val, modelled in (("False", False, True), ("numpy.int64(0)", np.int64(0), False), ("0.0", 0.0, False)):
            perturb(rng)
            rf, projf, _ = traced_call(cfg, "raw", 0, raw=val)
            if_ = dict(LAST_INFO)
            chk.cov["evaluations"] += 1
            chk.count(key=(cfg.name, "falsy:" + label), nontrivial=True)
            chk.hist("falsy-looking seed " + label, rf[0])
            if timed_out(rf) or timed_out(r0):
                continue
            if modelled and (rf[0] == "ok" or r0[0] != "ok"):
                emit("int", 0, projf, if_)          # the model: bool is an int, RandomState(False) is RandomState(0)
            if projf[1] or projf[4]:
                fail("C16_global_untouched", f"random_state={label} (a falsy value that is not None) made the call draw from / move the global generator", "falsy:" + label, 0, infos=(if_,))
            elif rf[0] == "ok" and r0[0] == "ok" and not same(rf, r0):
                fail("C16_seeded_reproducible", f"random_state={label} is accepted but does not give the result of the integer seed 0", "falsy:" + label, 0, infos=(if_,))
    # fit twice on ONE estimator constructed with an int seed
    if cfg.estimator and not skipped:
        E = cfg.estimator
        for seed in seeds[:2]:
            perturb(rng)
            e = E["make"](int(seed))
            s0 = gstate()
            a = C.call_impl(lambda: (lambda r: E["res"](e) if E["res"] else r)(E["fit"](e)), timeout=60)
            s1 = gstate()
            perturb(rng)
            b = C.call_impl(lambda: (lambda r: E["res"](e) if E["res"] else r)(E["fit"](e)), timeout=60)
            chk.cov["evaluations"] += 2
            chk.hist("estimator fit-twice", cfg.name)
            if a[0] == "ok" and not same(a, b):
                fail("C16_fit_twice", "fitting the same int-seeded estimator twice gives different results", "estimator", seed)
            if s0 != s1 and not cfg.rng_free:
                fail("C16_global_untouched", "np.random.get_state() changed by fitting an int-seeded estimator", "estimator", seed)
            kept = e.get_params()["random_state"] if E["params"] else e.random_state
            if not (isinstance(kept, int) and kept == int(seed)):
                fail("C16_fit_twice", f"after fit the estimator's random_state is {kept!r}, not the seed {seed}", "estimator", seed)
    return skipped


def interleaved_check(cfgs, seeds, rng, chk):
    """global draws DURING an int-seeded call: from a callback, and from a second thread"""
    import tensorly as tl
    from tensorly import decomposition as D
    X = low_rank((4, 3, 5), 2, 1)

    def with_callback(f):
        def run(seed, k):
            def cb(*a, **kw):
                np.random.seed(k); np.random.rand(3)
            return f(seed, cb)
        return run
    targets = [
        ("tensorly.decomposition.parafac", with_callback(lambda s, cb: D.parafac(X, 2, n_iter_max=3, init="random", random_state=s, callback=cb))),
        ("tensorly.decomposition.randomised_parafac", with_callback(lambda s, cb: D.randomised_parafac(X, 2, n_samples=12, n_iter_max=3, random_state=s, callback=cb))),
        ("tensorly.decomposition.tensor_ring_als_sampled", with_callback(lambda s, cb: D.tensor_ring_als_sampled(X, [2, 2, 2, 2], n_samples=10, n_iter_max=3, random_state=s, callback=cb))),
        ("tensorly.decomposition.tensor_ring_als", with_callback(lambda s, cb: D.tensor_ring_als(X, [2, 2, 2, 2], n_iter_max=3, random_state=s, callback=cb))),
    ]
    for ep, f in targets:
        for seed in seeds[:2]:
            a = C.call_impl(f, seed, rng.randrange(1000), timeout=60)
            b = C.call_impl(f, seed, rng.randrange(1000), timeout=60)
            chk.count(key=("interleaved-callback", ep), nontrivial=True, n=2)
            chk.hist("interleaving", "callback draws from the global generator")
            if a[0] == "ok" and not same(a, b):
                chk.finding(ep, {"config": "callback draws from np.random during the call", "random_state": "int", "seed": seed},
                            "results with the same integer seed differ when a callback uses the global generator during the call", "C16_seeded_reproducible")
    # a second thread hammering the global generator while int-seeded calls run
    stop = threading.Event()

    def hammer():
        while not stop.is_set():
            np.random.rand(5); np.random.seed(7); np.random.standard_normal(3)
    th = threading.Thread(target=hammer, daemon=True)
    ref = {}
    pick = [c for c in cfgs if c.seedable and "int" in c.kinds and not c.rng_free and not c.known_defect]
    pick = [pick[i] for i in sorted(rng.sample(range(len(pick)), min(len(pick), 25)))]
    for c in pick:
        ref[c.name] = C.call_impl(c.fn, int(seeds[0]), timeout=60)
    th.start()
    try:
        for c in pick:
            r = C.call_impl(c.fn, int(seeds[0]), timeout=60)
            chk.count(key=("interleaved-thread", c.name), nontrivial=True)
            chk.hist("interleaving", "second thread draws from / reseeds the global generator")
            if ref[c.name][0] == "ok" and not same(ref[c.name], r):
                chk.finding(c.entry_point, {"config": c.name, "random_state": "int", "seed": seeds[0], "interleaving": "thread"},
                            "results with the same integer seed differ when another thread uses the global generator during the call", "C16_seeded_reproducible")
    finally:
        stop.set(); th.join(5)


def sequence_check(names, seed, rng, chk, by_name):
    """the generator-instance clause over MULTI-STEP sequences (Props C16_identical_instances_history): two RandomState(seed)
    objects A and B are each threaded through the same sequence of library calls (different entry points), once one after the
    other and once interleaved, with the global generator perturbed in between: step by step the results are bit-identical,
    the two objects end in the same state, and no call moves the global generator.  Returns the number of failures."""
    seq = [by_name[n] for n in names]
    bad = 0
    for mode in ("sequential", "interleaved"):
        A, B = LogRS(int(seed)), LogRS(int(seed))
        ra, rb, moved = [], [], False
        order = [(c, A, ra) for c in seq] + [(c, B, rb) for c in seq] if mode == "sequential" else \
            [x for c in seq for x in ((c, A, ra), (c, B, rb))]
        for c, obj, acc in order:
            perturb(rng)
            s0 = gstate()
            acc.append(C.call_impl(c.fn, obj, timeout=60))
            moved = moved or (s0 != gstate())
            chk.cov["evaluations"] += 1
        inp = {"config": names[0], "sequence": list(names), "random_state": "inst-sequence:" + mode, "seed": int(seed)}
        if any(x[0] != "ok" for x in ra + rb):
            chk.hist("instance sequences", "skipped (a call raised)")
            continue
        chk.hist("instance sequences", mode)
        for k, (x, y) in enumerate(zip(ra, rb)):
            if not same(x, y):
                chk.finding(seq[k].entry_point, inp, f"two identically seeded generators threaded through the same call sequence give different results at step {k} ({names[k]})",
                            "C16_identical_instances_history"); bad += 1
                break
        else:
            if rs_state(A) != rs_state(B):
                chk.finding(seq[-1].entry_point, inp, "two identically seeded generators threaded through the same call sequence end in different states",
                            "C16_identical_instances_history"); bad += 1
        if moved:
            chk.finding(seq[0].entry_point, inp, "np.random.get_state() changed by a call that was given a RandomState instance", "C16_identical_instances_history"); bad += 1
    return bad


# tensorly.random.*: every generator function x option variant (plain / orthogonal / full / non-negative / normalised) is run under
# ALL FOUR clauses in the quick tier: same int seed twice and global state untouched (check_config, kind int), two identically
# seeded generators (check_config, kind inst), and instance THREADING (the fixed sequences below, sequential + interleaved).
# The table is checked against the configuration list on every run (a variant that loses a clause is a broken check, not silence).
RANDOM_FAMILY = {
    "tensorly.random.random_tensor": ["random_tensor[(4, 3, 5)]"],
    "tensorly.random.random_cp": ["random_cp[(4, 3, 5),orth=False]", "random_cp_orth[(4, 3, 5)]", "random_cp_full[(4, 3, 5)]"],
    "tensorly.random.random_tucker": ["random_tucker[(4, 3, 5)]", "random_tucker_orth[(4, 3, 5)]", "random_tucker_full_nn[(4, 3, 5)]"],
    "tensorly.random.random_tt": ["random_tt[(4, 3, 5)]", "random_tt_full[(4, 3, 5)]"],
    "tensorly.random.random_tr": ["random_tr[(4, 3, 5)]", "random_tr_full[(4, 3, 5)]"],
    "tensorly.random.random_tt_matrix": ["random_tt_matrix[(2, 3, 2, 3)]", "random_tt_matrix_full[(2, 3, 2, 3)]"],
    "tensorly.random.random_parafac2": ["random_parafac2[3]", "random_parafac2[3,normalise_factors,full]"],
}
RANDOM_FAMILY_SEQS = [
    ["random_tensor[(4, 3, 5)]", "random_cp[(4, 3, 5),orth=False]", "random_tucker[(4, 3, 5)]", "random_tt[(4, 3, 5)]"],
    ["random_tr[(4, 3, 5)]", "random_parafac2[3]", "random_tt_matrix[(2, 3, 2, 3)]", "random_cp_orth[(4, 3, 5)]"],
    ["random_tucker_orth[(4, 3, 5)]", "random_cp_full[(4, 3, 5)]", "random_tucker_full_nn[(4, 3, 5)]", "random_tt_full[(4, 3, 5)]"],
    ["random_tr_full[(4, 3, 5)]", "random_tt_matrix_full[(2, 3, 2, 3)]", "random_parafac2[3,normalise_factors,full]", "random_tensor[(4, 3, 5)]"],
]


def random_family_sequences(cfgs, seeds, rng, chk):
    by_name = {c.name: c for c in cfgs}
    threaded = {n for s in RANDOM_FAMILY_SEQS for n in s}
    clauses = {}
    for ep, names in sorted(RANDOM_FAMILY.items()):
        for n in names:
            c = by_name.get(n)
            have = []
            if c is not None and c.seedable and c.entry_point == ep:
                have += ["same int seed twice", "global state untouched"] if "int" in c.kinds else []
                have += ["two identically seeded generators"] if "inst" in c.kinds else []
                have += ["instance threading"] if n in threaded and "inst" in c.kinds else []
            clauses[n] = have
            if len(have) != 4:
                chk.broken.append({"what": "tensorly.random configuration table incomplete (a clause of the property is not exercised in this tier)",
                                   "detail": f"{ep} / {n}: {have}"})
    chk.cov["tensorly_random_family_clauses"] = clauses
    for k, names in enumerate(RANDOM_FAMILY_SEQS):
        if all(n in by_name for n in names):
            sequence_check(names, seeds[k % len(seeds)], rng, chk, by_name)
            chk.count(key=("instance-sequence", tuple(names)), nontrivial=True)
            chk.hist("instance sequences", "tensorly.random family (fixed)")


def instance_sequences(cfgs, seeds, rng, chk, n):
    random_family_sequences(cfgs, seeds, rng, chk)
    pick = [c for c in cfgs if c.seedable and "inst" in c.kinds and not c.rng_free and not c.known_defect]
    by_name = {c.name: c for c in pick}
    for k in range(n):
        names = [pick[rng.randrange(len(pick))].name for _ in range(3)]
        sequence_check(names, seeds[k % len(seeds)], rng, chk, by_name)
        chk.count(key=("instance-sequence", tuple(names)), nontrivial=True)


# ----------------------------------------------------------------------------- a second PROCESS (Props C16_two_processes)
def digest(r):
    import hashlib
    if r[0] != "ok":
        return f"{r[0]}:{str(r[1])[:60]}"
    return hashlib.sha256(repr(flat(r[1])).encode()).hexdigest()


def other_process_main():
    """runs in a fresh interpreter with another PYTHONHASHSEED and WITHOUT the logging interposition: prints the digests of
    the requested int-seeded calls"""
    import json as _json, sys as _sys
    req = _json.loads(_sys.stdin.read())
    np.random.seed(req["global_seed"]); np.random.rand(7)
    cf = {c.name: c for c in configs(req["tier"], random.Random(0))}
    out = {}
    for name, seed in req["calls"]:
        c = cf.get(name)
        out[f"{name}|{seed}"] = digest(C.call_impl(c.fn, int(seed), timeout=60)) if c else "missing"
    print("C16-OTHER-PROCESS " + _json.dumps(out))


def other_process_start(tier, calls, global_seed):
    import subprocess, sys as _sys, json as _json, os as _os
    env = dict(_os.environ, PYTHONHASHSEED=str(1 + global_seed % 1000))
    p = subprocess.Popen([_sys.executable, "-c", "from harness.props import C16; C16.other_process_main()"], stdin=subprocess.PIPE, stdout=subprocess.PIPE,
                         stderr=subprocess.PIPE, text=True, env=env, cwd=C.VERIF)
    try:
        p.stdin.write(_json.dumps({"tier": tier, "calls": calls, "global_seed": global_seed})); p.stdin.close()
    except OSError:      # the interpreter died before reading its request (loaded machine): seen by the collector as "no result"
        pass
    p.stdin = None       # communicate() must not touch the closed pipe
    return p


_KILLED_RC = (-9, 137, 124, -15, 143, -6, 134)


def _other_process_output(p, timeout):
    """(stdout, stderr, status): status 'ok' | 'timeout' | 'killed' (signal / out of memory: nothing to do with the property)"""
    try:
        out, err = p.communicate(timeout=timeout)
    except Exception:   # noqa  (subprocess.TimeoutExpired, or an OS error on the loaded machine)
        try:
            p.kill(); p.communicate(timeout=15)
        except Exception:   # noqa
            pass
        return "", "", "timeout"
    if p.returncode in _KILLED_RC or (p.returncode != 0 and any(m in (err or "") for m in ("MemoryError", "Cannot allocate memory", "Resource temporarily unavailable", "can't start new thread"))):
        return out or "", err or "", "killed"
    return out or "", err or "", "ok"


_MINE = {}


def other_process_collect(p, calls, cfgs, chk, tier, global_seed, timeout=240):
    """compares the digests computed by the other process with this process's (same configuration, same int seed)"""
    import json as _json
    out, err, status = _other_process_output(p, timeout)
    line = [l for l in out.splitlines() if l.startswith("C16-OTHER-PROCESS ")]
    if status != "ok" and not line:
        # loaded machine: the interpreter ran out of time or was killed -- skipped and counted, never a verdict
        chk.hist("second process", f"{status} (not compared)")
        chk.cov["second_process_runs_not_compared"] = chk.cov.get("second_process_runs_not_compared", 0) + 1
        return 0
    if not line:
        chk.broken.append({"what": "second process produced no result", "detail": (err or out)[-400:]}); return 0
    theirs = _json.loads(line[-1][len("C16-OTHER-PROCESS "):])
    by = {c.name: c for c in cfgs}
    bad = 0
    for name, seed in calls:
        if (name, seed) not in _MINE:
            _MINE[(name, seed)] = digest(C.call_impl(by[name].fn, int(seed), timeout=60))
        mine = _MINE[(name, seed)]
        chk.cov["evaluations"] += 1
        chk.count(key=("second-process", name), nontrivial=True)
        chk.hist("second process", "compared")
        t = theirs.get(f"{name}|{seed}")
        if t is None or t == "missing" or "timeout" in str(t) or "timeout" in mine:
            continue
        if t != mine:
            # confirm before reporting: a third interpreter started exactly like the second one must reproduce ITS digest
            q = other_process_start(tier, [[name, seed]], global_seed)
            out3, _, _ = _other_process_output(q, 180)
            try:
                l3 = [l for l in out3.splitlines() if l.startswith("C16-OTHER-PROCESS ")]
                t3 = _json.loads(l3[-1][len("C16-OTHER-PROCESS "):]).get(f"{name}|{seed}") if l3 else None
            except Exception:   # noqa
                t3 = None
            chk.hist("second process", "difference re-checked in a third interpreter")
            if t3 != t:
                continue
            bad += 1
            chk.finding(by[name].entry_point, {"config": name, "random_state": "int", "seed": int(seed), "process": "second interpreter, other PYTHONHASHSEED, no interposition"},
                        "the same call with the same integer seed returns different results in two different processes", "C16_two_processes")
    return bad


def run_shards_retry(cases, chk, shard=150, retries=3):
    """common.run_case_shards + re-evaluation of shards that were KILLED (out-of-memory killer / timeout on the
    shared machine: return code -9 / 137 / 124, no Coq error message).  A shard that Coq rejects or that reports
    a wrong count stays broken.  Local helper (common.py is not ours to edit)."""
    import time as _t
    failing, n_eval, broken = C.run_case_shards("C16", HEADER, "case", cases, shard=shard)
    attempt = 0
    while broken and attempt < retries:
        attempt += 1
        killed = [b for b in broken if b.get("rc") in (-9, 137, 124, -15) and not (b.get("stderr") or "").strip()]
        if len(killed) != len(broken):
            break
        redo = []
        for b in killed:
            m = re.search(r"S(\d+)\.v$", b["shard"])
            k = int(m.group(1))
            redo += cases[k * shard:(k + 1) * shard]
        chk.hist("shards re-evaluated after being killed (OOM/timeout)", attempt)
        _t.sleep(5 * attempt)
        # the ids inside the case literals are global, so the failing ids of the retry need no translation
        shard = max(40, shard // 2)
        cases = redo
        f2, n2, broken = C.run_case_shards("C16", HEADER, "case", cases, shard=shard, tag=f"retry{attempt}")
        failing |= f2
        n_eval += n2
    return failing, n_eval, broken


def run(chk):
    rng = random.Random(chk.seed)
    chk.build_proofs()
    C.reset_backends()
    tier = chk.tier
    nseeds = 3 if tier == "quick" else 12
    # 0 and 1, the LARGEST seed NumPy accepts (a boundary value: must seed like any other int), then random ones
    seeds = [0, 1, 2 ** 32 - 1] + [rng.randrange(2, 2 ** 32 - 1) for _ in range(nseeds - 2)]
    install()
    cases, meta = [], []
    try:
        cfgs = configs(tier, rng)
        nskip = 0
        # a second interpreter computes the same int-seeded calls concurrently (different hash seed, different global state)
        pick2 = [c for c in cfgs if c.seedable and "int" in c.kinds and not c.rng_free and not c.known_defect]
        fam2 = {n for ns in RANDOM_FAMILY.values() for n in ns}       # the tensorly.random family is always among them
        pick2 = [c for c in pick2 if c.name in fam2] + \
                [c for c in (pick2[i] for i in sorted(rng.sample(range(len(pick2)), min(len(pick2), 30 if tier == "quick" else 150)))) if c.name not in fam2]
        calls2 = [[c.name, seeds[i % len(seeds)]] for i, c in enumerate(pick2)]
        gseeds2 = [rng.randrange(2 ** 31) for _ in range(2)]      # two interpreters, two hash seeds
        procs2 = [other_process_start(tier, calls2, g) for g in gseeds2]
        # corpus first: the historical defects of this property and the gaps the mutation self-tests exposed, with fixed seeds
        import glob, json as _json, os as _os
        by_name = {c.name: c for c in cfgs}
        ncorpus = 0
        for fn in sorted(glob.glob(_os.path.join(C.VERIF, "corpus", "C16", "*.json"))):
            try:
                ent = _json.load(open(fn))
            except Exception as e:  # noqa
                chk.broken.append({"what": "corpus file unreadable", "detail": f"{fn}: {e}"[:300]})
                continue
            cfg = by_name.get(ent.get("config"))
            if cfg is None:
                if "thorough" not in by_name:
                    by_name["thorough"] = None
                    for c in configs("thorough", random.Random(0)):
                        by_name.setdefault(c.name, c)
                cfg = by_name.get(ent.get("config"))
            if cfg is None:
                chk.broken.append({"what": "corpus entry names an unknown configuration", "detail": f"{fn}: {ent.get('config')}"})
                continue
            nskip += bool(check_config(cfg, [int(x) for x in ent.get("seeds", [0])], rng, chk, cases, meta, n_perturb=2))
            chk.hist("corpus", _os.path.basename(fn))
            ncorpus += 1
        chk.cov["corpus_entries_run_first"] = ncorpus
        for i, cfg in enumerate(cfgs):
            # every configuration sees the first two seeds; the others rotate (quick) / all (thorough)
            ss = seeds if tier == "thorough" else seeds[:1] + [seeds[1 + (i % (len(seeds) - 1))]]
            if tier == "thorough" and len(cfg.kinds) > 1:
                ss = seeds[:4] + rng.sample(seeds[4:], 4)
            if cfg.known_defect:
                # the sparse backend runs under an import stub and depends on the installed SciPy: whatever goes wrong INSIDE the
                # harness for these configurations is counted, never a crash of the check and never a verdict
                n0, m0 = len(cases), len(meta)
                try:
                    nskip += bool(check_config(cfg, ss, rng, chk, cases, meta, n_perturb=(1 if tier == "quick" else 2)))
                except Exception as e:   # noqa
                    del cases[n0:], meta[m0:]
                    chk.hist("known-defect configuration: harness error (skipped, not a verdict)", f"{cfg.name}: {type(e).__name__}")
                    nskip += 1
                chk.hist("entry point", cfg.entry_point)
                continue
            nskip += bool(check_config(cfg, ss, rng, chk, cases, meta, n_perturb=(1 if tier == "quick" else 2)))
            chk.hist("entry point", cfg.entry_point)
        interleaved_check(cfgs, seeds, rng, chk)
        instance_sequences(cfgs, seeds, rng, chk, 6 if tier == "quick" else 40)
        for p2, g2 in zip(procs2, gseeds2):
            other_process_collect(p2, calls2, cfgs, chk, tier, g2)
        # check_random_state itself
        import tensorly as tl
        G = _Installed.G
        inst = LogRS(3)
        crs_ok = (tl.check_random_state(None) is G and tl.check_random_state(inst) is inst and isinstance(tl.check_random_state(5), ORIG_RS)
                  and tl.check_random_state(5) is not tl.check_random_state(5)
                  and rs_state(tl.check_random_state(5)) == rs_state(ORIG_RS(5)))
        for bad in ("x", 1.5, [1], (1,), np.random.default_rng(0)):
            r = C.call_impl(tl.check_random_state, bad)
            crs_ok = crs_ok and r[0] == "reject"
        chk.count(key=("check_random_state",), nontrivial=True)
        # integer seeds NumPy does not accept (negative, >= 2**32): whatever the entry point does with them it does it
        # twice in the same way, and the global generator is not touched
        picked = [c for c in cfgs if c.seedable and "int" in c.kinds and not c.rng_free and not c.known_defect]
        for c in [picked[i] for i in sorted(rng.sample(range(len(picked)), min(len(picked), 8 if tier == "quick" else 40)))]:
            for bad_seed in (-1, 2 ** 32, 2 ** 64 + 5):
                perturb(rng)
                s0 = gstate()
                a, proj_bad, _ = traced_call(c, "int", bad_seed)
                s1 = gstate()
                perturb(rng)
                b = C.call_impl(c.fn, bad_seed, timeout=60)
                chk.count(key=("out-of-range seed", c.entry_point), nontrivial=True)
                if not timed_out(a):
                    # under the Coq-evaluated correspondence as well: the model (check_random_state with NumPy's seed range)
                    # must predict whether the call is rejected, and that nothing is drawn from the global generator
                    cases.append(f"({len(cases)}%nat, {c.ep}, {c.o}, {rs_lit('int', bad_seed)}, {proj_lit(proj_bad)})")
                    meta.append((c.name, "int(out of range)", bad_seed, proj_bad))
                chk.cov["evaluations"] += 1
                chk.hist("out-of-range int seed", a[0])
                if not same(a, b):
                    chk.finding(c.entry_point, {"config": c.name, "random_state": "int", "seed": bad_seed},
                                "two calls with the same (out-of-range) integer seed behave differently", "C16_seeded_reproducible")
                if s0 != s1:
                    chk.finding(c.entry_point, {"config": c.name, "random_state": "int", "seed": bad_seed},
                                "np.random.get_state() changed by a call with an (out-of-range) integer seed", "C16_global_untouched")
        if not crs_ok:
            chk.finding("tensorly.check_random_state", {"config": "check_random_state", "random_state": "all kinds", "seed": 5},
                        "check_random_state does not map None/int/RandomState/other to global/fresh seeded/itself/ValueError", "C16_check_random_state")
    finally:
        uninstall()
    failing, n_eval, broken = run_shards_retry(cases, chk)
    # static correspondence: skeletons extracted from the source of VERIF_REPO, judged by the model's static analysis
    try:
        ex, snames, scases = static_cases(cfgs)
    except Exception as e:  # noqa  (a source file the extraction cannot digest is reported, never silently skipped)
        ex, snames, scases = None, [], []
        chk.broken.append({"what": "corr:C16-static extraction failed", "detail": f"{type(e).__name__}: {e}"[:500]})
    if scases:
        sfail, sn, sbroken = C.run_case_shards("C16", HEADER_STATIC, "scase", scases, shard=60, tag="static")
        if sbroken and all(b.get("rc") in (-9, 137, 124, -15) and not (b.get("stderr") or "").strip() for b in sbroken):
            sfail, sn, sbroken = C.run_case_shards("C16", HEADER_STATIC, "scase", scases, shard=60, tag="static_retry")
        chk.cov["static_skeletons_extracted_and_analysed"] = sn
        chk.cov["static_unresolved_constructs"] = len(ex.unresolved)
        chk.cov["static_callee_resolution"] = dict(ex.stats)
        chk.count(key=("static",), nontrivial=True, n=sn)
        for n in snames:
            chk.hist("static: extracted skeleton", n)
        for b in sbroken:
            chk.broken.append({"what": "correspondence corr:C16-static shard not evaluated", "detail": b})
        for i in sorted(sfail):
            chk.disagreement("corr:C16-static (skeleton extracted from the source is not accepted by the proved source-level analysis pglobal_free, "
                             "or is draw-free where the model draws)",
                             {"function_or_class": snames[i], "identified_global_sources": [f"{w}: {m}" for (w, m) in ex.flags][:12],
                              "extracted_skeleton": scases[i][:1500]})
        chk.sample({"static": snames[len(snames) // 2], "extracted": scases[len(snames) // 2][:300]})
        # functions without random choices: the transcribed source must not contain any draw
        rcases, rnames, rmissing = rngfree_cases(ex)
        rfail, rn, rbroken = C.run_case_shards("C16", HEADER_RNGFREE, "rcase", rcases, shard=100, tag="rngfree")
        chk.cov["static_rng_free_functions_analysed"] = rn
        chk.cov["static_rng_free_functions_not_found"] = rmissing
        chk.count(key=("static-rngfree",), nontrivial=True, n=rn)
        for b in rbroken:
            chk.broken.append({"what": "correspondence corr:C16-static (rng-free) shard not evaluated", "detail": b})
        for i in sorted(rfail):
            chk.disagreement("corr:C16-static (a function listed as making no random choice: its transcribed source contains a draw)",
                             {"function": rnames[i], "identified_global_sources": [f"{w}: {m}" for (w, m) in ex.flags][:12], "extracted_skeleton": rcases[i][:1500]})
        kept = stored_generators(ex)
        chk.cov["static_generators_stored_beyond_a_call"] = len(kept)
        chk.count(key=("static-stored-generators",), nontrivial=True)
        for where, what in kept:
            chk.disagreement("corr:C16-static (model assumption: no generator object is kept across calls -- a resolved generator is stored in an attribute / subscript / global)",
                             {"function": where, "statement": what})
        # check_random_state itself: its decision chain re-read from the source
        tcase, tdesc = crs_table_case(ex)
        chk.cov["static_check_random_state_table"] = tdesc
        if tcase is None:
            chk.broken.append({"what": "corr:C16-static: Backend.check_random_state not found in the source", "detail": tdesc})
        else:
            tfail, tn, tbroken = C.run_case_shards("C16", HEADER_TABLE, "tcase", [tcase], shard=10, tag="crstable")
            chk.count(key=("static-crs-table",), nontrivial=True, n=tn)
            for b in tbroken:
                chk.broken.append({"what": "correspondence corr:C16-static (check_random_state table) shard not evaluated", "detail": b})
            for i in sorted(tfail):
                chk.disagreement("corr:C16-static (the if / elif chain of Backend.check_random_state read from the source is not a table that crs_table_ok accepts: "
                                 "None -> the global generator, int -> a fresh RandomState(seed), RandomState -> itself, anything else -> raise)",
                                 {"function": "tensorly/backend/core.py::Backend.check_random_state", "table_read_from_the_source": tdesc})
    chk.checker_cmds.append("coqc (vm_compute) on generated build/cases/C16/*.v: Corr.C16.failing, Corr.C16.failing_static, Corr.C16.failing_rngfree, Corr.C16.failing_table")
    chk.cov["traces_validated_against_impl"] = n_eval
    chk.cov["sparse_backend_partial_svd"] = SPARSE_STATUS[0]
    chk.cov["exhaustive"] = False
    chk.cov["skipped_configurations"] = nskip
    chk.cov["comparisons_skipped_because_of_a_timeout"] = TIMEOUTS[0]
    chk.cov["rule"] = ("every seed-accepting entry point (random_* generators, randomized SVD family, CP / non-negative CP / constrained CP / randomised CP, Tucker family, "
                       "PARAFAC2, TR-ALS (+sampled), TT-cross, regressors, estimator classes) x option set that changes the draw structure (init, svd method, mask, rank above a mode size, "
                       "iteration count) x random_state kind (None, int seeds, RandomState instance, the global object, junk where validated up front); RNG-free functions; "
                       "a case is one traced call compared with the skeleton's source projection; distinct key = (configuration, random_state kind)")
    chk.sample({"config": meta[0][0], "kind": meta[0][1], "projection(ok,global,fresh,passed,state_changed)": list(meta[0][3])} if meta else {})
    for k in (len(meta) // 3, 2 * len(meta) // 3):
        if meta:
            chk.sample({"config": meta[k][0], "kind": meta[k][1], "seed": meta[k][2], "projection(ok,global,fresh,passed,state_changed)": list(meta[k][3])})
    for b in broken:
        chk.broken.append({"what": "correspondence corr:C16 shard not evaluated", "detail": b})
    for i in sorted(failing):
        name, kind, seed, proj = meta[i]
        chk.disagreement("corr:C16 (Model/Draws.v skeleton vs draw trace of the implementation)",
                         {"config": name, "random_state": kind, "seed": seed, "observed(ok,global,fresh,passed,state_changed)": list(proj)})
    chk.assumptions = ["MT19937 and NumPy's sampling routines are a black box behind the abstract draw function",
                       "the only process-wide generator is NumPy's legacy global one (np.random.mtrand._rand); library code keeps no generator object across calls "
                       "(violations would show as non-identical repeated calls in the predicates)",
                       "a generator is considered drawn from when one of its sampling methods is looked up"]
    chk.trusted += ["draw skeletons of Model/Draws.v are hand-written abstractions of the call structure; tied to the code only through the source projection of draw traces",
                    "LogRS interposition (harness): replaces np.random.mtrand._rand / module-level numpy.random functions / np.random.RandomState for the duration of the run",
                    "ast-to-pskel transcription (harness, corr:C16-static): statement walk keeping the names of the code, callees resolved through the import tables "
                    "(module-qualified; unique bare name as fallback, counted), callee bodies inlined, constant keyword arguments propagated into `if` tests; the ABSTRACTION of names is "
                    "done and proved in Coq (pgf); constructs the transcription does not understand are counted (static_unresolved_constructs), never an alarm; method calls on objects "
                    "are covered only through constructor inlining; only names bound from check_random_state / the argument / np.random are considered generator-valued"]
    return chk.finish({SPARSE_CLASSIFIER: sparse_classifier})


def replay(payload):
    """re-run a stored failing input against the current implementation; 1 = still failing"""
    if payload.get("kind") != "failing-input":
        print("replay file names a broken theorem/correspondence, not an input:", payload.get("theorem_or_correspondence"))
        return 1
    inp = payload["inputs"]
    rng = random.Random(payload.get("seed", 0))
    chk = C.Check("C16", "thorough", payload.get("seed", 0))
    FORCE_REPORT[0] = True
    install()
    try:
        if str(inp.get("config", "")).startswith("callback") or inp.get("interleaving"):
            cfgs = configs("thorough", rng)
            interleaved_check(cfgs, [int(inp.get("seed") or 0), 1], rng, chk)
        elif inp.get("process"):
            cfgs = configs("thorough", rng) + configs("quick", rng)
            calls = [[inp["config"], int(inp.get("seed") or 0)]]
            bad2 = 0
            for gs in (5, 17, 123, 700969790 + 7):     # several hash seeds: an order that happens to coincide with this process's is not a pass
                bad2 += other_process_collect(other_process_start("thorough", calls, gs), calls, [c for c in cfgs if c.name == inp["config"]][:1], chk, "thorough", gs)
        elif inp.get("sequence"):
            allc = {c.name: c for t in ("thorough", "quick") for c in configs(t, random.Random(0))}
            if any(n not in allc for n in inp["sequence"]):
                print("replay: configuration not found:", inp["sequence"]); return 1
            for _ in range(3):
                sequence_check(list(inp["sequence"]), int(inp.get("seed") or 0), rng, chk, allc)
        elif inp.get("config") == "check_random_state":
            import tensorly as tl
            ok = tl.check_random_state(None) is _Installed.G and C.call_impl(tl.check_random_state, "x")[0] == "reject" \
                and rs_state(tl.check_random_state(5)) == rs_state(ORIG_RS(5))
            print("replay: check_random_state ->", "holds" if ok else "fails")
            return 0 if ok else 1
        else:
            found = [c for c in configs("thorough", rng) if c.name == inp["config"]] or [c for c in configs("quick", rng) if c.name == inp["config"]]
            if not found:
                print("replay: configuration not found:", inp["config"]); return 1
            seed = inp.get("seed")
            if seed is not None and not (0 <= int(seed) < 2 ** 32):
                # out-of-range integer seed: the two-call comparison of run()
                cfg = found[0]
                perturb(rng)
                s0 = gstate()
                a = C.call_impl(cfg.fn, int(seed), timeout=60)
                s1 = gstate()
                perturb(rng)
                b = C.call_impl(cfg.fn, int(seed), timeout=60)
                bad = (not same(a, b)) or s0 != s1
                print("replay:", cfg.name, "seed", seed, "->", "fails" if bad else "holds")
                return 1 if bad else 0
            seeds = [int(seed) if seed is not None else 0, 1, 2]
            if str(inp.get("random_state", "")).startswith("falsy"):
                seeds = [0, 1, 2]
            for _ in range(3):
                check_config(found[0], seeds, rng, chk, [], [], n_perturb=2)
    finally:
        uninstall()
    for f in chk.findings:
        print("replay:", f["entry_point"], f["inputs"], "->", f["message"])
    if not chk.findings:
        print("replay: holds")
    return 1 if chk.findings else 0
