"""C17 -- backend selection behaves as a per-thread stack over a shared default.

Correspondence: Model/Backend.v (one machine for tensorly.backend's BackendManager and tensorly.tenalg's
TenalgBackendManager) vs the real managers driven through REAL threads: every actor thread owns a command
queue, the driver issues one operation at a time in history order and after EVERY operation collects from
EVERY thread (a) get_backend() and (b) the identity of the object that executes a dynamically dispatched
call made in that thread (marker method on backend subclasses / marker attribute on the stock instances),
plus current_backend() and the dispatched attribute backend_name as further dispatch routes.  The model runs
the same history inside Coq (vm_compute) issuing its own Query / Dispatch operations; everything is compared
exactly.  Predicates (transcriptions of the theorems) are evaluated on the implementation's observations:
view, selection, isolation, restore, rejection, query/dispatch consistency."""
import itertools, os, queue, random, sys, threading, time
from harness import common as C

HEADER = """From Coq Require Import List Bool NArith Uint63. Import ListNotations.
From TLV Require Import Model.Backend Corr.C17."""

TIMEOUT = 180  # seconds a driver waits for a worker before declaring the harness stuck (HARNESS ERROR, never a verdict)


class Boom(Exception):
    """the exception raised inside a context body for an exceptional exit"""


class HarnessStuck(Exception):
    pass


# ----------------------------------------------------------------------------- managers
class Mgr:
    """everything the harness knows about one manager; built once per process"""
    _cache = {}

    def __init__(self, tenalg):
        import importlib.util
        import numpy as np
        import tensorly as tl
        self.tenalg = tenalg
        if not tenalg:
            from tensorly.backend.numpy_backend import NumpyBackend as Base
            from tensorly.tenalg.core_tenalg import CoreTenalgBackend as Other
            self.mod = tl
            self.mgr = tl.backend
            self.names = {0: "numpy", 1: "bka", 2: "bkb", 3: "pytorch", 4: "nosuch", 5: "Numpy"}
            self.stock = [0]
            self.fn = "context"
            self.args = (np.zeros(1),)
            self.harness_names = [1, 2]
            if importlib.util.find_spec("torch") is not None:
                del self.names[3]
            other_kw = "tkx"
        else:
            from tensorly.tenalg.core_tenalg import CoreTenalgBackend as Base
            from tensorly.backend.numpy_backend import NumpyBackend as Other
            self.mod = tl.tenalg
            self.mgr = tl.tenalg
            self.names = {0: "core", 1: "einsum", 2: "tka", 3: "tkb", 4: "nosuch", 5: "numpy"}
            self.stock = [0, 1]
            self.fn = "outer"
            self.args = ([np.ones(1), np.ones(1)],)
            self.harness_names = [2, 3]
            other_kw = "bkx"
        self.code = {v: k for k, v in self.names.items()}
        fn = self.fn

        def marker(self_, *a, **k):
            return ("c17", self_)
        A_ = type("A_", (Base,), {fn: marker}, backend_name=self.names[self.harness_names[0]])
        B_ = type("B_", (Base,), {fn: marker}, backend_name=self.names[self.harness_names[1]])
        X_ = type("X_", (Other,), {}, backend_name=other_kw)
        self.classes = {A_: self.harness_names[0], B_: self.harness_names[1]}
        self.pool = [A_(), B_(), A_(), B_()]                    # Obj 0..3
        self.foreign = [X_(), None]                             # Foreign 0..1
        # the harness classes become selectable by NAME as well (load_backend instantiates them)
        self.names_registered = True
        try:
            for k in self.harness_names:
                if self.names[k] not in self.mgr.available_backend_names:
                    self.mgr.available_backend_names.append(self.names[k])
        except Exception:
            self.names_registered = False
        # mark the stock instances so that a dispatched call reveals which object executed it
        self.marked = {}
        self.reset()
        for k in self.stock:
            try:
                self.mgr.set_backend(self.names[k])
                obj = self.mgr.current_backend()
                if getattr(obj, "backend_name", None) == self.names[k]:
                    obj.__dict__[fn] = (lambda o: (lambda *a, **kw: ("c17", o)))(obj)
                    self.marked[id(obj)] = (k, obj)
            except Exception:
                pass
        self.reset()

    @classmethod
    def get(cls, tenalg):
        if tenalg not in cls._cache:
            cls._cache[tenalg] = Mgr(tenalg)
        return cls._cache[tenalg]

    def unmark(self):
        for k, obj in self.marked.values():
            obj.__dict__.pop(self.fn, None)

    def reset(self):
        """process-wide default and the calling (main) thread's own selection back to the default name"""
        self.mgr.set_backend(self.names[0])

    # selectors: ("n", code) name | ("o", k) harness instance | ("f", k) foreign object
    def sel_obj(self, sel):
        kind, k = sel
        if kind == "n":
            return self.names[k]
        if kind == "o":
            return self.pool[k]
        return self.foreign[k]

    def sel_valid(self, sel):
        kind, k = sel
        if kind == "n":
            return k in self.stock or (k in self.harness_names and self.names_registered)
        return kind == "o"

    def token(self, obj):
        """identity token of a backend object: ('o',k) | ('n',code) | ('?',repr)"""
        for k, p in enumerate(self.pool):
            if obj is p:
                return ("o", k)
        if id(obj) in self.marked and self.marked[id(obj)][1] is obj:
            return ("n", self.marked[id(obj)][0])
        if type(obj) in self.classes:
            return ("n", self.classes[type(obj)])
        return ("?", repr(obj)[:60])

    def token_name(self, tok):
        """name code implied by an identity token"""
        if tok[0] == "o":
            return self.harness_names[tok[1] % 2]
        if tok[0] == "n":
            return tok[1]
        return None

    def observe(self):
        """executed INSIDE the observed thread: (name code, dispatch token | None, problems)"""
        m = self.mgr
        q = m.get_backend()
        qc = self.code.get(q, 99)
        r = getattr(self.mod, self.fn)(*self.args)          # the dynamically dispatched function
        if isinstance(r, tuple) and len(r) == 2 and r[0] == "c17":
            d = self.token(r[1])
        else:
            d = None                                         # executed by an unmarked (stock class) object
        routes = []
        r2 = getattr(m, self.fn)(*self.args)                # same function through the manager module
        d2 = self.token(r2[1]) if isinstance(r2, tuple) and len(r2) == 2 and r2[0] == "c17" else None
        if d2 != d:
            routes.append(("manager." + self.fn, d2))
        cb = m.current_backend()
        d3 = self.token(cb)
        if d is not None and d3 != d:
            routes.append(("current_backend()", d3))
        if d is None and (d3[0] != "?" or getattr(cb, "backend_name", None) != q):
            routes.append(("current_backend()", d3))
        if not self.tenalg:
            a1 = self.mod.backend_name                      # dispatched attribute, via tensorly.__getattr__
            a2 = m.backend_name
            if a1 != q or a2 != q:
                routes.append(("backend_name attribute", (a1, a2)))
        return (qc, d, routes)


# ----------------------------------------------------------------------------- threads
class Worker:
    def __init__(self, M, tid):
        self.M, self.tid = M, tid
        self.q = queue.SimpleQueue()
        self.r = queue.SimpleQueue()
        self.thread = None

    def start(self):
        self.thread = threading.Thread(target=self.main, daemon=True)
        self.thread.start()

    def main(self):
        try:
            self.body(0)
        except BaseException as e:  # noqa
            self.r.put(("harness-error", repr(e)))

    def call(self, cmd):
        self.q.put(cmd)
        try:
            return self.r.get(timeout=TIMEOUT)
        except queue.Empty:
            raise HarnessStuck(f"thread {self.tid} did not answer {cmd!r}")

    def obs(self):
        try:
            return self.M.observe()
        except Exception as e:  # noqa
            return (98, ("?", "observe raised " + repr(e)[:80]), [])

    def reply(self, res):
        """outcome of an operation + what THIS thread observes right after it (saves one hand-over per step)"""
        self.r.put((res, self.obs()))

    def body(self, depth):
        """serve commands at context depth `depth`; returns 'normal' (leave the innermost context normally)
        or 'stop'; raises Boom for an exceptional exit"""
        M = self.M
        mgr = M.mgr
        while True:
            cmd = self.q.get()
            k = cmd[0]
            if k == "obs":
                self.r.put(self.obs())
            elif k == "set":
                try:
                    mgr.set_backend(M.sel_obj(cmd[1]), local_threadsafe=cmd[2])
                    self.reply("done")
                except Exception as e:  # noqa
                    self.reply("rejected")
            elif k == "enter":
                entered, how = False, "swallowed"
                try:
                    with mgr.backend_context(M.sel_obj(cmd[1]), local_threadsafe=cmd[2]):
                        entered = True
                        self.reply("done")
                        how = self.body(depth + 1)
                    if how in ("stop", "quit"):
                        return how
                    self.reply("done" if how == "normal" else "exitfailed")
                except Boom:
                    self.reply("done" if entered else "exitfailed")
                except Exception as e:  # noqa
                    self.reply("exitfailed" if entered else "rejected")
            elif k == "exit":
                if depth == 0:
                    self.reply("noctx")
                elif cmd[1]:
                    raise Boom()
                else:
                    return "normal"
            elif k in ("stop", "quit"):
                return k


def drive(M, history, main_worker, nthreads):
    """run one history; thread 0 is the main thread.  If main_worker is None the main thread is the caller
    itself (passive observer, holds the import-time selection); otherwise it is an actor served by
    main_worker (the caller is then a helper thread).  Returns (obs0, [(outcome, obs)...])."""
    workers = {}
    for t in range(1, nthreads):
        w = Worker(M, t)
        w.start()
        workers[t] = w
    if main_worker is not None:
        workers[0] = main_worker

    def observe_all(actor=None, own=None):
        out = []
        for t in range(nthreads):
            if t == actor:
                out.append(own)
            elif t == 0 and main_worker is None:
                out.append(M.observe())
            else:
                out.append(workers[t].call(("obs",)))
        return out
    try:
        obs0 = observe_all()
        steps = []
        for op in history:
            kind, t = op[0], op[1]
            if kind == "set":
                res = workers[t].call(("set", op[2], op[3]))
            elif kind == "enter":
                res = workers[t].call(("enter", op[2], op[3]))
            else:
                res = workers[t].call(("exit", op[2]))
            if isinstance(res, tuple) and res and res[0] == "harness-error":
                raise HarnessStuck(str(res))
            res, own = res
            steps.append((res, observe_all(t, own)))
        return obs0, steps
    finally:
        for t, w in workers.items():
            if t == 0:
                continue
            w.q.put(("stop",))
        for t, w in workers.items():
            if t != 0 and w.thread is not None:
                w.thread.join(timeout=TIMEOUT)


def run_histories(tenalg, main_actor, nthreads, histories):
    """executed in a pool process: returns [(obs0, steps)] for every history"""
    M = Mgr.get(tenalg)
    out = []
    if not main_actor:
        for h in histories:
            M.reset()
            out.append(drive(M, h, None, nthreads))
        M.reset()
        return out
    # the main thread becomes an actor: it serves a command queue while a helper thread drives
    mw = Worker(M, 0)
    err = []

    def helper():
        try:
            for h in histories:
                # unwind / reset happen in the main thread through its queue
                mw.call(("set", ("n", 0), False))     # reply (outcome, observation) not needed here
                out.append(drive(M, h, mw, nthreads))
                mw.q.put(("stop",))          # leaves every context the main thread still has open
        except BaseException as e:  # noqa
            err.append(e)
        finally:
            mw.q.put(("quit",))
    th = threading.Thread(target=helper, daemon=True)
    th.start()
    while mw.body(0) != "quit":         # body returns at 'stop' (contexts unwound) and at 'quit'
        pass
    th.join(timeout=TIMEOUT)
    M.reset()
    if err:
        raise err[0]
    return out


def _pool_job(job):
    tenalg, main_actor, nthreads, histories = job
    return run_histories(tenalg, main_actor, nthreads, histories)


# ----------------------------------------------------------------------------- histories
SEL_EXH = [("n", 1), ("o", 1), ("n", 4)]      # a known name, an instance, an unknown name


def alphabet(threads, sels):
    al = []
    for t in threads:
        for s in sels:
            for l in (False, True):
                al.append(("set", t, s, l))
                al.append(("enter", t, s, l))
        al.append(("exit", t, False))
        al.append(("exit", t, True))
    return al


def feasible(M, h):
    """an Exit needs an open context of its thread (contexts open only for valid selections)"""
    depth = {}
    for op in h:
        if op[0] == "enter" and M.sel_valid(op[2]):
            depth[op[1]] = depth.get(op[1], 0) + 1
        elif op[0] == "exit":
            if depth.get(op[1], 0) == 0:
                return False
            depth[op[1]] -= 1
    return True


def exhaustive(M, threads, sels, n):
    al = alphabet(threads, sels)
    return [h for h in itertools.product(al, repeat=n) if feasible(M, h)]


def random_history(M, rng, threads, maxlen):
    n = rng.randint(1, maxlen)
    depth = {t: 0 for t in threads}
    names = list(M.names)
    if not M.names_registered:
        names = [k for k in names if k not in M.harness_names]
    h = []
    p_exit = rng.choice([0.2, 0.35, 0.5])
    p_bad = rng.choice([0.1, 0.25])
    p_local = rng.choice([0.3, 0.5, 0.8])
    for _ in range(n):
        t = rng.choice(threads)
        if depth[t] and rng.random() < p_exit:
            h.append(("exit", t, rng.random() < 0.4))
            depth[t] -= 1
            continue
        r = rng.random()
        if r < p_bad:
            bad = [("n", k) for k in names if not M.sel_valid(("n", k))] + [("f", 0), ("f", 1)]
            s = rng.choice(bad)
        elif r < p_bad + (1 - p_bad) * 0.45:
            s = ("n", rng.choice([k for k in names if M.sel_valid(("n", k))]))
        else:
            s = ("o", rng.randrange(len(M.pool)))
        l = rng.random() < p_local
        if rng.random() < 0.5:
            h.append(("set", t, s, l))
        else:
            h.append(("enter", t, s, l))
            if M.sel_valid(s):
                depth[t] += 1
    return tuple(h)


# ----------------------------------------------------------------------------- Gallina literals
def sel_lit(s):
    kind, k = s
    return f"(sn {k})" if kind == "n" else (f"(so {k})" if kind == "o" else f"(sf {k})")


def op_lit(op):
    if op[0] == "set":
        return f"Set_ {op[1]} {sel_lit(op[2])} {C.boolc(op[3])}"
    if op[0] == "enter":
        return f"Enter {op[1]} {sel_lit(op[2])} {C.boolc(op[3])}"
    return f"Exit_ {op[1]} {C.boolc(op[2])}"


OUTCOME = {"done": 0, "rejected": 1, "exitfailed": 2, "noctx": 3}
SELKIND = {"n": 0, "o": 1, "f": 2}


def seen_digits(obs):
    ds = []
    for o in obs:
        q, d = o[0], o[1]
        ds.append(q if 0 <= q < 63 else 63)
        if d is None:
            ds.append(0)
        elif d[0] == "n" and d[1] < 6:
            ds.append(2 + d[1])
        elif d[0] == "o" and d[1] < 50:
            ds.append(8 + d[1])
        else:
            ds.append(1)          # an object the harness cannot identify never agrees with the model
    return ds


def encode(tenalg, main_own, nthreads, history, result):
    """the digit stream decoded by Corr/C17.v `decode` (base-64 digits)"""
    obs0, steps = result
    ds = [int(tenalg), nthreads, int(main_own)] + seen_digits(obs0) + [len(steps)]
    for op, (res, obs) in zip(history, steps):
        if op[0] == "exit":
            ds += [2, op[1], int(op[2]), 0, 0]
        else:
            ds += [0 if op[0] == "set" else 1, op[1], SELKIND[op[2][0]], op[2][1], int(op[3])]
        ds.append(OUTCOME.get(res, 3))
        ds += seen_digits(obs)
    assert all(0 <= d < 64 for d in ds), ds
    return ds


def pack(ds):
    """transport format of Corr/C17.v: primitive 63-bit integers, the first is the number of digits, every
    further one carries 10 digits, least significant first"""
    ints = [len(ds)]
    for k in range(0, len(ds), 10):
        v = 0
        for d in reversed(ds[k:k + 10]):
            v = v * 64 + d
        ints.append(v)
    return "[" + "; ".join(f"{v}%uint63" for v in ints) + "]"


def case_lit(cid, tenalg, main_own, nthreads, history, result, corrupt=False):
    ds = encode(tenalg, main_own, nthreads, history, result)
    if corrupt:
        ds[-1] = (ds[-1] + 1) % 64        # the executing object seen last by the last thread becomes another one
    return f"({cid}%N, {pack(ds)})"


# ----------------------------------------------------------------------------- property predicates
def predicates(M, nthreads, history, result):
    """Transcriptions of the C17 theorems, evaluated on the implementation's observations only.
    Returns a list of (predicate name, step index, message)."""
    obs0, steps = result
    fails = []

    def same(a, b):   # observations of one thread: (name code, dispatch token)
        return a[0] == b[0] and a[1] == b[1]

    def consistent(i, obs):
        for t, o in enumerate(obs):
            if o[2]:
                fails.append(("C17_observe", i, f"thread {t}: dispatch routes disagree with the dispatched function: {o[2]} (get_backend code {o[0]}, executing object {o[1]})"))
            nm = M.token_name(o[1]) if o[1] is not None else None
            if o[1] is None and o[0] not in M.stock:
                fails.append(("C17_observe", i, f"thread {t}: get_backend() says {M.names.get(o[0], o[0])!r} but the dispatched call ran on a stock-class object"))
            elif o[1] is not None and nm != o[0]:
                fails.append(("C17_observe", i, f"thread {t}: get_backend() says {M.names.get(o[0], o[0])!r} but the dispatched call ran on {o[1]}"))
    consistent(-1, obs0)
    prev = obs0
    # spec state (theorem C17_view): own[t] = value of t's last effective selection, default = last non-local one
    own = {t: None for t in range(nthreads)}
    own[0] = ("n", 0)          # the importing thread selected the default name at import time
    default = ("n", 0)
    stack = {t: [] for t in range(nthreads)}      # (observation of t before the enter, local flag)

    def tok_of_sel(s):
        return ("n", s[1]) if s[0] == "n" else ("o", s[1])

    def matches(o, tok):
        """observation o shows backend `tok`"""
        if o[0] != M.token_name(tok):
            return False
        return o[1] == tok or (o[1] is None and tok[0] == "n" and tok[1] in M.stock)
    for i, (op, (res, obs)) in enumerate(zip(history, steps)):
        consistent(i, obs)
        t = op[1]
        others = [u for u in range(nthreads) if u != t]
        if op[0] in ("set", "enter"):
            valid = M.sel_valid(op[2])
            if res == "rejected":
                # C17_rejection: the whole (observable) state is unchanged
                for u in range(nthreads):
                    if not same(obs[u], prev[u]):
                        fails.append(("C17_rejection", i, f"rejected {op[0]} by thread {t} changed what thread {u} observes: {prev[u][:2]} -> {obs[u][:2]}"))
                if valid:
                    fails.append(("C17_selected_is_current", i, f"valid selection {op[2]} was rejected"))
            elif res == "done":
                if not valid:
                    fails.append(("C17_rejection", i, f"selection {op[2]} that is neither an available name nor an instance of the manager's backend class was accepted"))
                else:
                    tok = tok_of_sel(op[2])
                    if not matches(obs[t], tok):
                        fails.append(("C17_selected_is_current", i, f"thread {t} selected {tok} but observes {obs[t][:2]}"))
                    if op[0] == "enter":
                        stack[t].append((prev[t], op[3], own[t], default))
                    own[t] = tok
                    if op[3]:
                        for u in others:      # C17_isolation_step
                            if not same(obs[u], prev[u]):
                                fails.append(("C17_isolation_step", i, f"thread-local {op[0]} by thread {t} changed what thread {u} observes: {prev[u][:2]} -> {obs[u][:2]}"))
                    else:
                        default = tok
            else:
                fails.append(("C17_rejection", i, f"{op[0]} ended abnormally: {res}"))
        else:
            if res == "noctx" or not stack[t]:
                prev = obs
                continue          # not an operation of the implementation (generator never issues it)
            before, local, own_before, _ = stack[t].pop()
            if res != "done":
                fails.append(("C17_exit_succeeds", i, f"leaving the context of thread {t} ({'exception' if op[2] else 'normal'}) ended abnormally: {res}"))
            if not same(obs[t], before):      # C17_restore
                fails.append(("C17_restore", i, f"thread {t} observed {before[:2]} before entering and {obs[t][:2]} after leaving the context ({'exception' if op[2] else 'normal'} exit)"))
            # the restore is an effective selection of the saved backend with the context's flag
            saved_tok = before[1] if before[1] is not None else ("n", before[0])
            own[t] = saved_tok
            if local:
                for u in others:              # C17_isolation_step (exit of a thread-local context)
                    if not same(obs[u], prev[u]):
                        fails.append(("C17_isolation_step", i, f"leaving a thread-local context in thread {t} changed what thread {u} observes: {prev[u][:2]} -> {obs[u][:2]}"))
            else:
                default = saved_tok
        # C17_view: own selection else the shared default, for EVERY thread
        for u in range(nthreads):
            exp = own[u] if own[u] is not None else default
            if not matches(obs[u], exp):
                fails.append(("C17_view", i, f"thread {u} should observe {exp} ({'its own last selection' if own[u] is not None else 'the shared default'}) but observes {obs[u][:2]}"))
        prev = obs
    return fails


# ----------------------------------------------------------------------------- run
def make_jobs(tier, rng):
    """returns list of (tenalg, main_actor, nthreads, [histories]) groups"""
    groups = []
    for tenalg in (False, True):
        M = Mgr.get(tenalg)
        sels = SEL_EXH if M.names_registered else [("o", 0), ("o", 1), ("n", 4)]
        n = 3 if tier == "quick" else 4
        # workers 1 and 2 act, the main thread (holding the import-time selection) observes
        groups.append((tenalg, False, 3, exhaustive(M, [1, 2], sels, n), f"exhaustive-{n}"))
        # the main thread acts as well: all histories of length 2 over main + one worker
        groups.append((tenalg, True, 2, exhaustive(M, [0, 1], sels, 2 if tier == "quick" else 3), "exhaustive-main"))
        nr = 1500 if tier == "quick" else 15000
        ml = 12 if tier == "quick" else 40
        groups.append((tenalg, True, 3, [random_history(M, rng, [0, 1, 2], ml) for _ in range(nr)], "random-3-main"))
        groups.append((tenalg, False, 4, [random_history(M, rng, [1, 2, 3], ml) for _ in range(nr // 3)], "random-3-workers"))
    return groups


def corpus_histories():
    import json
    d = os.path.join(C.VERIF, "corpus", "C17")
    out = []
    if os.path.isdir(d):
        for fn in sorted(os.listdir(d)):
            if fn.endswith(".json"):
                e = json.load(open(os.path.join(d, fn)))
                out.append((bool(e["tenalg"]), bool(e["main_actor"]), int(e["nthreads"]), hist_from_json(e["history"])))
    return out


def hist_to_json(h):
    return [list(op[:2]) + ([list(op[2]), op[3]] if op[0] != "exit" else [op[2]]) for op in h]


def hist_from_json(j):
    return tuple((o[0], o[1], tuple(o[2]), bool(o[3])) if o[0] != "exit" else (o[0], o[1], bool(o[2])) for o in j)


def execute(groups, nproc):
    """run all groups in a fork pool (every process has its own main thread and managers)"""
    import multiprocessing as mp
    jobs, index = [], []
    for gi, g in enumerate(groups):
        hs = g[3]
        step = max(50, min(600, (len(hs) + nproc - 1) // nproc))
        for k in range(0, len(hs), step):
            jobs.append((g[0], g[1], g[2], hs[k:k + step]))
            index.append((gi, k))
    results = [[None] * len(g[3]) for g in groups]
    if nproc <= 1:
        outs = [_pool_job(j) for j in jobs]
    else:
        ctx = mp.get_context("fork")
        with ctx.Pool(nproc) as pool:
            outs = pool.map(_pool_job, jobs, chunksize=1)
    for (gi, k), out in zip(index, outs):
        results[gi][k:k + len(out)] = out
    return results


def run(chk):
    rng = random.Random(chk.seed)
    chk.build_proofs()
    C.reset_backends()
    t0 = time.time()
    groups = make_jobs(chk.tier, rng)
    for (tenalg, main_actor, nthreads, h) in corpus_histories():
        groups.insert(0, (tenalg, main_actor, nthreads, [h], "corpus"))
    nproc = max(1, min(8, C.NPROC // 2))
    results = execute(groups, nproc)
    t_impl = time.time() - t0
    cases, meta = [], []
    for g, res in zip(groups, results):
        tenalg, main_actor, nthreads, hs, tag = g
        M = Mgr.get(tenalg)
        for h, r in zip(hs, res):
            cid = len(cases)
            cases.append(case_lit(cid, tenalg, True, nthreads, h, r))
            meta.append((tenalg, main_actor, nthreads, h, tag, r))
            nontrivial = len({op[1] for op in h}) > 1 and any(op[0] == "enter" for op in h)
            chk.count(key=(tenalg, main_actor, h), nontrivial=nontrivial)
            chk.hist("group", ("tenalg:" if tenalg else "backend:") + tag)
            chk.hist("length", len(h))
            for op, (out, _) in zip(h, r[1]):
                chk.hist("operation", f"{op[0]}{'/local' if op[0] != 'exit' and op[3] else ''}{'/exception' if op[0] == 'exit' and op[2] else ''}:{out}")
            if cid % 4001 == 17:
                chk.sample({"manager": "tensorly.tenalg" if tenalg else "tensorly.backend", "threads": nthreads,
                            "main_thread_acts": main_actor, "history": [op_lit(o) for o in h],
                            "observed_after_each_step": [[(M.names.get(o[0], o[0]), o[1]) for o in obs] for _, obs in r[1]]})
            for (pred, i, msg) in predicates(M, nthreads, h, r):
                chk.finding("tensorly.tenalg.set_backend/backend_context" if tenalg else "tensorly.set_backend/backend_context",
                            {"tenalg": tenalg, "main_actor": main_actor, "nthreads": nthreads, "history": hist_to_json(h[:i + 1])},
                            f"step {i} ({op_lit(h[i]) if i >= 0 else 'start'}): {msg}", pred)
                break
    for tenalg in (False, True):
        Mgr.get(tenalg).reset()
        Mgr.get(tenalg).unmark()
    # sentinels: copies of real cases with ONE observation altered must be reported as failing
    sentinels = {}
    for k in (0, len(meta) // 2, len(meta) - 1):
        tenalg, main_actor, nthreads, h, tag, r = meta[k]
        sentinels[len(cases)] = k
        cases.append(case_lit(len(cases), tenalg, True, nthreads, h, r, corrupt=True))
    t1 = time.time()
    failing, n_eval, broken = C.run_case_shards("C17", HEADER, "case", cases, shard=2500, timeout=900)
    # a shard killed by the shell timeout (overloaded machine) is "not evaluated", never an alarm: its cases are
    # counted as skipped; the sentinels sit in the LAST shard, so a run in which that one is lost reports it
    timed_out = [b for b in broken if b.get("rc") == 124]
    broken = [b for b in broken if b.get("rc") != 124]
    chk.cov["model_seconds"] = round(time.time() - t1, 1)
    chk.cov["shards_skipped_by_timeout"] = len(timed_out)
    for sid in sentinels:
        if sid not in failing and not broken and not timed_out:
            chk.broken.append({"what": "correspondence corr:C17 comparator did not flag an altered observation (sentinel)", "detail": cases[sid][:200]})
        failing.discard(sid)
    n_eval -= len(sentinels) if not (broken or timed_out) else 0
    chk.checker_cmds.append("coqc (vm_compute) on generated build/cases/C17/*.v: Corr.C17.failing")
    chk.cov["traces_validated_against_impl"] = n_eval
    chk.cov["exhaustive"] = True
    chk.cov["impl_seconds"] = round(t_impl, 1)
    chk.cov["rule"] = ("for BOTH managers: every feasible history of length 3 (thorough: 4; all shorter ones are their prefixes and are observed on the way) over the "
                       "28-letter alphabet {set, enter} x {known name, instance, unknown name} x {global, local} + exit {normal, exception} of two worker threads "
                       "with the main thread observing; every history of length 2 (thorough: 3) over the main thread and one worker; random histories to length 12 "
                       "(thorough: 40) over three actor threads with and without the main thread among them, selectors: all names (stock, harness-registered, "
                       "listed-but-not-importable, unknown, wrong case), four instances of two harness backend classes, two non-instances. After EVERY operation "
                       "EVERY thread reports get_backend() and the identity of the object executing a dispatched call. "
                       "Non-trivial = at least two threads act and a context is entered; distinct key = (manager, main-thread role, history)")
    for b in broken:
        chk.broken.append({"what": "correspondence corr:C17 shard not evaluated", "detail": b})
    for i in sorted(failing):
        tenalg, main_actor, nthreads, h, tag, _ = meta[i]
        chk.disagreement("corr:C17 (Model/Backend.v vs tensorly.backend / tensorly.tenalg managers)",
                         {"tenalg": tenalg, "main_actor": main_actor, "nthreads": nthreads, "history": hist_to_json(h)})
    chk.assumptions = ["operations are atomic: the driver issues one operation at a time and waits for it (the property quantifies over interleavings of whole operations)",
                       "the instance load_backend creates for a name is identified with the name (the identity of cached instances is not part of the property)",
                       "CPython threads; threading.local storage of a fresh thread is empty"]
    chk.trusted = ["marker methods/attributes on harness backend subclasses and on the stock instances reveal the executing object of a dispatched call",
                   "the harness appends its two backend names to the manager's available_backend_names so that they can be selected by name"]
    return chk.finish()


def replay(payload):
    if payload.get("kind") != "failing-input":
        print("replay file names a broken theorem/correspondence, not an input:", payload.get("theorem_or_correspondence"))
        return 1
    inp = payload["inputs"]
    tenalg, main_actor, nthreads = bool(inp["tenalg"]), bool(inp["main_actor"]), int(inp["nthreads"])
    h = hist_from_json(inp["history"])
    M = Mgr.get(tenalg)
    r = run_histories(tenalg, main_actor, nthreads, [h])[0]
    M.unmark()
    fails = predicates(M, nthreads, h, r)
    for f in fails[:5]:
        print("replay:", f)
    if not fails:
        print("replay: all C17 predicates hold on", [op_lit(o) for o in h])
    return 1 if fails else 0
