"""C17 -- backend selection behaves as a per-thread stack over a shared default.

Correspondence: Model/Backend.v (ONE machine, instantiated twice side by side: tensorly.backend's BackendManager and
tensorly.tenalg's TenalgBackendManager) vs the real managers driven through REAL threads: every actor thread owns a
command queue, the driver issues one operation at a time in history order and after EVERY operation collects from
EVERY thread (a) get_backend() and (b) the identity of the object that executes a dynamically dispatched call made
in that thread (marker method on backend subclasses / marker attribute on the stock instances), plus
current_backend() and the dispatched attribute backend_name as further dispatch routes.  In the mixed groups the
operations of one history go to BOTH managers and every thread reports what it sees through both.  The model runs
the same history inside Coq (vm_compute) issuing its own Query / Dispatch operations; everything is compared
exactly.  Predicates (transcriptions of the theorems) are evaluated on the implementation's observations: view,
selection, isolation, restore, rejection, query/dispatch consistency, independence of the two managers.

History format: ("set"|"enter", thread, manager, selector, local_threadsafe) | ("exit", thread, manager, exceptional)
manager 0 = tensorly.backend, 1 = tensorly.tenalg; selector ("n", name code) | ("o", k) | ("f", k).
A group is run in a mode: 0 / 1 = only that manager is driven and observed, 2 = both, 3 / 4 = concurrent calls under
settrace schedules, 7 = both managers with contexts driven through the context-manager protocol (a context of one manager
may be left while a later context of the other is still live), 8 / 9 = histories over the DISPATCH alphabet of
Model/BackendDispatch.v on tensorly.backend / tensorly.tenalg (every route to a dispatched name, references captured
before a switch and called by other threads, threads started inside contexts, use_static_dispatch / use_dynamic_dispatch)."""
import itertools, os, queue, random, sys, threading, time
from harness import common as C

HEADER = """From Coq Require Import List Bool NArith Uint63. Import ListNotations.
From TLV Require Import Model.Backend Corr.C17.
Open Scope N_scope."""

TIMEOUT = 180  # seconds a driver waits for a worker before declaring the harness stuck (HARNESS ERROR, never a verdict)


CHECK_DNAME = [True]     # switched off while calls run concurrently below operation level (the two shared writes of set_backend interleave)


class Boom(Exception):
    """the exception raised inside a context body for an exceptional exit"""


class HarnessStuck(Exception):
    pass


# ----------------------------------------------------------------------------- managers
_ACCESS = threading.local()


class Mgr:
    """everything the harness knows about one manager; built once per process"""
    _cache = {}

    def __init__(self, tenalg):
        import importlib.util
        import numpy as np
        import tensorly as tl
        self.tenalg = tenalg
        if not tenalg:
            from tensorly.backend.numpy_backend import NumpyBackend as Base
            from tensorly.tenalg.core_tenalg import CoreTenalgBackend as Other
            self.mod = tl
            self.mgr = tl.backend
            self.names = {0: "numpy", 1: "bka", 2: "bkb", 3: "pytorch", 4: "nosuch", 5: "Numpy"}
            self.stock = [0]
            self.fn = "context"
            self.args = (np.zeros(1),)
            self.harness_names = [1, 2]
            if importlib.util.find_spec("torch") is not None:
                del self.names[3]
            other_kw = "tkx"
        else:
            from tensorly.tenalg.core_tenalg import CoreTenalgBackend as Base
            from tensorly.backend.numpy_backend import NumpyBackend as Other
            self.mod = tl.tenalg
            self.mgr = tl.tenalg
            self.names = {0: "core", 1: "einsum", 2: "tka", 3: "tkb", 4: "nosuch", 5: "numpy"}
            self.stock = [0, 1]
            self.fn = "outer"
            self.args = ([np.ones(1), np.ones(1)],)
            self.harness_names = [2, 3]
            other_kw = "bkx"
        self.code = {v: k for k, v in self.names.items()}
        fn = self.fn
        # dispatch routes (Model/BackendDispatch.v): names 0.. of the manager, the class, where the route "top" looks
        if not tenalg:
            self.dnames = ["context", "trace", "complex64", "int64"]       # function bound in tensorly/__init__, function via
            self.dfuns, self.dattrs = [0, 1], [2, 3]                        # __getattr__, attribute via __getattr__, attribute bound
            self.top_obj = tl
        else:
            import tensorly.decomposition._cp_power as lib                  # `from tensorly.tenalg import outer` at import
            self.dnames = ["outer", "inner"]
            self.dfuns, self.dattrs = [0, 1], []
            self.top_obj = lib
        self.cls = type(self.mgr)
        self.nmodelled = len(self.dnames)
        self.dnames = self.dnames + ["c17_new"]      # in neither _functions nor _attributes: registered below, never dispatched
        if not tenalg:
            import tensorly.base as libmod           # `from . import backend as tl`
            self.lib_alias = lambda: libmod.tl
            self.reg_name, self.reg_args = "digamma", (1.0,)
        else:
            self.lib_alias = lambda: getattr(tl, "tenalg")
            self.reg_name, self.reg_args = "higher_order_moment", (np.zeros((2, 2)), 2)

        def chain():
            # executed INSIDE a tensor-algebra function: the backend function its body calls must be served by the calling
            # thread's computational backend (C17_tenalg_call_runs_on_both_views)
            if tenalg:
                try:
                    _ACCESS.chain = ("ok", tl.context(np.zeros(1)))
                except Exception as e:  # noqa
                    _ACCESS.chain = ("raised", repr(e)[:60])

        def marker(self_, *a, **k):
            chain()
            return ("c17", self_)

        def logged_getattribute(self_, name):
            # which object does a dispatched function / attribute fetch its implementation from?
            log = _ACCESS.__dict__.get("log")
            if log is not None:
                log.append((self_, name))
            return object.__getattribute__(self_, name)
        body = {fn: marker, "__getattribute__": logged_getattribute}
        for k in self.dfuns:
            body[self.dnames[k]] = marker
        for k in self.dattrs:
            body[self.dnames[k]] = property(lambda self_: ("c17", self_))
        A_ = type("A_", (Base,), dict(body), backend_name=self.names[self.harness_names[0]])
        B_ = type("B_", (Base,), dict(body), backend_name=self.names[self.harness_names[1]])
        X_ = type("X_", (Other,), {}, backend_name=other_kw)

        def nothing(self_):
            raise AttributeError(f"{type(self_).__name__} provides no {self.reg_name}")
        self.names[6] = "bkc" if not tenalg else "tkc"
        self.code = {v: k for k, v in self.names.items()}
        C_ = type("C_", (Base,), {self.reg_name: property(nothing)}, backend_name=self.names[6])
        self.reg_obj = C_()                                     # Obj 4: its class provides nothing under reg_name
        # Obj 5: an instance of a subclass of the FIRST harness class (two levels below the stock class): register model, class 7
        self.names[7] = "bkd" if not tenalg else "tkd"
        self.code = {v: k for k, v in self.names.items()}
        D_ = type("D_", (A_,), {}, backend_name=self.names[7])
        self.deep_obj = D_()
        # Obj 20: an instance of the bare backend class (Backend() / TenalgBackend()): passes the isinstance test of
        # set_backend but has no backend_name (Model/BackendAbort.v `nl20`); used by the abort groups only
        try:
            if not tenalg:
                from tensorly.backend.core import Backend as Bare
            else:
                from tensorly.tenalg.base_tenalg import TenalgBackend as Bare
            self.nameless = Bare()
        except Exception:  # noqa
            self.nameless = None
        self.classes = {A_: self.harness_names[0], B_: self.harness_names[1]}
        self.pool = [A_(), B_(), A_(), B_()]                    # Obj 0..3
        self.foreign = [X_(), None]                             # Foreign 0..1
        # the harness classes become selectable by NAME as well (load_backend instantiates them)
        self.names_registered = True
        try:
            for k in self.harness_names:
                if self.names[k] not in self.mgr.available_backend_names:
                    self.mgr.available_backend_names.append(self.names[k])
        except Exception:
            self.names_registered = False
        # mark the stock instances so that a dispatched call reveals which object executed it
        self.static_attrs = set()
        self.marked = {}
        self.reset()
        try:
            self.mgr.register_backend_method("c17_new", lambda *a, **k: ("c17reg", 0))
        except Exception:  # noqa
            pass
        for k in self.stock:
            try:
                self.mgr.set_backend(self.names[k])
                obj = self.mgr.current_backend()
                if getattr(obj, "backend_name", None) == self.names[k]:
                    obj.__dict__[fn] = (lambda o: (lambda *a, **kw: (chain(), ("c17", o))[1]))(obj)
                    for j in self.dfuns:
                        obj.__dict__[self.dnames[j]] = obj.__dict__[fn]
                    for j in self.dattrs:
                        obj.__dict__[self.dnames[j]] = ("c17", obj)
                    self.marked[id(obj)] = (k, obj)
            except Exception:
                pass
        self.reset()

    @classmethod
    def get(cls, tenalg):
        tenalg = bool(tenalg)
        if tenalg not in cls._cache:
            cls._cache[tenalg] = Mgr(tenalg)
        return cls._cache[tenalg]

    @classmethod
    def both(cls):
        return (cls.get(False), cls.get(True))

    def unmark(self):
        for k, obj in self.marked.values():
            obj.__dict__.pop(self.fn, None)
            for nm in self.dnames:
                obj.__dict__.pop(nm, None)

    def reset(self):
        """process-wide default and the calling (main) thread's own selection back to the default name"""
        self.mgr.set_backend(self.names[0])

    # selectors: ("n", code) name | ("o", k) harness instance | ("f", k) foreign object
    def sel_obj(self, sel):
        kind, k = sel
        if kind == "n":
            return self.names[k]
        if kind == "h":                               # a listed name whose module fails half-way through its import (halfway_import_probe)
            return ("tkh" if self.tenalg else "bkh") + str(k)
        if kind == "o":
            if k == 20:
                return self.nameless
            if k == 5:
                return self.deep_obj
            return self.pool[k] if k < len(self.pool) else self.reg_obj
        return self.foreign[k]

    def sel_valid(self, sel):
        kind, k = sel
        if kind == "n":
            return k in self.stock or (k in self.harness_names and self.names_registered)
        return kind == "o"

    def token(self, obj):
        """identity token of a backend object: ('o',k) | ('n',code) | ('?',repr)"""
        for k, p in enumerate(self.pool):
            if obj is p:
                return ("o", k)
        if obj is not None and obj is getattr(self, "nameless", None):
            return ("o", 20)
        if obj is getattr(self, "deep_obj", None):
            return ("o", 5)
        if id(obj) in self.marked and self.marked[id(obj)][1] is obj:
            return ("n", self.marked[id(obj)][0])
        if type(obj) in self.classes:
            return ("n", self.classes[type(obj)])
        return ("?", repr(obj)[:60])

    def token_name(self, tok):
        """name code implied by an identity token"""
        if tok[0] == "o":
            return self.harness_names[tok[1] % 2]
        if tok[0] == "n":
            return tok[1]
        return None

    def sweep(self, expected):
        """EVERY dynamically dispatched function and attribute of the manager must fetch its implementation from
        `expected` (an instance of a harness class, whose attribute accesses are logged): the functions are called
        without arguments - the look-up happens before the call fails.  Returns the names that went elsewhere."""
        m = self.mgr
        wrong = []
        funs = list(dict.fromkeys(getattr(m, "_functions", [])))
        attrs = [a for a in dict.fromkeys(getattr(m, "_attributes", [])) if a not in funs]
        top = vars(self.mod) if not self.tenalg else {}
        for name in funs + attrs:
            _ACCESS.log = log = []
            try:
                if name in funs:
                    getattr(self.mod, name)()        # tensorly.<name> / tensorly.tenalg.<name>
                elif name in top:
                    # tensorly/__init__.py binds this ATTRIBUTE statically at import (int64, float64, pi, ...): it does not
                    # follow the backend.  C17 speaks of dispatched functions: recorded, not judged; swept on the manager
                    self.static_attrs.add(name)
                    getattr(m, name)
                else:
                    getattr(self.mod, name)          # resolved through the module __getattr__: must follow the backend
                    if self.mod is not m:
                        hit0 = [o for (o, n) in log if n == name]
                        if not hit0 or hit0[0] is not expected:
                            wrong.append("tensorly." + name)
                        del log[:]
                    getattr(m, name)
            except Exception:
                pass
            finally:
                _ACCESS.log = None
            hit = [o for (o, n) in log if n == name]
            if not hit or hit[0] is not expected:
                wrong.append(name)
        if len(wrong) >= len(funs) + len(attrs):
            return []          # no look-up was logged at all: the dispatcher does not go through attribute access of the
            #                    instance (a refactoring the logging cannot follow); the marker-method probes still apply
        return wrong

    def observe(self, full=False):
        """executed INSIDE the observed thread: (name code, dispatch token | None, problems)"""
        m = self.mgr
        q = m.get_backend()
        qc = self.code.get(q, 99)
        _ACCESS.chain = None
        r = getattr(self.mod, self.fn)(*self.args)          # the dynamically dispatched function
        if isinstance(r, tuple) and len(r) == 2 and r[0] == "c17":
            d = self.token(r[1])
        else:
            d = None                                         # executed by an unmarked (stock class) object
        routes = []
        if self.tenalg and d is not None:
            # the backend function called from INSIDE the tenalg function vs the same function called directly by this thread
            import tensorly as tl
            B = Mgr.get(False)

            def btok(x):
                return B.token(x[1]) if isinstance(x, tuple) and len(x) == 2 and x[0] == "c17" else None
            ch = _ACCESS.__dict__.get("chain")
            direct = tl.context(self_zero())
            if ch is None or ch[0] != "ok" or btok(ch[1]) != btok(direct):
                routes.append(("tensorly.context called inside the tenalg function", ch if ch is None or ch[0] != "ok" else btok(ch[1]),
                               "called directly", btok(direct)))
        r2 = getattr(m, self.fn)(*self.args)                # same function through the manager module
        d2 = self.token(r2[1]) if isinstance(r2, tuple) and len(r2) == 2 and r2[0] == "c17" else None
        if d2 != d:
            routes.append(("manager." + self.fn, d2))
        cb = m.current_backend()
        d3 = self.token(cb)
        if d is not None and d3 != d:
            routes.append(("current_backend()", d3))
        if d is None and (d3[0] != "?" or getattr(cb, "backend_name", None) != q):
            routes.append(("current_backend()", d3))
        if CHECK_DNAME[0]:
            # C17_default_name_tracks_shared: between whole operations cls._default_backend is the name of cls._backend
            dn, sh = getattr(self.cls, "_default_backend", None), getattr(self.cls, "_backend", None)
            if dn != getattr(sh, "backend_name", None):
                routes.append(("_default_backend vs _backend.backend_name", (dn, getattr(sh, "backend_name", None))))
        if not self.tenalg:
            a1 = self.mod.backend_name                      # dispatched attribute, via tensorly.__getattr__
            a2 = m.backend_name
            if a1 != q or a2 != q:
                routes.append(("backend_name attribute", (a1, a2)))
            q2 = self.mod.get_backend()                     # the top-level alias tensorly.get_backend
            if q2 != q:
                routes.append(("tensorly.get_backend()", q2))
        if full and type(cb) in self.classes and d3 == d:
            wrong = self.sweep(cb)
            if wrong:
                routes.append(("dispatched names not served by the current backend", wrong[:8]))
        return (qc, d, routes)

    def api(self, tid):
        """the public entry points: tensorly.set_backend / tensorly.backend_context (top-level aliases) for even
        thread ids, the manager module for odd ones"""
        return self.mod if (not self.tenalg and tid % 2 == 0) else self.mgr


def self_zero():
    import numpy as np
    return np.zeros(1)


def observe_mode(mode, full=False):
    """what the calling thread sees: (through tensorly.backend | None, through tensorly.tenalg | None)"""
    out = []
    for m in (0, 1):
        if mode == 2 or mode == m:
            try:
                out.append(Mgr.get(m).observe(full))
            except Exception as e:  # noqa
                out.append((98, ("?", "observe raised " + repr(e)[:80]), []))
        else:
            out.append(None)
    return tuple(out)


# ----------------------------------------------------------------------------- threads
class Stepper:
    """line- or bytecode-granular turn taking (sys.settrace, f_trace_opcodes) between threads that each execute ONE
    manager call: every entry of a schedule lets the named thread run up to the next source line / the next bytecode
    of the traced files"""

    def __init__(self, tids, files, opcodes=False):
        self.opcodes = opcodes                    # turn taking at every BYTECODE of the traced files instead of every line
        self.go = {t: threading.Semaphore(0) for t in tids}
        self.done_line = threading.Semaphore(0)
        self.finished = {t: False for t in tids}
        self.files = files
        self.lines = 0

    def tracer(self, tid):
        unit = "opcode" if self.opcodes else "line"

        def local(frame, event, arg):
            if getattr(self, "free", False):
                frame.f_trace_opcodes = False     # free-running: no turn taking (and no tracing of this frame) any more
                frame.f_trace = None
                return None
            if event == unit:
                self.done_line.release()          # about to execute a line / a bytecode: hand the turn back
                if not self.go[tid].acquire(timeout=TIMEOUT):
                    raise HarnessStuck(f"traced thread {tid} was never scheduled again")
            return local

        def glob(frame, event, arg):
            if frame.f_code.co_filename not in self.files or getattr(self, "free", False):
                return None
            if self.opcodes:
                frame.f_trace_opcodes = True
            return local
        return glob

    def start(self, tid):
        if not self.go[tid].acquire(timeout=TIMEOUT):
            raise HarnessStuck(f"traced thread {tid} was never started")
        sys.settrace(self.tracer(tid))

    def finish(self, tid):
        sys.settrace(None)
        self.finished[tid] = True
        self.done_line.release()

    def run(self, schedule):
        tids = list(self.go)
        for t in itertools.chain(schedule, itertools.cycle(tids)):
            if all(self.finished.values()):
                break
            if self.finished[t]:
                continue
            self.go[t].release()
            if not self.done_line.acquire(timeout=TIMEOUT):
                raise HarnessStuck(f"traced thread {t} did not reach its next line")
            self.lines += 1


class Worker:
    def __init__(self, mode, tid):
        self.mode, self.tid = mode, tid
        self.q = queue.SimpleQueue()
        self.r = queue.SimpleQueue()
        self.thread = None
        self.exit_stepper = None
        self.full = False

    def start(self):
        self.thread = threading.Thread(target=self.main, daemon=True)
        self.thread.start()

    def main(self):
        try:
            self.body(0)
        except BaseException as e:  # noqa
            self.r.put(("harness-error", repr(e)))

    def call(self, cmd):
        self.q.put(cmd)
        try:
            return self.r.get(timeout=TIMEOUT)
        except queue.Empty:
            raise HarnessStuck(f"thread {self.tid} did not answer {cmd!r}")

    def reply(self, res):
        """outcome of an operation + what THIS thread observes right after it (saves one hand-over per step);
        the acting thread also sweeps ALL dispatched names when it is asked to (last operation of a history)"""
        self.r.put((res, self.observe(self.full)))
        self.full = False

    def observe(self, full=False):
        return observe_mode(self.mode, full)

    def body(self, depth):
        """serve commands at context depth `depth`; returns 'normal' (leave the innermost context normally)
        or 'stop'; raises Boom for an exceptional exit"""
        while True:
            cmd = self.q.get()
            k = cmd[0]
            if k == "obs":
                self.r.put(self.observe())
            elif k == "full":
                self.full = True
            elif k == "set":
                # cmd[4] (optional): a Stepper under whose line-granular control the call is made
                M = Mgr.get(cmd[1])
                st = cmd[4] if len(cmd) > 4 else None
                try:
                    if st is not None:
                        st.start(self.tid)
                    try:
                        if cmd[3] or self.tid % 2 == 0:
                            M.api(self.tid).set_backend(M.sel_obj(cmd[2]), local_threadsafe=cmd[3])
                        else:                            # the default of the flag is "not thread-local"
                            M.api(self.tid).set_backend(M.sel_obj(cmd[2]))
                    finally:
                        if st is not None:
                            st.finish(self.tid)
                    self.reply("done")
                except HarnessStuck:
                    raise
                except Exception as e:  # noqa
                    self.reply("rejected")
            elif k == "enter":
                M = Mgr.get(cmd[1])
                st = [cmd[4]] if len(cmd) > 4 else []
                entered, how = False, "swallowed"

                def untrace():
                    while st:
                        st.pop().finish(self.tid)
                try:
                    if st:
                        st[0].start(self.tid)
                    try:
                        kw = {"local_threadsafe": cmd[3]} if (cmd[3] or self.tid % 2 == 1) else {}
                        with M.api(self.tid).backend_context(M.sel_obj(cmd[2]), **kw):
                            untrace()                    # only the entry is traced
                            entered = True
                            self.reply("done")
                            how = self.body(depth + 1)
                            xs, self.exit_stepper = self.exit_stepper, None
                            if xs is not None:           # cmd ("exit", exn, stepper): the exit is traced
                                st.append(xs)
                                xs.start(self.tid)
                            if how == "boom":
                                raise Boom()
                    finally:
                        untrace()
                    if how in ("stop", "quit"):
                        return how
                    # "swallowed": the body raised Boom but the `with` statement completed without an exception
                    self.reply("done" if how == "normal" else "swallowed")
                except Boom:
                    # the body's exception propagated out of the `with` statement (after the finally clause)
                    self.reply("reraised" if entered else "exitfailed")
                except HarnessStuck:
                    raise
                except Exception as e:  # noqa
                    if how in ("stop", "quit"):      # unwinding at the end of a history: a failing exit must not
                        return how                   # leave this thread serving commands at the wrong depth
                    self.reply("exitfailed" if entered else "rejected")
            elif k == "exit":
                if depth == 0:
                    if len(cmd) > 2:
                        cmd[2].start(self.tid)
                        cmd[2].finish(self.tid)
                    self.reply("noctx")
                else:
                    if len(cmd) > 2:
                        self.exit_stepper = cmd[2]
                    return "boom" if cmd[1] else "normal"
            elif k in ("stop", "quit"):
                return k


def drive(mode, history, main_worker, nthreads, worker_cls=None):
    """run one history; thread 0 is the main thread.  If main_worker is None the main thread is the caller
    itself (passive observer, holds the import-time selection); otherwise it is an actor served by
    main_worker (the caller is then a helper thread).  Returns (obs0, [(outcome, obs)...])."""
    workers = {}
    for t in range(1, nthreads):
        w = (worker_cls or Worker)(mode, t)
        w.start()
        workers[t] = w
    if main_worker is not None:
        workers[0] = main_worker

    def observe_all(actor=None, own=None):
        out = []
        for t in range(nthreads):
            if t == actor:
                out.append(own)
            elif t == 0 and main_worker is None:
                out.append(observe_mode(mode))
            else:
                out.append(workers[t].call(("obs",)))
        return out
    try:
        obs0 = observe_all()
        steps = []
        for i, op in enumerate(history):
            kind, t = op[0], op[1]
            if i == len(history) - 1:
                workers[t].q.put(("full",))      # no answer: the next reply of that thread carries the sweep
            if kind in ("set", "enter"):
                res = workers[t].call((kind, op[2], op[3], op[4]))
            elif worker_cls is not None:
                res = workers[t].call(("exit", op[3], op[2]))
            else:
                res = workers[t].call(("exit", op[3]))
            if isinstance(res, tuple) and res and res[0] == "harness-error":
                raise HarnessStuck(str(res))
            res, own = res
            steps.append((res, observe_all(t, own)))
        return obs0, steps
    finally:
        for t, w in workers.items():
            if t == 0:
                continue
            w.q.put(("stop",))
        for t, w in workers.items():
            if t != 0 and w.thread is not None:
                w.thread.join(timeout=TIMEOUT)


def run_histories(mode, main_actor, nthreads, histories):
    """returns [(obs0, steps)] for every history; must be called from the MAIN thread of its process"""
    Ms = Mgr.both()
    out = []
    if not main_actor:
        for h in histories:
            for M in Ms:
                M.reset()
            out.append(drive(mode, h, None, nthreads))
        for M in Ms:
            M.reset()
        return out
    # the main thread becomes an actor: it serves a command queue while a helper thread drives
    mw = Worker(mode, 0)
    err = []

    def helper():
        try:
            for h in histories:
                # unwind / reset happen in the main thread through its queue
                for m in (0, 1):
                    mw.call(("set", m, ("n", 0), False))
                out.append(drive(mode, h, mw, nthreads))
                mw.q.put(("stop",))          # leaves every context the main thread still has open
        except BaseException as e:  # noqa
            err.append(e)
        finally:
            mw.q.put(("quit",))
    th = threading.Thread(target=helper, daemon=True)
    th.start()
    while mw.body(0) != "quit":         # body returns at 'stop' (contexts unwound) and at 'quit'
        pass
    th.join(timeout=TIMEOUT)
    for M in Ms:
        M.reset()
    if err:
        raise err[0]
    return out


# ----------------------------------------------------------------------------- line-granular schedules of two concurrent calls
def traced_files():
    import tensorly.backend as B
    import tensorly.tenalg as T
    return {B.__file__, T.__file__}


def drive_micro(m, scenario):
    """scenario = (setup, opA, opB, post, schedule) on manager m; threads: 0 main (passive, holds the import-time
    selection), 1 and 2 (actors), 3 (passive, no selection).  setup / post run one operation at a time; opA (thread 1)
    and opB (thread 2) run concurrently under a line-granular schedule.  Returns (resA, resB, obs, post_steps, lines)."""
    setup, opA, opB, post, schedule = scenario[:5]
    opcodes = len(scenario) > 5 and scenario[5] == "opcode"
    conc = [opA, opB] + ([scenario[6]] if len(scenario) > 6 else [])     # a third concurrent call (thread 3) is optional
    nthreads = len(conc) + 2                  # main, the actors, one passive thread without selection
    workers = {}
    for t in range(1, nthreads):
        w = Worker(m, t)
        w.start()
        workers[t] = w

    def observe_all(actor=None, own=None):
        return [own if t == actor else (observe_mode(m) if t == 0 else workers[t].call(("obs",))) for t in range(nthreads)]

    def cmd_of(op, st=None):
        extra = (st,) if st is not None else ()
        if op[0] in ("set", "enter"):
            return (op[0], op[2], op[3], op[4]) + extra
        return ("exit", op[3]) + extra

    def atomic(op):
        res = workers[op[1]].call(cmd_of(op))
        if isinstance(res, tuple) and res and res[0] == "harness-error":
            raise HarnessStuck(str(res))
        return res
    try:
        for op in setup:
            atomic(op)
        st = Stepper([op[1] for op in conc], traced_files(), opcodes)
        for op in conc:
            workers[op[1]].q.put(cmd_of(op, st))
        st.run(schedule)
        out = []
        for op in conc:
            try:
                res = workers[op[1]].r.get(timeout=TIMEOUT)
            except queue.Empty:
                raise HarnessStuck(f"thread {op[1]} did not answer the traced {op[0]}")
            if isinstance(res, tuple) and res and res[0] == "harness-error":
                raise HarnessStuck(str(res))
            out.append(res[0])
        obs = observe_all()
        steps = []
        for op in post:
            res, own = atomic(op)
            steps.append((res, observe_all(op[1], own)))
        return (out[0], out[1], obs, steps, st.lines) + tuple(out[2:])
    finally:
        for w in workers.values():
            w.q.put(("stop",))
        for w in workers.values():
            if w.thread is not None:
                w.thread.join(timeout=TIMEOUT)


def random_scenario3(rng, m):
    """three concurrent calls (threads 1, 2, 3): like random_scenario with a third actor"""
    return random_scenario(rng, m, third=True)


def random_scenario(rng, m, third=False):
    """set-up (0-3 valid operations of threads 1-3), one operation each for threads 1 and 2, the exits that close
    what is open afterwards, a line- or bytecode-granular schedule"""
    M = Mgr.get(m)
    valid = [("o", k) for k in range(len(M.pool))] + [("n", k) for k in M.names if M.sel_valid(("n", k))]
    bad = [("n", k) for k in M.names if not M.sel_valid(("n", k))] + [("f", 0)]
    depth = {1: 0, 2: 0, 3: 0}
    setup = []
    for _ in range(rng.choice([0, 1, 1, 2, 2, 3])):
        t = rng.choice([1, 2, 3])
        kind = rng.choice(["set", "enter"]) if (t != 3 or third) else "set"
        setup.append((kind, t, m, rng.choice(valid), rng.random() < 0.6))
        if kind == "enter":
            depth[t] += 1

    def one(t):
        r = rng.random()
        if depth[t] and r < 0.5:
            depth[t] -= 1
            return ("exit", t, m, rng.random() < 0.4)
        s = rng.choice(bad) if rng.random() < 0.12 else rng.choice(valid)
        kind = "enter" if r < 0.7 else "set"
        if kind == "enter" and M.sel_valid(s):
            depth[t] += 1
        return (kind, t, m, s, rng.random() < 0.4)
    opA, opB = one(1), one(2)
    opC = one(3) if third else None
    actors = [1, 2, 3] if third else [1, 2]
    post = []
    order = [t for t in actors for _ in range(depth[t])]
    rng.shuffle(order)
    for t in order:
        post.append(("exit", t, m, rng.random() < 0.3))
    style = rng.random()
    gran = "opcode" if rng.random() < 0.5 else "line"
    k, n = (14, 40) if gran == "line" else (70, 200)
    if style < 0.5:       # one thread runs k steps, the other(s) complete (the second one also stopped midway), the first resumes
        perm = actors[:]
        rng.shuffle(perm)
        schedule = [perm[0]] * rng.randint(0, k)
        if third:
            schedule += [perm[1]] * rng.randint(0, k) + [perm[2]] * n + [perm[1]] * n
        else:
            schedule += [perm[1]] * n
    elif style < 0.75 or gran == "line":
        schedule = [rng.choice(actors) for _ in range(n)]
    else:                 # bursts
        schedule = []
        while len(schedule) < n:
            schedule += [rng.choice(actors)] * rng.randint(1, 25)
    sc = (tuple(setup), opA, opB, tuple(post), tuple(schedule), gran)
    return sc + (opC,) if third else sc


def systematic_scenarios(m):
    """canonical pairs of NON-local calls, one thread stopped after k = 0..59 bytecodes while the other runs to
    completion: sweeps every window inside set_backend / backend_context entry / exit at bytecode granularity"""
    A, B = ("o", 0), ("o", 1)
    pairs = [((), ("set", 1, m, A, False), ("set", 2, m, B, False), ()),
             ((), ("enter", 1, m, A, False), ("set", 2, m, B, False), (("exit", 1, m, False),)),
             ((("set", 2, m, ("o", 2), True),), ("enter", 1, m, A, False), ("enter", 2, m, B, False),
              (("exit", 2, m, False), ("exit", 1, m, True))),
             ((("enter", 1, m, ("o", 3), False),), ("exit", 1, m, False), ("set", 2, m, B, False), ())]
    out = []
    for k in range(60):
        for (setup, a, b, post) in pairs:
            first, second = (1, 2) if (k % 2 == 0) else (2, 1)
            out.append((setup, a, b, post, tuple([first] * k + [second] * 200), "opcode"))
    return out


def op_digits(op):
    if op[0] == "exit":
        return [2 + 4 * op[2], op[1], int(op[3]), 0, 0]
    return [(0 if op[0] == "set" else 1) + 4 * op[2], op[1], SELKIND[op[3][0]], op[3][1], int(op[4])]


def encode_micro(m, scenario, result):
    """digit stream decoded by Corr/C17.v `decode_m` (leading digit 3)"""
    setup, opA, opB, post, schedule = scenario[:5]
    resA, resB, obs, steps = result[:4]
    if len(scenario) > 6:                       # three concurrent calls: leading digit 5, decoded by decode_mN
        ds = [5, m, 5, 1, len(setup)]
        for op in setup:
            ds += op_digits(op)
        ds += [3]
        for op, res in ((opA, resA), (opB, resB), (scenario[6], result[5])):
            ds += op_digits(op) + [OUTCOME.get(res, 3)]
    else:
        ds = [3, m, 4, 1, len(setup)]
        for op in setup:
            ds += op_digits(op)
        ds += op_digits(opA) + [OUTCOME.get(resA, 3)] + op_digits(opB) + [OUTCOME.get(resB, 3)]
    ds += seen_digits(obs) + [len(post)]
    for op, (res, o) in zip(post, steps):
        ds += op_digits(op) + [OUTCOME.get(res, 3)] + seen_digits(o)
    assert all(0 <= d < 64 for d in ds), ds
    return ds


def predicates_micro(m, scenario, result):
    """what can be said without the model: query / dispatch consistency in every observation, and the follow-up
    (atomic) exits succeed"""
    M = Mgr.get(m)
    resA, resB, obs, steps = result[:4]
    fails = []
    for i, ob in [(-1, obs)] + [(j, o) for j, (_, o) in enumerate(steps)]:
        for t, per in enumerate(ob):
            o = per[m]
            nm = M.token_name(o[1]) if o[1] is not None else None
            if o[2] or (o[1] is None and o[0] not in M.stock) or (o[1] is not None and nm != o[0]):
                fails.append(("C17_observe", i, f"thread {t}: get_backend() code {o[0]} vs executing object {o[1]} / routes {o[2]} after concurrent calls"))
    for j, (res, _) in enumerate(steps):
        if res != ("reraised" if scenario[3][j][3] else "done"):
            fails.append(("C17_exit_succeeds", j, f"follow-up exit ({'exception' if scenario[3][j][3] else 'normal'}) ended with {res!r}"))
    # C17_selected_is_current holds in every order of blocks: a thread's own selection is private to it, so after
    # both calls have returned each caller observes what IT selected (no other operation of that thread in between)
    setup, opA, opB = scenario[0], scenario[1], scenario[2]
    calls = [(opA, resA), (opB, resB)] + ([(scenario[6], result[5])] if len(scenario) > 6 else [])
    for op, res in calls:
        if op[0] in ("set", "enter") and res == "done" and M.sel_valid(op[3]):
            tok = ("n", op[3][1]) if op[3][0] == "n" else ("o", op[3][1])
            o = obs[op[1]][m]
            ok = o[0] == M.token_name(tok) and (o[1] == tok or (o[1] is None and tok[0] == "n" and tok[1] in M.stock))
            if not ok:
                fails.append(("C17_selected_is_current", -1, f"thread {op[1]} selected {tok} ({op[0]}) while "
                              f"{[(o2[1], o2[0]) for o2, _ in calls if o2 is not op]} (thread, call) ran concurrently, and observes {o[:2]} afterwards"))
        if op[0] in ("set", "enter") and (res == "done") != M.sel_valid(op[3]):
            fails.append(("C17_rejection", -1, f"concurrent {op[0]} of selector {op[3]} by thread {op[1]} ended with {res}"))
    return fails


# ----------------------------------------------------------------------------- calls that do not run to completion
# Model/BackendAbort.v.  A scenario = (m, setup, op, kind, k, post): atomic set-up operations, ONE call `op` that
#   kind 0: runs by itself; selectors may name the NAMELESS instance ("o", 20) = Backend() / TenalgBackend(), for which
#           `backend.backend_name` raises AttributeError after the thread-local slot was written (exec_nl);
#   kind 1: is interrupted: a trace function raises Interrupt when the k-th source line of tensorly/backend/__init__.py /
#           tensorly/tenalg/__init__.py inside the call is about to execute (abort: some prefix of its acts);
#   kind 2: the same at BYTECODE granularity (f_trace_opcodes): before the k-th bytecode of those files inside the call;
# then atomic follow-up operations.  After the call and after every follow-up EVERY thread reports get_backend() (62: it
# raised AttributeError) and the identity of current_backend().
class Interrupt(Exception):
    """raised from the trace function inside set_backend / backend_context (stands for any asynchronous exception)"""


class Interrupter:
    """same interface as Stepper (start / finish), so that Worker.body can run a call under it"""

    def __init__(self, k, files, opcodes=False):
        self.k, self.files, self.n, self.fired, self.opcodes = k, files, 0, False, opcodes

    def tracer(self):
        unit = "opcode" if self.opcodes else "line"

        def local(frame, event, arg):
            if event == unit and not self.fired:
                if self.n == self.k:
                    self.fired = True
                    raise Interrupt()
                self.n += 1
            return local

        def glob(frame, event, arg):
            if self.fired or frame.f_code.co_filename not in self.files:
                return None
            if self.opcodes:
                frame.f_trace_opcodes = True
            return local
        return glob

    def start(self, tid):
        sys.settrace(self.tracer())

    def finish(self, tid):
        sys.settrace(None)


def aobserve(m):
    M = Mgr.get(m)
    try:
        q = M.code.get(M.mgr.get_backend(), 63)
    except AttributeError:
        q = 62
    return (q, M.token(M.mgr.current_backend()))


class AbortWorker(Worker):
    def observe(self, full=False):
        return aobserve(self.mode)


def drive_abort(sc, nthreads=3):
    """returns (outcome of the call, [seen per thread], [(outcome, [seen per thread]) per follow-up], fired?)"""
    m, setup, op, kind, k, post = sc
    workers = {}
    for t in range(1, nthreads):
        w = AbortWorker(m, t)
        w.start()
        workers[t] = w

    def observe_all(actor=None, own=None):
        return [own if t == actor else (aobserve(m) if t == 0 else workers[t].call(("obs",))) for t in range(nthreads)]

    def cmd_of(o, st=None):
        extra = (st,) if st is not None else ()
        if o[0] in ("set", "enter"):
            return (o[0], o[2], o[3], o[4]) + extra
        return ("exit", o[3]) + extra

    def atomic(o, st=None):
        res = workers[o[1]].call(cmd_of(o, st))
        if isinstance(res, tuple) and res and res[0] == "harness-error":
            raise HarnessStuck(str(res))
        return res
    try:
        for o in setup:
            atomic(o)
        st = Interrupter(k, traced_files(), opcodes=(kind == 2)) if kind in (1, 2) else None
        res, own = atomic(op, st)
        first = (res, observe_all(op[1], own))
        steps = []
        for o in post:
            res, own = atomic(o)
            steps.append((res, observe_all(o[1], own)))
        return (first[0], first[1], steps, bool(st and st.fired))
    finally:
        for w in workers.values():
            w.q.put(("stop",))
        for w in workers.values():
            if w.thread is not None:
                w.thread.join(timeout=TIMEOUT)


NAMELESS = ("o", 20)
ABORT_ENTRY = "BackendManager.set_backend / backend_context (calls that raise after a write or are interrupted; both managers)"
ABORT_LINES = 13        # a context entry by name executes 12 traced lines; position 12+ = the interruption never comes
ABORT_OPCODES = 110     # ... and fewer than 110 traced bytecodes


def systematic_abort(m):
    """every call shape x every interruption line; every call shape with the nameless instance"""
    A, B, N1 = ("o", 0), ("o", 1), ("n", 1)
    out = []
    shapes = []
    for sel in (A, N1):
        for loc in (False, True):
            shapes.append(((), ("set", 1, m, sel, loc)))
            shapes.append(((), ("enter", 1, m, sel, loc)))
            shapes.append(((("set", 1, m, B, True),), ("enter", 1, m, sel, loc)))
    for loc in (False, True):
        for exn in (False, True):
            shapes.append(((("enter", 1, m, A, loc),), ("exit", 1, m, exn)))
            shapes.append(((("set", 2, m, B, False), ("enter", 1, m, A, loc), ("set", 2, m, ("o", 2), False)), ("exit", 1, m, exn)))
    for setup, op in shapes:
        for k in range(ABORT_LINES):
            post = (("exit", 1, m, False), ("set", 2, m, ("o", 3), True), ("enter", 1, m, B, False), ("exit", 1, m, False))
            out.append((m, tuple(setup), op, 1, k, post))
    canon = [((), ("set", 1, m, A, False)), ((), ("set", 1, m, N1, True)), ((), ("enter", 1, m, A, False)),
             ((("set", 1, m, B, True),), ("enter", 1, m, N1, True)),
             ((("enter", 1, m, A, False),), ("exit", 1, m, False)), ((("enter", 1, m, A, True),), ("exit", 1, m, True)),
             ((("set", 2, m, B, False), ("enter", 1, m, A, False), ("set", 2, m, ("o", 2), False)), ("exit", 1, m, False))]
    for setup, op in canon:
        for k in range(0, ABORT_OPCODES, 2):
            out.append((m, tuple(setup), op, 2, k, (("exit", 1, m, False), ("set", 2, m, ("o", 3), True), ("enter", 1, m, B, False))))
    for loc in (False, True):
        out.append((m, (), ("set", 1, m, NAMELESS, loc), 0, 0,
                    (("enter", 1, m, A, False), ("exit", 1, m, False), ("set", 1, m, B, loc))))
        out.append((m, (), ("enter", 1, m, NAMELESS, loc), 0, 0,
                    (("exit", 1, m, False), ("set", 2, m, A, False), ("enter", 2, m, NAMELESS, loc), ("exit", 2, m, True))))
        out.append((m, (("set", 2, m, B, True),), ("set", 1, m, NAMELESS, True), 0, 0,
                    (("enter", 1, m, A, loc), ("exit", 1, m, False), ("exit", 1, m, False), ("set", 1, m, A, False))))
    return out


def random_abort(rng, m):
    M = Mgr.get(m)
    valid = [("o", k) for k in range(len(M.pool))] + [("n", k) for k in M.names if M.sel_valid(("n", k))]
    bad = [("n", k) for k in M.names if not M.sel_valid(("n", k))] + [("f", 0)]
    kind = rng.choice([0, 1, 2])

    def one(t, depth, nameless):
        r = rng.random()
        if depth[t] and r < 0.35:
            depth[t] -= 1
            return ("exit", t, m, rng.random() < 0.4)
        s = NAMELESS if (nameless and rng.random() < 0.3) else (rng.choice(bad) if rng.random() < 0.1 else rng.choice(valid))
        return ("enter" if r < 0.7 else "set", t, m, s, rng.random() < 0.5)
    depth = {1: 0, 2: 0}
    setup = []
    for _ in range(rng.choice([0, 1, 2, 3])):
        o = one(rng.choice([1, 2]), depth, False)
        if o[0] == "enter" and M.sel_valid(o[3]):
            depth[o[1]] += 1
        setup.append(o)
    # from here on the depth of a thread is not known statically (a raising / interrupted entry opens no context): exits
    # without a context are answered "noctx" by harness and model alike
    d2 = {1: 1, 2: 1}
    op = one(1, dict(d2), kind == 0)
    post = [one(rng.choice([1, 2]), dict(d2), kind == 0) for _ in range(rng.randint(0, 4))]
    return (m, tuple(setup), op, kind, rng.randint(0, ABORT_LINES) if kind == 1 else (rng.randint(0, ABORT_OPCODES) if kind == 2 else 0), tuple(post))


def name_first(manager_cls):
    """does set_backend read `.backend_name` BEFORE its first write of the selection state?  (since /repo commit e7c4942: yes;
    before it the name was read inside `cls._default_backend = backend.backend_name`, after the thread-local slot had been
    written)  Passed to the model as a parameter (Corr/C17.v acase nf); a tree with the old order then agrees with the model
    (nf = false) and is reported by the PREDICATE C17_rejection as a violation."""
    fn = _fn_ast(manager_cls.set_backend.__func__)
    for st in fn.body:
        if isinstance(st, ast.Expr) and isinstance(st.value, ast.Constant):
            continue
        if isinstance(st, ast.If) and any(isinstance(n, ast.Call) and getattr(n.func, "id", None) == "isinstance" for n in ast.walk(st.test)):
            continue
        for n in ast.walk(st):
            tg = n.targets if isinstance(n, ast.Assign) else ([n.target] if isinstance(n, (ast.AugAssign, ast.AnnAssign)) else [])
            for x in tg:
                ch = _attr_chain(x) or []
                if ch[:2] == ["cls", "_THREAD_LOCAL_DATA"] or ch == ["cls", "_backend"]:
                    return False
        if any(isinstance(n, ast.Attribute) and n.attr == "backend_name" and isinstance(n.ctx, ast.Load) for n in ast.walk(st)):
            return True
    return False


class _HalfwayFinder:
    """meta-path finder + loader for tensorly.backend.bkh<k>_backend / tensorly.tenalg.tkh<k>_tenalg: the module defines (and thereby
    registers) its backend class and THEN raises ImportError - a backend whose import fails half-way"""

    def find_spec(self, fullname, path=None, target=None):
        import importlib.machinery
        tail = fullname.rsplit(".", 1)[-1]
        if (fullname.startswith("tensorly.backend.bkh") and tail.endswith("_backend")) or \
                (fullname.startswith("tensorly.tenalg.tkh") and tail.endswith("_tenalg")):
            return importlib.machinery.ModuleSpec(fullname, self)
        return None

    def create_module(self, spec):
        return None

    def exec_module(self, module):
        tail = module.__name__.rsplit(".", 1)[-1]
        name = tail.rsplit("_", 1)[0]
        if tail.endswith("_tenalg"):
            from tensorly.tenalg.core_tenalg import CoreTenalgBackend as Base
        else:
            from tensorly.backend.numpy_backend import NumpyBackend as Base
        type("H_", (Base,), {}, backend_name=name)
        raise ImportError("C17 harness: this backend module fails half-way through its import")


def halfway_import_probe():
    """item: an exception raised INSIDE set_backend while it loads a backend.  Per manager and flavour: a fresh thread selects
    (set / context) a listed name whose module registers its class and then fails.  Must hold (C17 rejection clause): the
    failed selection changes NOBODY's backend.  Recorded, not judged: the retry succeeds (the class stayed registered), and then
    behaves like any selection.  Returns (failures [(predicate, message, inputs)], notes)."""
    fails, notes = [], []
    finder = _HalfwayFinder()
    sys.meta_path.insert(0, finder)
    idx = 0
    try:
        for m in (0, 1):
            M = Mgr.get(m)
            for kind in ("set", "enter"):
                for local in (False, True):
                    idx += 1
                    name = M.sel_obj(("h", idx))
                    M.mgr.available_backend_names.append(name)
                    M.reset()
                    workers = {}
                    try:
                        for t in (1, 2):
                            w = AbortWorker(m, t)
                            w.start()
                            workers[t] = w

                        def views(actor=None, own=None):
                            return [own if t == actor else (aobserve(m) if t == 0 else workers[t].call(("obs",))) for t in range(3)]
                        if idx % 2 == 1:
                            workers[1].call(("set", m, ("o", 0), True))      # the caller holds a selection of its own that the failure must not disturb
                        else:
                            workers[2].call(("set", m, ("o", 1), True))      # ... or the other worker does
                        v0 = views()
                        inputs = {"mode": 20, "manager": m, "call": kind, "local_threadsafe": local, "selector": name}
                        res1, own1 = workers[1].call((kind, m, ("h", idx), local))
                        v1 = views(1, own1)
                        if res1 != "rejected":
                            notes.append(f"{name}: the first selection of a backend whose import fails half-way ended with {res1!r}")
                        elif v1 != v0:
                            fails.append(("C17_rejection", f"{kind}({name!r}, local_threadsafe={local}) raised while the backend module failed half-way through "
                                          f"its import, yet the views changed from {v0} to {v1}", inputs))
                        res2, own2 = workers[1].call((kind, m, ("h", idx), local))
                        v2 = views(1, own2)
                        notes.append(f"{name}: first attempt {res1}, retry {res2}")
                        if res2 == "done":
                            if v2[0] != v0[0] or ((local or idx % 2 == 0) and v2[2] != v0[2]) or (not local and idx % 2 == 1 and v2[2][1] != v2[1][1]):
                                fails.append(("C17_view", f"after the retry of {kind}({name!r}, local_threadsafe={local}) succeeded the threads observe {v2} "
                                              f"(before: {v0}): the main thread (own selection) must be unchanged, thread 2 (none) must follow iff not local", inputs))
                            if getattr(M.mgr.current_backend(), "backend_name", None) == name:
                                fails.append(("C17_isolation_step", f"the main thread follows {name!r} selected by thread 1", inputs))
                    finally:
                        for w in workers.values():
                            w.q.put(("stop",))
                        for w in workers.values():
                            if w.thread is not None:
                                w.thread.join(timeout=TIMEOUT)
                        M.reset()
                        try:
                            M.mgr.available_backend_names.remove(name)
                        except ValueError:
                            pass
                        M.cls._loaded_backends.pop(name, None)
                        reg = getattr(M.cls._backend_class, "_available_tenalg_backends" if m else "_available_backends", {})
                        reg.pop(name, None)
    finally:
        sys.meta_path.remove(finder)
    return fails, notes


def aseen_digits(obs):
    ds = []
    for (q, tok) in obs:
        ds += [q if 0 <= q < 64 else 63, tok_digit(tok)]
    return ds


def encode_abort(sc, result):
    """digit stream decoded by Corr/C17.v `decode_a` (leading digit 13)"""
    m, setup, op, kind, k, post = sc
    res, obs, steps, fired = result
    M = Mgr.get(m)
    if getattr(M, "_name_first", None) is None:
        try:
            M._name_first = int(name_first(M.cls))
        except Exception:  # noqa
            M._name_first = 0
    ds = [13, m, len(obs), 1, M._name_first, len(setup)]
    for o in setup:
        ds += op_digits(o)
    ds += op_digits(op) + [min(kind, 1), OUTCOME.get(res, 3)] + aseen_digits(obs) + [len(post)]
    for o, (r, ob) in zip(post, steps):
        ds += op_digits(o) + [OUTCOME.get(r, 3)] + aseen_digits(ob)
    assert all(0 <= d < 64 for d in ds), ds
    return ds


def predicates_abort(sc, result):
    """model-free transcriptions: C17_abort_others_untouched / C17_raising_selection_partial (nobody else is affected by a
    call that raised or was interrupted before its shared write; a thread holding its own selection never is) and the
    rejection clause itself (a call that RAISED by itself must leave the caller's backend unchanged too: C17_rejection -
    refuted for the nameless instance, C17_rejected_nameless_refuted)"""
    m, setup, op, kind, k, post = sc
    M = Mgr.get(m)
    res, obs, steps, fired = result
    fails = []
    # reference views before the call: replay the set-up with the plain rules (set-up operations are valid or rejected whole)
    own = {0: ("n", 0)}
    default = ("n", 0)
    stack = {}
    for o in setup:
        t = o[1]
        cur = own.get(t, default)
        if o[0] in ("set", "enter") and M.sel_valid(o[3]):
            if o[0] == "enter":
                stack.setdefault(t, []).append((cur, o[4]))
            own[t] = o[3]
            if not o[4]:
                default = o[3]
        elif o[0] == "exit" and stack.get(t):
            old, loc = stack[t].pop()
            own[t] = old
            if not loc:
                default = old

    def shows(seen, tok):
        return seen[1] == tok
    t = op[1]
    raised = res in ("rejected", "exitfailed")
    for u in range(len(obs)):
        if u != t and u in own and not shows(obs[u], own[u]):
            fails.append(("C17_abort_others_untouched", -1, f"thread {u} holds its own selection {own[u]} but observes {obs[u]} after thread {t}'s "
                          f"{'interrupted' if kind else 'raising'} {op[0]}"))
    if kind == 0 and raised:
        before = own.get(t, default)
        for u in range(len(obs)):
            if u != t and u not in own and not shows(obs[u], default):
                fails.append(("C17_raising_selection_partial", -1, f"thread {u} (no selection of its own) observes {obs[u]} after thread {t}'s "
                              f"{op[0]} raised; the shared default was {default}"))
        if not shows(obs[t], before):
            fails.append(("C17_rejection", -1, f"thread {t}: {op[0]}({op[3] if op[0] != 'exit' else ''}"
                          f"{', local_threadsafe=True' if op[0] != 'exit' and op[4] else ''}) raised, yet the thread's backend changed from "
                          f"{before} to {obs[t]} (get_backend() code 62 = it raises AttributeError now)"))
    return fails


def chain_items(m):
    """ONE call interrupted at EVERY position, compared step by step (Corr/C17.v leading digit 14): the call shapes of
    systematic_abort, each with all its positions (source lines 0..12; for the canonical shapes bytecodes 0, 2, .. 108)"""
    A, B, N1 = ("o", 0), ("o", 1), ("n", 1)
    items = []
    for sel in (A, N1):
        for loc in (False, True):
            for setup in ((), (("set", 1, m, B, True),)):
                for kind_ in ("set", "enter"):
                    if kind_ == "set" and setup:
                        continue
                    items.append((m, setup, (kind_, 1, m, sel, loc), 1, tuple(range(ABORT_LINES))))
    for loc in (False, True):
        for exn in (False, True):
            items.append((m, (("enter", 1, m, A, loc),), ("exit", 1, m, exn), 1, tuple(range(ABORT_LINES))))
            items.append((m, (("set", 2, m, B, False), ("enter", 1, m, A, loc), ("set", 2, m, ("o", 2), False)), ("exit", 1, m, exn), 1,
                          tuple(range(ABORT_LINES))))
    canon = [((), ("set", 1, m, A, False)), ((), ("set", 1, m, N1, True)), ((), ("enter", 1, m, A, False)),
             ((("set", 1, m, B, True),), ("enter", 1, m, N1, True)),
             ((("enter", 1, m, A, False),), ("exit", 1, m, False)), ((("enter", 1, m, A, True),), ("exit", 1, m, True)),
             ((("set", 2, m, B, False), ("enter", 1, m, A, False), ("set", 2, m, ("o", 2), False)), ("exit", 1, m, False))]
    for setup, op in canon:
        items.append((m, tuple(setup), op, 2, tuple(range(0, ABORT_OPCODES, 2))))
    return items


def encode_chain(item, results):
    """digit stream decoded by Corr/C17.v `decode_c` (leading digit 14)"""
    m, setup, op, kind, positions = item
    M = Mgr.get(m)
    if getattr(M, "_name_first", None) is None:
        try:
            M._name_first = int(name_first(M.cls))
        except Exception:  # noqa
            M._name_first = 0
    ds = [14, m, 3, 1, M._name_first, len(setup)]
    for o in setup:
        ds += op_digits(o)
    ds += op_digits(op) + [len(results)]
    for (res, obs) in results:
        ds += [OUTCOME.get(res, 3)] + aseen_digits(obs)
    assert all(0 <= d < 64 for d in ds), ds
    return ds


def chain_to_json(item):
    m, setup, op, kind, positions = item
    return {"manager": m, "setup": hist_to_json(setup), "op": hist_to_json([op])[0], "kind": kind, "positions": list(positions)}


def _chain_job(m, items):
    Ms = Mgr.both()
    out = []
    for item in items:
        _, setup, op, kind, positions = item
        results = []
        for k in positions:
            for X in Ms:
                X.reset()
            r = drive_abort((m, setup, op, kind, k, ()))
            results.append((r[0], r[1], r[3]))
        # a position at which the tracer did not fire is no interruption: only the LAST such run (the call ran to completion)
        # closes the chain; earlier ones (position 0 under bytecode tracing of some frames) are left out
        fired = [(res, obs) for (res, obs, f) in results if f]
        tail = [(res, obs) for (res, obs, f) in results[-1:] if not f]
        out.append((pack(encode_chain(item, fired + tail)), None,
                    [f"{'tenalg' if m else 'backend'}.step-by-step {op[0]} ({'line' if kind == 1 else 'bytecode'}): {len(fired)} of {len(positions)} positions inside the call"]))
    for X in Ms:
        X.reset()
    return out, None


def abort_to_json(sc):
    m, setup, op, kind, k, post = sc
    return {"manager": m, "setup": hist_to_json(setup), "op": hist_to_json([op])[0], "kind": kind, "line": k, "post": hist_to_json(post)}


def abort_from_json(j):
    return (int(j["manager"]), hist_from_json(j["setup"]), hist_from_json([j["op"]])[0], int(j["kind"]), int(j["line"]),
            hist_from_json(j["post"]))


def _abort_job(m, scenarios):
    Ms = Mgr.both()
    out = []
    for sc in scenarios:
        for X in Ms:
            X.reset()
        r = drive_abort(sc)
        fails = predicates_abort(sc, r)
        op = sc[2]
        out.append((pack(encode_abort(sc, r)), fails[0] if fails else None,
                    [f"{'tenalg' if m else 'backend'}.{'interrupted' if sc[3] else 'by-itself'} {op[0]}"
                     f"{'(nameless)' if op[0] != 'exit' and op[3] == NAMELESS else ''}:{r[0]}{'/fired' if r[3] else ''}"]))
    for X in Ms:
        X.reset()
    return out, None


# ----------------------------------------------------------------------------- programs of acts from the source (ast)
# The micro-step programs of Model/Backend.v are a reading of set_backend / backend_context / current_backend.  Here the
# CURRENT source is translated (ast) into the same vocabulary of acts; Corr/C17.v (leading digit 4) checks that the
# extracted programs obey the effect-point discipline the reduction theorem needs and that, run without interruption,
# they do what the model's programs do on a family of states.  A source shape the translator does not know is
# reported in the evidence notes and skipped - never a verdict.
import ast, inspect, textwrap


class Unsupported(Exception):
    pass

def _fn_ast(f):
    src = textwrap.dedent(inspect.getsource(f))
    mod = ast.parse(src)
    fn = mod.body[0]
    assert isinstance(fn, (ast.FunctionDef,)), type(fn)
    return fn

def _attr_chain(node):
    """cls._THREAD_LOCAL_DATA.backend -> ['cls', '_THREAD_LOCAL_DATA', 'backend']"""
    out = []
    while isinstance(node, ast.Attribute):
        out.append(node.attr)
        node = node.value
    if isinstance(node, ast.Name):
        out.append(node.id)
        return out[::-1]
    return None

def _reads_shared(expr):
    return any(_attr_chain(n) == ["cls", "_backend"] for n in ast.walk(expr) if isinstance(n, ast.Attribute))

def set_program(fn, local, src_name, from_reg):
    """acts of set_backend after the selection has resolved; src_name: the name holding the backend in this function"""
    K = {"tls": 2 if from_reg else 1, "shared": 5 if from_reg else 4}
    acts = []

    def walk(stmts):
        for st in stmts:
            if isinstance(st, ast.Expr) and isinstance(st.value, ast.Constant):
                continue                                   # docstring
            if isinstance(st, ast.If):
                t = st.test
                if any(isinstance(n, ast.Call) and getattr(n.func, "id", None) == "isinstance" for n in ast.walk(t)):
                    # the resolution of names (cache look-up, load_backend): it must come before any write and must not
                    # touch the selection state itself - fail closed otherwise
                    if acts:
                        raise Unsupported("the isinstance / load block comes after a write")
                    for n in ast.walk(st):
                        tg = []
                        if isinstance(n, (ast.Assign, ast.Delete)):
                            tg = n.targets
                        elif isinstance(n, (ast.AugAssign, ast.AnnAssign)):
                            tg = [n.target]
                        for x in tg:
                            ch = _attr_chain(x) or []
                            if ch[:2] == ["cls", "_THREAD_LOCAL_DATA"] or ch in (["cls", "_backend"], ["cls", "_default_backend"]):
                                raise Unsupported("the isinstance / load block writes " + ast.unparse(x))
                        if isinstance(n, ast.Call) and getattr(n.func, "id", None) in ("setattr", "delattr"):
                            raise Unsupported("the isinstance / load block calls " + ast.unparse(n)[:60])
                    continue
                neg = isinstance(t, ast.UnaryOp) and isinstance(t.op, ast.Not)
                core = t.operand if neg else t
                if isinstance(core, ast.Name) and core.id == "local_threadsafe":
                    take = (not local) if neg else local
                    walk(st.body if take else st.orelse)
                    continue
                raise Unsupported("if " + ast.unparse(t))
            if isinstance(st, ast.Assign) and len(st.targets) == 1:
                ch = _attr_chain(st.targets[0])
                val = st.value
                if isinstance(st.targets[0], ast.Name) and st.targets[0].id not in (src_name, "cls", "local_threadsafe") \
                        and not any(isinstance(n, ast.Name) and n.id == "cls" for n in ast.walk(val)) \
                        and not any(isinstance(n, ast.Call) for n in ast.walk(val)):
                    continue                               # a local name computed from the argument (e.g. its backend_name): private, no act
                if ch == ["cls", "_THREAD_LOCAL_DATA", "backend"]:
                    if isinstance(val, ast.Name) and val.id == src_name:
                        acts.append(K["tls"]); continue
                    if _reads_shared(val):
                        acts.extend([9 + 16, 2]); continue    # a read of the shared default, then the write from it
                    raise Unsupported(ast.unparse(st))
                if ch == ["cls", "_default_backend"]:
                    acts.append(3); continue
                if ch == ["cls", "_backend"]:
                    if isinstance(val, ast.Name) and val.id == src_name:
                        acts.append(K["shared"] + 16); continue
                    raise Unsupported(ast.unparse(st))
                raise Unsupported(ast.unparse(st))
            if isinstance(st, ast.Return) and st.value is None:
                return
            raise Unsupported(ast.unparse(st)[:80])
    walk(fn.body)
    if not any(a >= 16 for a in acts):                     # no shared access: the (first) write of the thread-local slot is the effect point
        for i, a in enumerate(acts):
            if a in (1, 2):
                acts[i] = a + 16
                break
    return acts

def _set_call(st, first_arg):
    """cls.set_backend(<first_arg>, [local_threadsafe=...]) -> flag expression | 'default' ; None if not such a call"""
    if not (isinstance(st, ast.Expr) and isinstance(st.value, ast.Call)):
        return None
    c = st.value
    if _attr_chain(c.func) != ["cls", "set_backend"] or not c.args or not isinstance(c.args[0], ast.Name) or c.args[0].id != first_arg:
        return None
    flag = "default"
    if len(c.args) > 1:
        flag = c.args[1]
    for kw in c.keywords:
        if kw.arg == "local_threadsafe":
            flag = kw.value
    return flag

def _flag_value(flag, local):
    if flag == "default":
        return False
    if isinstance(flag, ast.Name) and flag.id == "local_threadsafe":
        return local
    if isinstance(flag, ast.Constant) and isinstance(flag.value, bool):
        return flag.value
    raise Unsupported("flag " + ast.unparse(flag))

def source_programs(manager_cls):
    """[set, enter, exit-normal, exit-exception] for local_threadsafe False, then True (act codes of Corr/C17.v dec_act)"""
    f_set = _fn_ast(manager_cls.set_backend.__func__)
    f_cur = _fn_ast(manager_cls.current_backend.__func__)
    ctx = manager_cls.backend_context.__func__
    f_ctx = _fn_ast(getattr(ctx, "__wrapped__", ctx))
    cur_src = ast.unparse(f_cur)
    cur_ok = "_THREAD_LOCAL_DATA" in cur_src and "cls._backend" in cur_src and cur_src.count("cls._backend") == 1
    out = []
    for local in (False, True):
        out.append(set_program(f_set, local, "backend", False) + [10])
        enter, exit_n, exit_x = [], None, None
        saved = None
        for st in f_ctx.body:
            if isinstance(st, ast.Expr) and isinstance(st.value, ast.Constant):
                continue
            if isinstance(st, ast.Assign) and len(st.targets) == 1 and isinstance(st.targets[0], ast.Name) \
                    and isinstance(st.value, ast.Call) and _attr_chain(st.value.func) == ["cls", "current_backend"]:
                saved = st.targets[0].id
                enter.append(0 + 16 if cur_ok else 9 + 16)
                continue
            fl = _set_call(st, "backend")
            if fl is not None:
                enter += set_program(f_set, _flag_value(fl, local), "backend", False)
                continue
            if isinstance(st, ast.Try):
                if not (len(st.body) == 1 and isinstance(st.body[0], ast.Expr) and isinstance(st.body[0].value, ast.Yield)):
                    raise Unsupported("try body " + ast.unparse(st.body[0])[:60])
                enter += [7 if local else 6, 10]

                def restore(stmts, last):
                    acts = [8]
                    for s2 in stmts:
                        if isinstance(s2, (ast.Raise, ast.Pass)):
                            continue
                        fl2 = _set_call(s2, saved)
                        if fl2 is None:
                            raise Unsupported("exit: " + ast.unparse(s2)[:60])
                        acts += set_program(f_set, _flag_value(fl2, local), "backend", True)
                    return acts + [last]
                exit_n = restore(list(st.orelse) + list(st.finalbody), 10)
                hb = list(st.handlers[0].body) if st.handlers else []
                # the body's exception propagates (act 11) unless an except clause ends without re-raising it
                propagates = (not st.handlers) or any(isinstance(x, ast.Raise) and x.exc is None for x in hb)
                exit_x = restore(hb + list(st.finalbody), 11 if propagates else 10)
                continue
            raise Unsupported("backend_context: " + ast.unparse(st)[:60])
        if saved is None or exit_n is None:
            raise Unsupported("backend_context has no save / try-yield")
        out += [enter, exit_n, exit_x]
    return out

def program_digits(progs):
    ds = []
    for p in progs:
        ds += [len(p)] + p
    return ds


# ----------------------------------------------------------------------------- histories
SEL_EXH = [("n", 1), ("o", 1), ("n", 4)]      # a known name, an instance, an unknown name (codes valid for both managers:
#                                               backend: bka / instance of bkb / nosuch; tenalg: einsum / instance of tkb / nosuch)
SEL_SMALL = [("o", 1), ("n", 4)]


def alphabet(threads, managers, sels):
    al = []
    for t in threads:
        for m in managers:
            for s in sels:
                for l in (False, True):
                    al.append(("set", t, m, s, l))
                    al.append(("enter", t, m, s, l))
            al.append(("exit", t, m, False))
            al.append(("exit", t, m, True))
    return al


def feasible(h):
    """an Exit needs an open context of its thread, and it leaves the INNERMOST one (contexts of the two managers
    nest on one Python stack); contexts open only for valid selections"""
    stack = {}
    for op in h:
        if op[0] == "enter" and Mgr.get(op[2]).sel_valid(op[3]):
            stack.setdefault(op[1], []).append(op[2])
        elif op[0] == "exit":
            st = stack.get(op[1])
            if not st or st[-1] != op[2]:
                return False
            st.pop()
    return True


def exhaustive(threads, managers, sels, n, first_thread=None):
    """first_thread = t: only histories whose first operation is issued by thread t - with two interchangeable worker
    threads (created alike, the code never looks at a thread's identity) every other history is one of these with the
    two workers renamed"""
    al = alphabet(threads, managers, sels)
    return [h for h in itertools.product(al, repeat=n) if (first_thread is None or h[0][1] == first_thread) and feasible(h)]


def random_history(rng, threads, managers, maxlen):
    n = rng.randint(1, maxlen)
    stack = {t: [] for t in threads}
    h = []
    p_exit = rng.choice([0.2, 0.35, 0.5])
    p_bad = rng.choice([0.1, 0.25])
    p_local = rng.choice([0.3, 0.5, 0.8])
    for _ in range(n):
        t = rng.choice(threads)
        if stack[t] and rng.random() < p_exit:
            h.append(("exit", t, stack[t].pop(), rng.random() < 0.4))
            continue
        m = rng.choice(managers)
        M = Mgr.get(m)
        names = list(M.names)
        if not M.names_registered:
            names = [k for k in names if k not in M.harness_names]
        r = rng.random()
        if r < p_bad:
            bad = [("n", k) for k in names if not M.sel_valid(("n", k))] + [("f", 0), ("f", 1)]
            s = rng.choice(bad)
        elif r < p_bad + (1 - p_bad) * 0.45:
            s = ("n", rng.choice([k for k in names if M.sel_valid(("n", k))]))
        else:
            s = ("o", rng.randrange(len(M.pool)))
        l = rng.random() < p_local
        if rng.random() < 0.5:
            h.append(("set", t, m, s, l))
        else:
            h.append(("enter", t, m, s, l))
            if M.sel_valid(s):
                stack[t].append(m)
    return tuple(h)


# ----------------------------------------------------------------------------- Gallina literals
def sel_lit(s):
    kind, k = s
    return f"(sn {k})" if kind == "n" else (f"(so {k})" if kind == "o" else f"(sf {k})")


def op_lit(op):
    m = "true" if op[2] else "false"
    if op[0] == "set":
        return f"({m}, Set_ {op[1]} {sel_lit(op[3])} {C.boolc(op[4])})"
    if op[0] == "enter":
        return f"({m}, Enter {op[1]} {sel_lit(op[3])} {C.boolc(op[4])})"
    return f"({m}, Exit_ {op[1]} {C.boolc(op[3])})"


OUTCOME = {"done": 0, "rejected": 1, "exitfailed": 2, "noctx": 3, "reraised": 4}
SELKIND = {"n": 0, "o": 1, "f": 2}


def seen_digits(obs):
    ds = []
    for per_thread in obs:
        for o in per_thread:
            if o is None:
                continue
            q, d = o[0], o[1]
            ds.append(q if 0 <= q < 63 else 63)
            if d is None:
                ds.append(0)
            elif d[0] == "n" and d[1] < 6:
                ds.append(2 + d[1])
            elif d[0] == "o" and d[1] < 50:
                ds.append(8 + d[1])
            else:
                ds.append(1)          # an object the harness cannot identify never agrees with the model
    return ds


def encode(mode, main_own, nthreads, history, result):
    """the digit stream decoded by Corr/C17.v `decode` (base-64 digits)"""
    obs0, steps = result
    ds = [mode, nthreads, int(main_own)] + seen_digits(obs0) + [len(steps)]
    for op, (res, obs) in zip(history, steps):
        if op[0] == "exit":
            ds += [2 + 4 * op[2], op[1], int(op[3]), 0, 0]
        else:
            ds += [(0 if op[0] == "set" else 1) + 4 * op[2], op[1], SELKIND[op[3][0]], op[3][1], int(op[4])]
        ds.append(OUTCOME.get(res, 3))
        ds += seen_digits(obs)
    assert all(0 <= d < 64 for d in ds), ds
    return ds


def pack(ds):
    """transport format of Corr/C17.v: primitive 63-bit integers, the first is the number of digits, every
    further one carries 10 digits, least significant first"""
    assert all(isinstance(d, int) and 0 <= d < 64 for d in ds), [d for d in ds if not (isinstance(d, int) and 0 <= d < 64)][:5]
    ints = [len(ds)]
    for k in range(0, len(ds), 10):
        v = 0
        for d in reversed(ds[k:k + 10]):
            v = v * 64 + d
        ints.append(v)
    return "[" + "; ".join(f"{v}%uint63" for v in ints) + "]"


# ----------------------------------------------------------------------------- property predicates
def predicates_one(M, nthreads, history, result):
    """Transcriptions of the C17 theorems for ONE manager, evaluated on the implementation's observations only.
    history: operations of that manager; result: (obs0, steps) with one observation (name code, token, routes) per
    thread.  Returns a list of (predicate name, step index, message)."""
    obs0, steps = result
    fails = []

    def same(a, b):   # observations of one thread: (name code, dispatch token)
        return a[0] == b[0] and a[1] == b[1]

    def consistent(i, obs):
        for t, o in enumerate(obs):
            if o[2]:
                fails.append(("C17_observe", i, f"thread {t}: dispatch routes disagree with the dispatched function: {o[2]} (get_backend code {o[0]}, executing object {o[1]})"))
            nm = M.token_name(o[1]) if o[1] is not None else None
            if o[1] is None and o[0] not in M.stock:
                fails.append(("C17_observe", i, f"thread {t}: get_backend() says {M.names.get(o[0], o[0])!r} but the dispatched call ran on a stock-class object"))
            elif o[1] is not None and nm != o[0]:
                fails.append(("C17_observe", i, f"thread {t}: get_backend() says {M.names.get(o[0], o[0])!r} but the dispatched call ran on {o[1]}"))
    consistent(-1, obs0)
    prev = obs0
    # spec state (theorem C17_view): own[t] = value of t's last effective selection, default = last non-local one
    own = {t: None for t in range(nthreads)}
    own[0] = ("n", 0)          # the importing thread selected the default name at import time
    default = ("n", 0)
    stack = {t: [] for t in range(nthreads)}      # (observation of t before the enter, local flag)

    def tok_of_sel(s):
        return ("n", s[1]) if s[0] == "n" else ("o", s[1])

    def matches(o, tok):
        """observation o shows backend `tok`"""
        if o[0] != M.token_name(tok):
            return False
        return o[1] == tok or (o[1] is None and tok[0] == "n" and tok[1] in M.stock)
    for i, (op, (res, obs)) in enumerate(zip(history, steps)):
        consistent(i, obs)
        t = op[1]
        others = [u for u in range(nthreads) if u != t]
        if op[0] in ("set", "enter"):
            sel, loc = op[3], op[4]
            valid = M.sel_valid(sel)
            if res == "rejected":
                # C17_rejection: the whole (observable) state is unchanged
                for u in range(nthreads):
                    if not same(obs[u], prev[u]):
                        fails.append(("C17_rejection", i, f"rejected {op[0]} by thread {t} changed what thread {u} observes: {prev[u][:2]} -> {obs[u][:2]}"))
                if valid:
                    fails.append(("C17_selected_is_current", i, f"valid selection {sel} was rejected"))
            elif res == "done":
                if not valid:
                    fails.append(("C17_rejection", i, f"selection {sel} that is neither an available name nor an instance of the manager's backend class was accepted"))
                else:
                    tok = tok_of_sel(sel)
                    if not matches(obs[t], tok):
                        fails.append(("C17_selected_is_current", i, f"thread {t} selected {tok} but observes {obs[t][:2]}"))
                    if op[0] == "enter":
                        stack[t].append((prev[t], loc, own[t], default))
                    own[t] = tok
                    if loc:
                        for u in others:      # C17_isolation_step
                            if not same(obs[u], prev[u]):
                                fails.append(("C17_isolation_step", i, f"thread-local {op[0]} by thread {t} changed what thread {u} observes: {prev[u][:2]} -> {obs[u][:2]}"))
                    else:
                        default = tok
            else:
                fails.append(("C17_rejection", i, f"{op[0]} ended abnormally: {res}"))
        else:
            if res == "noctx" or not stack[t]:
                prev = obs
                continue          # not an operation of the implementation (generator never issues it)
            before, local, own_before, _ = stack[t].pop()
            if res != ("reraised" if op[3] else "done"):
                fails.append(("C17_exit_succeeds" if res == "exitfailed" else "C17_exit_by_exception_same_restore", i,
                              f"leaving the context of thread {t} ({'by an exception of the body' if op[3] else 'normally'}) ended with {res!r}, "
                              f"expected {'the exception to propagate after the restore' if op[3] else 'normal completion'}"))
            if not same(obs[t], before):      # C17_restore
                fails.append(("C17_restore", i, f"thread {t} observed {before[:2]} before entering and {obs[t][:2]} after leaving the context ({'exception' if op[3] else 'normal'} exit)"))
            # the restore is an effective selection of the saved backend with the context's flag
            saved_tok = before[1] if before[1] is not None else ("n", before[0])
            own[t] = saved_tok
            if local:
                for u in others:              # C17_isolation_step (exit of a thread-local context)
                    if not same(obs[u], prev[u]):
                        fails.append(("C17_isolation_step", i, f"leaving a thread-local context in thread {t} changed what thread {u} observes: {prev[u][:2]} -> {obs[u][:2]}"))
            else:
                default = saved_tok           # C17_global_exit_published
        # C17_view: own selection else the shared default, for EVERY thread
        for u in range(nthreads):
            exp = own[u] if own[u] is not None else default
            if not matches(obs[u], exp):
                fails.append(("C17_view", i, f"thread {u} should observe {exp} ({'its own last selection' if own[u] is not None else 'the shared default'}) but observes {obs[u][:2]}"))
        prev = obs
    return fails


def predicates(mode, nthreads, history, result):
    """all predicates for a history in mode 0 / 1 / 2; step indices refer to `history`"""
    obs0, steps = result
    fails = []
    managers = (0, 1) if mode == 2 else (mode,)
    if mode == 2:
        # C17_other_manager_untouched: an operation on one manager changes nothing any thread sees through the other
        prev = obs0
        for i, (op, (res, obs)) in enumerate(zip(history, steps)):
            other = 1 - op[2]
            for u in range(nthreads):
                a, b = prev[u][other], obs[u][other]
                if a[0] != b[0] or a[1] != b[1]:
                    fails.append(("C17_other_manager_untouched", i,
                                  f"{op[0]} on {'tensorly.tenalg' if op[2] else 'tensorly.backend'} by thread {op[1]} changed what thread {u} "
                                  f"observes through {'tensorly.tenalg' if other else 'tensorly.backend'}: {a[:2]} -> {b[:2]}"))
            prev = obs
    for m in managers:
        idx = [i for i, op in enumerate(history) if op[2] == m]
        hm = [history[i] for i in idx]
        rm = ([o[m] for o in obs0], [(steps[i][0], [o[m] for o in steps[i][1]]) for i in idx])
        for (pred, j, msg) in predicates_one(Mgr.get(m), nthreads, hm, rm):
            fails.append((pred, idx[j] if j >= 0 else -1, ("tensorly.tenalg: " if m else "tensorly.backend: ") + msg))
    fails.sort(key=lambda f: f[1])
    return fails


# ----------------------------------------------------------------------------- dispatch routes (Model/BackendDispatch.v)
# History over the alphabet of the dispatch model, ONE manager m:
#   ("set"|"enter", t, m, sel, local) | ("exit", t, m, exceptional) | ("static", t, m) | ("dynamic", t, m)
#   | ("capture", t, m, route, name) | ("callcap", t, m, k) | ("call", t, m, route, name)
# route 0 = attribute of the manager MODULE, 1 = import-time binding / module __getattr__, 2 = attribute of the CLASS.
# Thread 0 is the main thread (holds the import-time selection; it only captures and calls), threads 1..n-2 are actors
# with command queues, thread n-1 is NOT a standing thread: each of its operations is executed by a thread STARTED AT
# THAT MOMENT by whoever acted last (inside whatever contexts that thread has open) - it never selects anything.
# Contexts are entered / left through the context-manager protocol (cm.__enter__ / cm.__exit__), so that contexts of the
# two managers opened by one thread need not be left innermost-first (ManualWorker, mode 7).
ROUTES = ["manager module", "import-time binding / module __getattr__", "manager class", "alias held by a library module"]


def manual_exit(cm, exn):
    """leave a context through the protocol the `with` statement uses; outcome as the `with` statement would show it"""
    if not exn:
        try:
            cm.__exit__(None, None, None)
            return "done"
        except Exception:  # noqa
            return "exitfailed"
    try:
        raise Boom()
    except Boom as e:
        try:
            swallowed = cm.__exit__(Boom, e, e.__traceback__)
        except Exception:  # noqa
            return "exitfailed"
        return "swallowed" if swallowed else "reraised"


def d_value(M, route, n):
    nm = M.dnames[n]
    if route == 0:
        return getattr(M.mgr, nm)
    if route == 2:
        return getattr(M.cls, nm)
    if route == 3:
        return getattr(M.lib_alias(), nm)
    if M.tenalg and n not in top_names(M):
        return getattr(M.mgr, nm)
    return getattr(M.top_obj, nm)


def d_use(M, v):
    """call a function reference / look at an attribute value: ('ran'|'val', token) | ('err',)"""
    import numpy as np
    if isinstance(v, tuple) and len(v) == 2 and v[0] == "c17":
        return ("val", M.token(v[1]))
    if callable(v) and not isinstance(v, type):
        r = v(*M.args) if getattr(v, "__name__", "") in (M.fn,) else v(*M.args)
        if isinstance(r, tuple) and len(r) == 2 and r[0] == "c17":
            return ("ran", M.token(r[1]))
        return ("ran", ("?", "unmarked result " + repr(r)[:40]))
    if v is np.int64 or v is np.complex64:
        return ("val", ("n", 0))          # the stock numpy backend's own value (bound before the harness marked the instance)
    return ("val", ("?", repr(v)[:40]))


def d_eval(M, op, caps):
    """capture / callcap / call, executed in the calling thread"""
    try:
        if op[0] == "capture":
            try:
                caps.append(d_value(M, op[3], op[4]))
            except AttributeError:
                caps.append(AttributeError)
            return ("none",)
        if op[0] == "callcap":
            v = caps[op[3]]
            if v is AttributeError:
                return ("err",)
            return d_use(M, v)
        try:
            v = d_value(M, op[3], op[4])
        except AttributeError:
            return ("err",)
        return d_use(M, v)
    except Exception as e:  # noqa
        return ("ran", ("?", "raised " + repr(e)[:60]))


def lib_probe(M):
    """LIBRARY code reaching the backend through its own aliases (`from . import backend as tl`, `from .tenalg import
    multi_mode_dot` captured at import, a tenalg implementation calling backend functions): executed in the calling
    thread while its current backend is a harness instance, every backend object asked for an implementation must be
    that instance.  Returns the offending accesses."""
    import numpy as np
    import tensorly as tl
    cb = M.mgr.current_backend()
    if type(cb) not in M.classes:
        return []
    if not M.tenalg:
        calls = [("tensorly.base.unfold", lambda: tl.base.unfold(np.zeros((2, 3)), 1)),
                 ("tensorly.base.fold", lambda: tl.base.fold(np.zeros((3, 2)), 1, (2, 3))),
                 ("tensorly.tenalg.mode_dot", lambda: tl.tenalg.mode_dot(np.zeros((2, 3)), np.zeros((4, 3)), 1)),
                 ("tensorly.cp_tensor.cp_to_tensor", lambda: tl.cp_tensor.cp_to_tensor((None, [np.zeros((2, 2)), np.zeros((3, 2))])))]
    else:
        calls = [("tensorly.tucker_tensor.tucker_to_tensor",
                  lambda: tl.tucker_tensor.tucker_to_tensor((np.zeros((2, 2)), [np.zeros((3, 2)), np.zeros((3, 2))]))),
                 ("tensorly.cp_tensor.cp_to_unfolded", lambda: tl.cp_tensor.cp_to_unfolded((None, [np.zeros((2, 2)), np.zeros((3, 2))]), 0))]
    wrong = []
    for (what, f) in calls:
        _ACCESS.log = log = []
        try:
            f()
        except Exception:  # noqa
            pass
        finally:
            _ACCESS.log = None
        wrong += [(what, repr(o), n) for (o, n) in log if o is not cb]
        if not any(o is cb for (o, n) in log):
            wrong.append((what, "no implementation was fetched from the current backend", repr(cb)))
    return wrong[:6]


class ManualWorker(Worker):
    """like Worker, with contexts driven through the context-manager protocol: a thread may leave its context of one
    manager while a context of the other manager, opened later, is still live"""

    def body(self, depth):
        stacks = {0: [], 1: []}
        caps = self.caps if hasattr(self, "caps") else None
        while True:
            cmd = self.q.get()
            k = cmd[0]
            if k == "obs":
                self.r.put(observe_mode(self.mode))
            elif k == "full":
                self.full = True
            elif k == "set":
                M = Mgr.get(cmd[1])
                try:
                    M.api(self.tid).set_backend(M.sel_obj(cmd[2]), cmd[3])          # the flag passed positionally
                    self.reply("done")
                except Exception:  # noqa
                    self.reply("rejected")
            elif k == "enter":
                M = Mgr.get(cmd[1])
                try:
                    cm = M.api(self.tid).backend_context(M.sel_obj(cmd[2]), cmd[3])     # the flag passed positionally
                    cm.__enter__()
                    stacks[cmd[1]].append(cm)
                    self.reply("done")
                except Exception:  # noqa
                    self.reply("rejected")
            elif k == "exit":
                m = cmd[2] if len(cmd) > 2 else self.mode
                if not stacks[m]:
                    self.reply("noctx")
                else:
                    self.reply(manual_exit(stacks[m].pop(), cmd[1]))
            elif k == "d":                               # an operation of the dispatch alphabet, outcome only
                self.r.put(self.d_op(cmd[1], stacks))
            elif k == "lspawn":                          # a logged look-up executed by a thread started right here
                box = []
                th = threading.Thread(target=lambda: box.append(lcall(Mgr.get(cmd[1][2]), cmd[1])), daemon=True)
                th.start()
                th.join(timeout=TIMEOUT)
                self.r.put(box[0] if box else ("ran", ("?", "spawned thread did not answer")))
            elif k == "spawn":                           # the operation is executed by a thread started right here
                box = []
                th = threading.Thread(target=lambda: box.append(d_eval(Mgr.get(cmd[1][2]), cmd[1], self.caps)), daemon=True)
                th.start()
                th.join(timeout=TIMEOUT)
                self.r.put(box[0] if box else ("ran", ("?", "spawned thread did not answer")))
            elif k in ("stop", "quit"):
                for m in (0, 1):                         # unwind, innermost first
                    while stacks[m]:
                        try:
                            stacks[m].pop().__exit__(None, None, None)
                        except Exception:  # noqa
                            pass
                return k

    def d_op(self, op, stacks):
        M = Mgr.get(op[2])
        kind = op[0]
        try:
            if kind == "set":
                try:
                    M.api(self.tid).set_backend(M.sel_obj(op[3]), local_threadsafe=op[4])
                    return ("sel", "done")
                except Exception:  # noqa
                    return ("sel", "rejected")
            if kind == "enter":
                try:
                    cm = M.api(self.tid).backend_context(M.sel_obj(op[3]), local_threadsafe=op[4])
                    cm.__enter__()
                except Exception:  # noqa
                    return ("sel", "rejected")
                stacks[op[2]].append(cm)
                return ("sel", "done")
            if kind == "exit":
                if not stacks[op[2]]:
                    return ("sel", "noctx")
                return ("sel", manual_exit(stacks[op[2]].pop(), op[3]))
            if kind in ("reg", "rcall"):
                return reg_eval(M, op, self.touched)
            if kind == "lcall":
                return lcall(M, op)
            if kind == "lstatic":
                return lstatic(M)
            if kind in ("wdyn", "wcap", "wunc", "wun", "wcall"):
                return w_eval(M, op, self.caps)
            if kind == "libprobe":
                return ("probe", lib_probe(M))
            if kind == "static":
                M.mgr.use_static_dispatch()
                return ("none",)
            if kind == "dynamic":
                M.mgr.use_dynamic_dispatch()
                return ("none",)
            return d_eval(M, op, self.caps)
        except Exception as e:  # noqa
            return ("ran", ("?", "harness: " + repr(e)[:60]))


def drive_dispatch(m, history, nthreads):
    """returns the outcome of every operation; must be called from the main thread of its process"""
    M = Mgr.get(m)
    caps = []
    workers = {}
    for t in range(1, nthreads - 1):
        w = ManualWorker(m, t)
        w.caps = caps
        w.start()
        workers[t] = w
    fresh = nthreads - 1
    last = None
    outs = []
    try:
        for op in history:
            t = op[1]
            if t == fresh:
                if last is None or last == 0:
                    box = []
                    th = threading.Thread(target=lambda: box.append(d_eval(M, op, caps)), daemon=True)
                    th.start()
                    th.join(timeout=TIMEOUT)
                    res = box[0] if box else ("ran", ("?", "spawned thread did not answer"))
                else:
                    res = workers[last].call(("spawn", op))
            elif t == 0:
                res = d_eval(M, op, caps)
                last = 0
            else:
                res = workers[t].call(("d", op))
                last = t
            if isinstance(res, tuple) and res and res[0] == "harness-error":
                raise HarnessStuck(str(res))
            outs.append(res)
        probes = []
        if not any(op[0] == "static" for op in history):
            for t, w in workers.items():
                r = w.call(("d", ("libprobe", t, m)))
                if isinstance(r, tuple) and r and r[0] == "probe" and r[1]:
                    probes.append((t, r[1]))
        drive_dispatch.probes = probes
        return outs
    finally:
        for w in workers.values():
            w.q.put(("stop",))
        for w in workers.values():
            if w.thread is not None:
                w.thread.join(timeout=TIMEOUT)
        try:
            M.mgr.use_dynamic_dispatch()
        except Exception:  # noqa
            pass


def random_dhistory(rng, m, maxlen):
    M = Mgr.get(m)
    nthreads = 4
    fresh = nthreads - 1
    valid = [("o", k) for k in range(len(M.pool))] + [("n", k) for k in M.names if M.sel_valid(("n", k))]
    bad = [("n", k) for k in M.names if not M.sel_valid(("n", k))] + [("f", 0)]
    depth = {1: 0, 2: 0}
    ncaps = 0
    h = []
    p_sel = rng.choice([0.25, 0.4])
    p_static = rng.choice([0.0, 0.04, 0.08])
    for _ in range(rng.randint(2, maxlen)):
        r = rng.random()
        if r < p_sel:
            t = rng.choice([1, 2])
            if depth[t] and rng.random() < 0.35:
                depth[t] -= 1
                h.append(("exit", t, m, rng.random() < 0.4))
                continue
            s = rng.choice(bad) if rng.random() < 0.1 else rng.choice(valid)
            kind = rng.choice(["set", "enter"])
            if kind == "enter" and M.sel_valid(s):
                depth[t] += 1
            h.append((kind, t, m, s, rng.random() < 0.5))
        elif r < p_sel + p_static:
            h.append(("static", rng.choice([1, 2]), m))
        elif r < p_sel + 2 * p_static:
            h.append(("dynamic", rng.choice([1, 2]), m))
        else:
            t = rng.choice([0, 1, 2, fresh, fresh])
            r2 = rng.random()
            n = rng.randrange(len(M.dnames))
            route = rng.choice([0, 0, 1, 1, 2, 3])
            if r2 < 0.2:
                h.append(("capture", t, m, route, n))
                ncaps += 1
            elif r2 < 0.5 and ncaps:
                h.append(("callcap", t, m, rng.randrange(ncaps)))
            else:
                h.append(("call", t, m, route, n))
    return tuple(h)


def systematic_dhistories(m):
    """every (route, name) captured by thread 1 before a switch of every flavour by thread 2 (set / context, local /
    global, then left), then called by every thread (incl. one started inside the context) through every route"""
    M = Mgr.get(m)
    fresh = 3
    out = []
    for kind in ("set", "enter"):
        for local in (False, True):
            for static in (False, True):
                h = [("capture", 1, m, r, n) for r in (0, 1, 2, 3) for n in range(len(M.dnames))]
                h.append((kind, 2, m, ("o", 1), local))
                if static:
                    h.append(("static", 2, m))
                for t in (0, 1, 2, fresh):
                    h += [("callcap", t, m, k) for k in range(4 * len(M.dnames))]
                    h += [("call", t, m, r, n) for r in (0, 1, 2, 3) for n in range(len(M.dnames))]
                if kind == "enter":
                    h.append(("exit", 2, m, local))
                    for t in (1, 2, fresh):
                        h += [("call", t, m, r, n) for r in (0, 1) for n in range(len(M.dnames))]
                out.append(tuple(h))
    return out


def exhaustive_dhistories(m, n):
    """EVERY feasible sequence of n letters of a 12-letter (tenalg: 11) dispatch alphabet - selections of threads 1 and 2 (local /
    global set, global / local context, exit), use_static_dispatch by either, use_dynamic_dispatch, captures through each
    route - followed by a fixed suffix: thread 1 and a thread started at that moment use every captured reference and
    every (route, name) pair of two names"""
    M = Mgr.get(m)
    al = [("set", 1, m, ("o", 1), True), ("set", 1, m, ("o", 1), False), ("enter", 2, m, ("n", 1), False),
          ("enter", 2, m, ("o", 0), True), ("exit", 2, m, False), ("static", 1, m), ("static", 2, m), ("dynamic", 1, m),
          ("capture", 1, m, 0, 0), ("capture", 2, m, 1, 1), ("capture", 1, m, 2, 0)]
    names = [0, 1]
    if M.dattrs:
        al.append(("capture", 2, m, 0, 2))
        names = [0, 2]
    out = []
    for h in itertools.product(al, repeat=n):
        depth, ok, ncaps = 0, True, 0
        for op in h:
            if op[0] == "enter":
                depth += 1
            elif op[0] == "exit":
                if not depth:
                    ok = False
                    break
                depth -= 1
            elif op[0] == "capture":
                ncaps += 1
        if not ok:
            continue
        suffix = []
        for t in (1, 3):
            suffix += [("callcap", t, m, k) for k in range(ncaps)]
            suffix += [("call", t, m, r, nm) for r in (0, 1, 2) for nm in names]
        out.append(tuple(h) + tuple(suffix))
    return out


DOUT = {"sel": 0, "none": 1, "ran": 2, "val": 3, "err": 4}
ROUTE_DIG = {0: 0, 1: 1, 2: 2}


def tok_digit(d):
    if d is None:
        return 0
    if d[0] == "n" and d[1] < 6:
        return 2 + d[1]
    if d[0] == "o" and d[1] < 50:
        return 8 + d[1]
    return 1


def top_names(M):
    """the modelled names the route 'top' finds bound at import: read off the import list in the SOURCE (what the module
    dict holds at run time may have been put there later)"""
    import tensorly as tl
    if getattr(M, "_top_names", None) is None:
        try:
            # tenalg: whatever the library module holds under the name (however it was bound) is what its code calls
            bound = _imported_names(tl, "backend") if not M.tenalg else set(vars(M.top_obj))
        except Exception:  # noqa
            bound = set(vars(M.top_obj))
        M._top_names = [n for n, nm in enumerate(M.dnames) if nm in bound]
    return M._top_names


def encode_dispatch(m, nthreads, descr_class, history, outs):
    M = Mgr.get(m)
    ds = [6, m, nthreads, 1, int(bool(M.dattrs) and 3 in top_names(M)), len(history) // 64, len(history) % 64]
    for op, res in zip(history, outs):
        k = op[0]
        if k in ("set", "enter"):
            ds += [0 if k == "set" else 1, op[1], SELKIND[op[3][0]], op[3][1], int(op[4])]
        elif k == "exit":
            ds += [2, op[1], int(op[3]), 0, 0]
        elif k == "static":
            ds += [3, op[1], 0, 0, 0]
        elif k == "dynamic":
            ds += [4, op[1], 0, 0, 0]
        elif k == "capture":
            ds += [5, op[1], op[3], op[4], 0]
        elif k == "callcap":
            ds += [6, op[1], op[3], 0, 0]
        else:
            ds += [7, op[1], op[3], op[4], 0]
        if res[0] == "sel":
            ds += [0, OUTCOME.get(res[1], 3)]
        elif res[0] in ("ran", "val"):
            ds += [DOUT[res[0]], tok_digit(res[1])]
        else:
            ds += [DOUT[res[0]], 0]
    assert all(0 <= d < 64 for d in ds), ds
    return ds


def descr_class_ok(M):
    """the model's parameter since /repo commit 0b04404: a dispatched attribute reached through the manager CLASS is served
    by the accessing thread's current backend (before, the descriptor raised AttributeError)"""
    return True


def predicates_dispatch(m, nthreads, descr_class, history, outs):
    """transcriptions of C17_dispatch_follows_view / _captured_follows_view / _attribute_follows_view /
    _top_attribute_import_time / C17_static_dispatch_frozen / C17_fresh_thread_view on the implementation's outcomes"""
    M = Mgr.get(m)
    fails = []
    own = {t: None for t in range(nthreads)}
    own[0] = ("n", 0)
    default = ("n", 0)
    stack = {t: [] for t in range(nthreads)}
    frozen = None                 # backend the manager routes are frozen on (use_static_dispatch)
    caps = []                     # ("w",) closure | ("m", tok) bound method | ("a", tok) attribute value | ("e",)
    top = top_names(M)
    top_fun = [n for n in M.dfuns if n in top]
    top_attr = [n for n in M.dattrs if n in top]

    def cur(t):
        return own[t] if own[t] is not None else default

    def shows(res, kind, tok):
        if res[0] != kind:
            return False
        return res[1] == tok or (res[1] is None and tok[0] == "n" and tok[1] in M.stock)

    def value(t, route, n):
        if n >= M.nmodelled:
            return ("e",)                 # not a dispatched name (C17_unlisted_name_not_dispatched)
        isf = n in M.dfuns
        if route == 1 and n in top_fun:
            return ("w",)
        if route == 1 and n in top_attr:
            return ("a", ("n", 0))
        if frozen is not None:
            return ("m", frozen) if isf else ("a", frozen)
        if isf:
            return ("w",)
        if route == 2 and not descr_class:
            return ("e",)
        return ("a", cur(t))

    def expect(t, v):
        return {"w": ("ran", cur(t)), "m": ("ran", v[1] if len(v) > 1 else None), "a": ("val", v[1] if len(v) > 1 else None), "e": ("err", None)}[v[0]]
    for i, (op, res) in enumerate(zip(history, outs)):
        k, t = op[0], op[1]
        if k in ("set", "enter"):
            valid = M.sel_valid(op[3])
            if (res == ("sel", "done")) != valid:
                fails.append(("C17_rejection", i, f"{k} of selector {op[3]} by thread {t} ended with {res}"))
            if res == ("sel", "done"):
                tok = ("n", op[3][1]) if op[3][0] == "n" else ("o", op[3][1])
                if k == "enter":
                    stack[t].append((cur(t), op[4]))
                own[t] = tok
                if not op[4]:
                    default = tok
        elif k == "exit":
            if stack[t]:
                old, loc = stack[t].pop()
                if res != ("sel", "reraised" if op[3] else "done"):
                    fails.append(("C17_exit_succeeds", i, f"leaving the context of thread {t} ended with {res}"))
                own[t] = old
                if not loc:
                    default = old
        elif k == "static":
            frozen = cur(t)
        elif k == "dynamic":
            frozen = None
        elif k == "capture":
            caps.append(value(t, op[3], op[4]) + (op[4],))
        else:
            if k == "callcap":
                v = caps[op[3]]
                what = f"reference {op[3]} (captured {M.dnames[v[-1]]!r})"
                pred = "C17_dispatch_captured_follows_view"
                v = v[:-1]
            else:
                v = value(t, op[3], op[4])
                what = f"{M.dnames[op[4]]!r} through the {ROUTES[op[3]]}"
                isf = op[4] in M.dfuns
                pred = ("C17_unlisted_name_not_dispatched" if op[4] >= M.nmodelled else
                        "C17_static_dispatch_frozen" if frozen is not None and v[0] != "w" else
                        "C17_dispatch_follows_view" if isf else
                        "C17_dispatch_top_attribute_import_time" if (op[3] == 1 and op[4] in top_attr) else
                        "C17_dispatch_attribute_follows_view")
            if t == nthreads - 1 and v[0] in ("w",):
                pred = "C17_fresh_thread_view"
            kind, tok = expect(t, v)
            ok = (res[0] == "err") if kind == "err" else shows(res, kind, tok)
            if not ok:
                fails.append((pred, i, f"thread {t}{' (started at this moment)' if t == nthreads - 1 else ''} used {what}: expected "
                              f"{kind} {tok if tok is not None else ''} (own selection {own[t]}, shared default {default}, "
                              f"static dispatch frozen on {frozen}), observed {res}"))
    return fails


def dop_lit(op):
    k = op[0]
    if k in ("set", "enter", "exit"):
        return "DSel " + op_lit(op).split(", ", 1)[1][:-1]
    if k == "static":
        return f"DStatic {op[1]}"
    if k == "dynamic":
        return f"DDynamic {op[1]}"
    r = ["RMgr", "RTop", "RClass", "RLib"]
    if k == "capture":
        return f"DCapture {op[1]} {r[op[3]]} {op[4]}"
    if k == "callcap":
        return f"DCallCap {op[1]} {op[3]}"
    return f"DCall {op[1]} {r[op[3]]} {op[4]}"


def dhist_to_json(h):
    return [list(op[:3]) + ([list(op[3]), op[4]] if op[0] in ("set", "enter") else list(op[3:])) for op in h]


def dhist_from_json(j):
    out = []
    for o in j:
        if o[0] in ("set", "enter"):
            out.append((o[0], int(o[1]), int(o[2]), (o[3][0], int(o[3][1])), bool(o[4])))
        elif o[0] == "exit":
            out.append((o[0], int(o[1]), int(o[2]), bool(o[3])))
        else:
            out.append(tuple([o[0]] + [int(x) for x in o[1:]]))
    return tuple(out)


def _dispatch_job(m, histories):
    Ms = Mgr.both()
    M = Ms[m]
    dc = descr_class_ok(M)
    out, extra = [], None
    for h in histories:
        for X in Ms:
            X.reset()
        outs = drive_dispatch(m, h, 4)
        fails = predicates_dispatch(m, 4, dc, h, outs)
        for (t, wrong) in drive_dispatch.probes:
            fails.append(("C17_dispatch_follows_view", len(h) - 1, f"library code (tensorly.base.unfold / tensorly.tenalg.mode_dot / tucker_to_tensor) called in "
                          f"thread {t} after this history fetched implementations from objects other than the thread's current backend: {wrong}"))
        hist = [f"{'tenalg' if m else 'backend'}.{op[0]}" + (f"/{['module', 'top', 'class', 'lib'][op[3]]}" if op[0] in ("capture", "call") else "") + ":" + res[0]
                for op, res in zip(h, outs)]
        out.append((pack(encode_dispatch(m, 4, dc, h, outs)), fails[0] if fails else None, hist))
        if extra is None:
            ds = encode_dispatch(m, 4, dc, h, outs)
            ds[-2] = (ds[-2] + 1) % 5        # sentinel: the KIND of the last outcome altered (ran -> value of, ...)
            extra = (pack(ds), {"mode": "dispatch routes of " + ("tensorly.tenalg" if m else "tensorly.backend"), "threads": 4,
                                "history": [dop_lit(o) for o in h[-12:]], "outcomes": [list(map(str, r)) for r in outs[-12:]]})
    for X in Ms:
        X.reset()
    return out, extra


def nonlifo_history(rng, maxlen):
    """both managers, three actor threads; an exit leaves the innermost context OF ITS MANAGER (contexts of the two
    managers are interleaved arbitrarily)"""
    threads = [1, 2, 3]
    n = rng.randint(2, maxlen)
    stack = {(t, m): 0 for t in threads for m in (0, 1)}
    h = []
    for _ in range(n):
        t = rng.choice(threads)
        open_m = [m for m in (0, 1) if stack[(t, m)]]
        if open_m and rng.random() < 0.4:
            m = rng.choice(open_m)
            stack[(t, m)] -= 1
            h.append(("exit", t, m, rng.random() < 0.4))
            continue
        m = rng.choice([0, 1])
        M = Mgr.get(m)
        r = rng.random()
        if r < 0.12:
            s = rng.choice([("n", 4), ("f", 0), ("f", 1)])
        elif r < 0.5:
            s = ("n", rng.choice([k for k in M.names if M.sel_valid(("n", k))]))
        else:
            s = ("o", rng.randrange(len(M.pool)))
        l = rng.random() < 0.5
        if rng.random() < 0.65:
            h.append(("enter", t, m, s, l))
            if M.sel_valid(s):
                stack[(t, m)] += 1
        else:
            h.append(("set", t, m, s, l))
    return tuple(h)


def run_histories_manual(nthreads, histories):
    """mode 2 (both managers observed by every thread after every step), contexts through the protocol"""
    Ms = Mgr.both()
    out = []
    for h in histories:
        for M in Ms:
            M.reset()
        out.append(drive(2, h, None, nthreads, ManualWorker))
    for M in Ms:
        M.reset()
    return out


# ----------------------------------------------------------------------------- the dispatch expressions, from the source (ast)
# Model/BackendDispatch.v reads: the closure of dispatch_backend_method looks the backend up at CALL time with the
# expression of current_backend(); the descriptor looks it up at ACCESS time; use_dynamic_dispatch installs the closure
# for every name of _functions and the descriptor for every name of _attributes; tensorly/__init__.py binds a fixed list
# of names.  Here these facts are re-derived from the CURRENT source and shipped to Corr/C17.v (leading digit 7), which
# checks them against the model's parameters (look-ups on a family of states).  A shape the translator does not know
# is a BROKEN TIE: reported in the evidence, never a verdict about the property.
def _lookup_kind(expr, cur_kind):
    """0 thread-local slot else shared default | 1 shared default only | 2 thread-local slot only"""
    src = ast.unparse(expr).replace("'", '"').replace(" ", "")
    for owner in ("cls", "instance", "self"):
        if src == owner + "._THREAD_LOCAL_DATA.__dict__.get(\"backend\"," + owner + "._backend)":
            return 0
        if src == owner + ".current_backend()":
            if cur_kind is None:
                raise Unsupported("current_backend() inside current_backend")
            return cur_kind
        if src == owner + "._backend":
            return 1
        if src == owner + "._THREAD_LOCAL_DATA.backend":
            return 2
    raise Unsupported("look-up expression " + src[:70])


def _single_return(fn):
    body = [st for st in fn.body if not (isinstance(st, ast.Expr) and isinstance(st.value, ast.Constant))]
    if len(body) == 1 and isinstance(body[0], ast.Return) and body[0].value is not None:
        return body[0].value
    raise Unsupported(fn.name + ": not a single return")


def _binding_kind(manager_cls, listname):
    """what use_dynamic_dispatch installs for the names of cls.<listname>: 0 staticmethod(closure) | 1 descriptor"""
    fn = _fn_ast(manager_cls.use_dynamic_dispatch.__func__)
    for st in fn.body:
        if isinstance(st, ast.For) and _attr_chain(st.iter) == ["cls", listname]:
            sets = [x.value for x in ast.walk(st) if isinstance(x, ast.Expr) and isinstance(x.value, ast.Call)
                    and getattr(x.value.func, "id", None) == "setattr"]
            if len(sets) != 1 or len(sets[0].args) != 3:
                raise Unsupported("use_dynamic_dispatch: loop over " + listname)
            v = ast.unparse(sets[0].args[2]).replace(" ", "")
            if v.startswith("staticmethod(cls.dispatch_backend_method(name,"):
                return 0
            if v == "dynamically_dispatched_class_attribute(name)":
                return 1
            raise Unsupported("use_dynamic_dispatch installs " + v[:60])
    raise Unsupported("use_dynamic_dispatch: no loop over cls." + listname)


def _static_kinds(manager_cls, cur_kind):
    """the look-up use_static_dispatch evaluates (once) for the names of _functions and of _attributes"""
    fn = _fn_ast(manager_cls.use_static_dispatch.__func__)
    out = {}
    for st in fn.body:
        if isinstance(st, ast.For):
            ch = _attr_chain(st.iter)
            sets = [x.value for x in ast.walk(st) if isinstance(x, ast.Expr) and isinstance(x.value, ast.Call)
                    and getattr(x.value.func, "id", None) == "setattr"]
            if not ch or ch[0] != "cls" or len(sets) != 1 or len(sets[0].args) != 3:
                raise Unsupported("use_static_dispatch: loop")
            v = sets[0].args[2]
            if isinstance(v, ast.Call) and getattr(v.func, "id", None) == "staticmethod" and len(v.args) == 1:
                v = v.args[0]
            if not (isinstance(v, ast.Call) and getattr(v.func, "id", None) == "getattr" and len(v.args) == 2
                    and isinstance(v.args[1], ast.Name) and v.args[1].id == "name"):
                raise Unsupported("use_static_dispatch binds " + ast.unparse(v)[:60])
            out[ch[1]] = _lookup_kind(v.args[0], cur_kind)
    if set(out) != {"_functions", "_attributes"}:
        raise Unsupported("use_static_dispatch: loops over " + str(sorted(out)))
    return [out["_functions"], out["_attributes"]]


def _imported_names(module, frm):
    tree = ast.parse(inspect.getsource(module))
    out = set()
    for st in tree.body:
        if isinstance(st, ast.ImportFrom) and (st.module or "").split(".")[-1] == frm:
            out |= {a.asname or a.name for a in st.names}
    return out


def dispatch_source_digits(Ms, dc):
    import tensorly as tl
    import tensorly.backend as B
    bm = type(tl.backend)
    cur_kind = _lookup_kind(_single_return(_fn_ast(bm.current_backend.__func__)), None)
    g = _single_return(_fn_ast(bm.get_backend.__func__))
    if not (isinstance(g, ast.Attribute) and g.attr == "backend_name"):
        raise Unsupported("get_backend: " + ast.unparse(g)[:60])
    get_kind = _lookup_kind(g.value, cur_kind)
    # the closure: the look-up must sit INSIDE the inner function (evaluated on every call)
    outer = _fn_ast(bm.dispatch_backend_method.__func__)
    inner = [st for st in outer.body if isinstance(st, ast.FunctionDef)]
    if len(inner) != 1:
        raise Unsupported("dispatch_backend_method: inner function")
    r = _single_return(inner[0])
    ok = (isinstance(r, ast.Call) and isinstance(r.func, ast.Call) and getattr(r.func.func, "id", None) == "getattr"
          and len(r.func.args) == 2 and isinstance(r.func.args[1], ast.Name) and r.func.args[1].id == "name")
    if ok:
        wrap_kind = _lookup_kind(r.func.args[0], cur_kind)
    elif isinstance(r, ast.Call) and getattr(r.func, "id", None) == "method":
        wrap_kind = 3                                            # calls the method captured when the closure was made
    else:
        raise Unsupported("closure returns " + ast.unparse(r)[:60])
    # the descriptor
    get = [st for st in ast.parse(textwrap.dedent(inspect.getsource(B.dynamically_dispatched_class_attribute))).body[0].body
           if isinstance(st, ast.FunctionDef) and st.name == "__get__"]
    if len(get) != 1:
        raise Unsupported("descriptor __get__")
    body = [st for st in get[0].body if not (isinstance(st, ast.Expr) and isinstance(st.value, ast.Constant))]
    if len(body) == 1 and isinstance(body[0], ast.If) and len(body[0].body) == 1 and len(body[0].orelse) == 1:
        test = ast.unparse(body[0].test).replace(" ", "")
        cls_test = {"isinstanceisNone": 0, "instanceisNone": 1}.get(test)
        if cls_test is None:
            raise Unsupported("descriptor test " + test)

        def branch(st):
            v = st.value if isinstance(st, ast.Return) else None
            if not (isinstance(v, ast.Call) and getattr(v.func, "id", None) == "getattr" and len(v.args) == 2
                    and ast.unparse(v.args[1]).replace(" ", "") == "self.name"):
                raise Unsupported("descriptor branch " + ast.unparse(st)[:60])
            return _lookup_kind(v.args[0], cur_kind)
        cls_kind, inst_kind = branch(body[0].body[0]), branch(body[0].orelse[0])
    else:
        raise Unsupported("descriptor __get__ shape")
    ds = [7, wrap_kind, cur_kind, get_kind, inst_kind, cls_test, cls_kind, int("int64" in _imported_names(tl, "backend"))]
    from tensorly.tenalg import TenalgBackendManager
    for cls in (bm, TenalgBackendManager):
        ds += _static_kinds(cls, cur_kind)
    for cls in (bm, TenalgBackendManager):
        ds += [_binding_kind(cls, "_functions"), _binding_kind(cls, "_attributes")]
    mod_getattr = any(isinstance(st, ast.Assign) and getattr(st.targets[0], "id", None) == "__getattr__"
                      and ast.unparse(st.value).replace(" ", "") == "backend.__getattribute__"
                      for st in ast.parse(inspect.getsource(tl)).body)
    if not mod_getattr:
        raise Unsupported("tensorly/__init__.py: __getattr__ is not `backend.__getattribute__`")
    ds.append(1)
    for M in Ms:
        bound = _imported_names(tl, "backend") if not M.tenalg else _imported_names(M.top_obj, "tenalg")
        funs, attrs = set(M.cls._functions), set(M.cls._attributes)
        for nm in M.dnames[:M.nmodelled]:
            ds += [int(nm in funs), int(nm in attrs and nm not in funs), int(nm in bound)]
    return ds


# ----------------------------------------------------------------------------- initialize_backend in fresh processes
INIT_SCRIPT = r"""
import sys, json, warnings, threading, traceback
sys.path.insert(0, sys.argv[1])
out = {"ok": True}
with warnings.catch_warnings(record=True) as w:
    warnings.simplefilter("always")
    try:
        import tensorly as tl
        import tensorly.tenalg as ta
    except BaseException as e:
        out["ok"] = False
        out["error"] = repr(e)[:100]
        out["where"] = [f.filename for f in traceback.extract_tb(e.__traceback__)][-3:]
    msgs = [str(x.message) for x in w]
out["warn_b"] = any(m.startswith("TENSORLY_BACKEND should be") for m in msgs)
out["warn_t"] = any(m.startswith("TENSORLY_TENALG_BACKEND should be") for m in msgs)
if out["ok"]:
    box = []
    th = threading.Thread(target=lambda: box.append((tl.get_backend(), ta.get_backend())))
    th.start(); th.join()
    out.update(qb_main=tl.get_backend(), qt_main=ta.get_backend(), qb_fresh=box[0][0], qt_fresh=box[0][1],
               db=tl.backend._default_backend, dt=ta._default_backend)
print("C17INIT" + json.dumps(out))
"""
INIT_ENVS = [(None, None), ("numpy", "einsum"), ("nosuch", "nosuch"), ("Numpy", "numpy"), ("pytorch", None), (None, "core")]
INIT_CODES = ({"numpy": 0, "pytorch": 3, "nosuch": 4, "Numpy": 5}, {"core": 0, "einsum": 1, "nosuch": 4, "numpy": 5})


def init_launch():
    """start `import tensorly` in fresh processes with the environment variables of initialize_backend set"""
    import subprocess
    procs = []
    for (eb, et) in INIT_ENVS:
        env = {k: v for k, v in os.environ.items() if k not in ("TENSORLY_BACKEND", "TENSORLY_TENALG_BACKEND")}
        if eb is not None:
            env["TENSORLY_BACKEND"] = eb
        if et is not None:
            env["TENSORLY_TENALG_BACKEND"] = et
        try:
            p = subprocess.Popen([sys.executable, "-c", INIT_SCRIPT, C.REPO], env=env, stdout=subprocess.PIPE,
                                 stderr=subprocess.DEVNULL, text=True)
        except Exception:  # noqa
            p = None
        procs.append(((eb, et), p))
    return procs


def init_collect(procs):
    """[(digits, description, predicate failure | None)] ; a process that does not answer in time is skipped"""
    import json
    out, skipped = [], 0
    for (eb, et), p in procs:
        if p is None:
            skipped += 1
            continue
        try:
            so, _ = p.communicate(timeout=240)
        except Exception:  # noqa
            p.kill()
            skipped += 1
            continue
        line = [x for x in so.splitlines() if x.startswith("C17INIT")]
        if not line:
            skipped += 1
            continue
        r = json.loads(line[0][7:])
        failed_in_tenalg = (not r["ok"]) and any("tenalg" in f for f in r.get("where", [])[-2:])
        for m, (req, warn) in enumerate(((eb, r["warn_b"]), (et, r["warn_t"]))):
            codes = INIT_CODES[m]
            if not r["ok"] and m == 1 and not failed_in_tenalg:
                continue                     # the import died in tensorly.backend before tensorly.tenalg was initialised
            if not r["ok"] and m == 0 and failed_in_tenalg:
                continue                     # tensorly.backend had been initialised, but nothing could be observed
            env_d = 0 if req is None else 1 + codes.get(req, 6)
            if r["ok"]:
                q_main, q_fresh, dn = (r["qt_main"], r["qt_fresh"], r["dt"]) if m else (r["qb_main"], r["qb_fresh"], r["db"])
                ds = [8, m, env_d, int(warn), codes.get(q_main, 63), codes.get(q_fresh, 63), codes.get(dn, 63)]
            else:
                ds = [8, m, env_d, 2 + int(warn), 0, 0, 0]
            # predicate (C17_initialize_ok / _fails_iff): listed and loadable -> that name everywhere, no warning; not
            # listed -> the built-in default everywhere + warning; listed but not loadable -> the import fails
            listed = [["numpy", "pytorch", "tensorflow", "cupy", "jax", "paddle"], ["core", "einsum"]][m]
            loadable = [["numpy"], ["core", "einsum"]][m]
            default = ["numpy", "core"][m]
            want = req if (req in listed) else default
            fail = None
            if want in loadable:
                exp = (want, want, want, req is not None and req not in listed)
                got = (q_main, q_fresh, dn, bool(warn)) if r["ok"] else ("import failed: " + r.get("error", ""),)
                if got != exp:
                    fail = ("C17_initialize_ok", f"{['TENSORLY_BACKEND', 'TENSORLY_TENALG_BACKEND'][m]}={req!r}: expected (get_backend() in the importing "
                            f"thread, in a new thread, _default_backend, warned) = {exp}, observed {got}")
            elif r["ok"]:
                fail = ("C17_initialize_fails_iff", f"{['TENSORLY_BACKEND', 'TENSORLY_TENALG_BACKEND'][m]}={req!r} is listed but cannot be imported, yet "
                        f"`import tensorly` succeeded with get_backend() = {q_main!r}")
            out.append((ds, {"manager": ["tensorly.backend", "tensorly.tenalg"][m], "env": req, "result": r}, fail))
    return out, skipped


# ----------------------------------------------------------------------------- re-binding under concurrency (real interleaving)
REBIND_STEPS = 14


def rebind_positions(rng, quick=True):
    """(granularity, k): a sweep over the first source lines / bytecodes of the loop plus random positions inside the whole loop"""
    pos = [("line", k) for k in range(12)] + [("opcode", k) for k in range(0, 60, 4)]
    pos += [("line", rng.randrange(12, 3300)) for _ in range(4 if quick else 40)]
    pos += [("opcode", rng.randrange(60, 13000)) for _ in range(5 if quick else 60)]
    return pos


class StopAt:
    """settrace helper: the traced thread runs freely and counts the source lines (bytecodes) of the traced files it is about to
    execute; when it is about to execute number k (1-based) it stops until resumed, afterwards it is not traced any more"""

    def __init__(self, k, files, opcodes=False):
        self.k, self.files, self.opcodes = k, files, opcodes
        self.n = 0
        self.reached = threading.Event()
        self.resume = threading.Event()
        self.off = False

    def tracer(self):
        unit = "opcode" if self.opcodes else "line"

        def local(frame, event, arg):
            if self.off:
                frame.f_trace_opcodes = False
                frame.f_trace = None
                return None
            if event == unit:
                self.n += 1
                if self.n == self.k:
                    self.reached.set()
                    self.resume.wait(TIMEOUT)
                    self.off = True
            return local

        def glob(frame, event, arg):
            if self.off or frame.f_code.co_filename not in self.files:
                return None
            if self.opcodes:
                frame.f_trace_opcodes = True
            return local
        return glob


def rebind_window(m, k, gran="line"):
    """thread A runs use_dynamic_dispatch() of manager m under settrace and stops when it is about to execute its k-th source
    line (bytecode) (k = 0: before the call); thread B then looks EVERY dispatched name up through the manager module; A then
    runs to completion.  Returns (the names B found missing, lines / bytecodes counted when A stopped or ended)"""
    M = Mgr.get(m)
    sa = StopAt(k, traced_files(), opcodes=(gran == "opcode"))
    ended = threading.Event()

    def A():
        sys.settrace(sa.tracer())
        try:
            M.mgr.use_dynamic_dispatch()
        finally:
            sys.settrace(None)
            ended.set()
            sa.reached.set()
    out = []

    def B():
        missing = []
        for nm in list(dict.fromkeys(list(M.cls._functions) + list(M.cls._attributes))):
            try:
                getattr(M.mgr, nm)
            except AttributeError:
                missing.append(nm)
            except Exception:  # noqa
                pass
        out.append(missing)
    th = threading.Thread(target=A, daemon=True)
    if k > 0:
        th.start()
        if not sa.reached.wait(TIMEOUT):
            raise HarnessStuck("re-binding thread did not reach its stop position")
    tb = threading.Thread(target=B, daemon=True)
    tb.start()
    tb.join(timeout=TIMEOUT)
    sa.resume.set()
    if k <= 0:
        th.start()
    th.join(timeout=TIMEOUT)
    if not out or th.is_alive():
        raise HarnessStuck("re-binding scenario did not finish")
    return out[0], sa.n


def rebind_with_del(manager_cls):
    """does the loop over cls._functions in the CURRENT source of use_dynamic_dispatch delete the attribute before setting it?"""
    fn = _fn_ast(manager_cls.use_dynamic_dispatch.__func__)
    for st in fn.body:
        if isinstance(st, ast.For) and _attr_chain(st.iter) == ["cls", "_functions"]:
            return any(isinstance(x, ast.Call) and getattr(x.func, "id", None) == "delattr" for x in ast.walk(st))
    raise Unsupported("use_dynamic_dispatch: no loop over cls._functions")


def rebind_total_lines(m):
    """number of source lines a complete use_dynamic_dispatch() executes under the line tracer"""
    return rebind_window(m, 10 ** 9)[1]


def _rebind_job(job):
    m, positions = job
    M = Mgr.get(m)
    # ... and the END of the call (the loop over the attributes comes last): stop 1, 3, 5 ... lines before it returns
    total = rebind_total_lines(m)
    positions = list(positions) + [("line", total - j) for j in range(1, 40, 2) if total - j > 0]
    missing = [rebind_window(m, k, g)[0] for (g, k) in positions]
    obs = [int(bool(x)) for x in missing]
    try:
        wd = int(rebind_with_del(M.cls))
    except Unsupported:
        wd = int(any(obs))               # unknown loop shape: the tie is broken, only the predicate judges
    fail = None
    if any(obs):
        j = obs.index(1)
        fail = ("C17_micro_rebind_no_window", j,
                f"while a thread was inside {'tensorly.tenalg' if m else 'tensorly.backend'}.use_dynamic_dispatch() (stopped after {positions[j][1]} "
                f"{positions[j][0]}s) another thread's look-up of {missing[j][:3]} through the manager module raised AttributeError; the names are bound "
                f"before and after the call")
    lit = pack([9, m, wd, len(obs) // 64, len(obs) % 64] + obs)
    return [(lit, fail, [f"{'tenalg' if m else 'backend'}.use_dynamic_dispatch||lookup-all-names:{'missing' if any(obs) else 'found'}"])], None


# ----------------------------------------------------------------------------- register_backend_method (Model: rst / rop)
# ("set"|"enter", t, m, sel, local) | ("exit", t, m, exn) | ("reg", t, m, v) | ("rcall", t, m); thread 0 = main (calls only).
# Selector ("o", 4) = an instance of a harness subclass that provides NOTHING under the registered name.
REG_MISSING = object()


def reg_fn(v):
    return lambda *a, **k: ("c17reg", v)


def reg_eval(M, op, touched):
    """reg / rcall executed in the calling thread"""
    nm = M.reg_name
    if op[0] == "reg":
        cls = type(M.mgr.current_backend())
        touched.append((cls, cls.__dict__.get(nm, REG_MISSING)))
        M.mgr.register_backend_method(nm, reg_fn(op[3]))
        return ("none",)
    q = M.code.get(M.mgr.get_backend(), 63)
    try:
        r = getattr(M.mod, nm)(*M.reg_args)
    except AttributeError:
        return ("err",)
    except Exception as e:  # noqa
        return ("ran", 62, 62)
    v = r[1] if isinstance(r, tuple) and len(r) == 2 and r[0] == "c17reg" else 0
    return ("ran", q, v)


def reg_restore(M, touched):
    for cls, old in reversed(touched):
        try:
            if old is REG_MISSING:
                if M.reg_name in cls.__dict__:
                    delattr(cls, M.reg_name)
            else:
                setattr(cls, M.reg_name, old)
        except Exception:  # noqa
            pass


def drive_reg(m, history, nthreads=3):
    M = Mgr.get(m)
    touched = []
    workers = {}
    for t in range(1, nthreads):
        w = ManualWorker(m, t)
        w.caps = []
        w.touched = touched
        w.start()
        workers[t] = w
    outs = []
    try:
        for op in history:
            res = reg_eval(M, op, touched) if op[1] == 0 else workers[op[1]].call(("d", op))
            if isinstance(res, tuple) and res and res[0] == "harness-error":
                raise HarnessStuck(str(res))
            outs.append(res)
        return outs
    finally:
        for w in workers.values():
            w.q.put(("stop",))
        for w in workers.values():
            if w.thread is not None:
                w.thread.join(timeout=TIMEOUT)
        reg_restore(M, touched)


def random_rhistory(rng, m, maxlen):
    M = Mgr.get(m)
    valid = [("o", k) for k in range(6)] + [("n", k) for k in M.names if M.sel_valid(("n", k))]
    depth = {1: 0, 2: 0}
    h, v = [], 0
    for _ in range(rng.randint(3, maxlen)):
        r = rng.random()
        if r < 0.35:
            t = rng.choice([1, 2])
            if depth[t] and rng.random() < 0.35:
                depth[t] -= 1
                h.append(("exit", t, m, rng.random() < 0.4))
                continue
            kind = rng.choice(["set", "set", "enter"])
            s = ("n", 4) if rng.random() < 0.06 else rng.choice(valid)
            if kind == "enter" and s != ("n", 4):
                depth[t] += 1
            h.append((kind, t, m, s, rng.random() < 0.6))
        elif r < 0.55 and v < 30:
            v += 1
            h.append(("reg", rng.choice([0, 1, 2]), m, v))
        else:
            h.append(("rcall", rng.choice([0, 1, 2]), m))
    for t in (0, 1, 2):
        h.append(("rcall", t, m))
    return tuple(h)


def encode_reg(m, nthreads, history, outs):
    ds = [10, m, nthreads, 1, len(history) // 64, len(history) % 64]
    for op, res in zip(history, outs):
        k = op[0]
        if k in ("set", "enter"):
            ds += [0 if k == "set" else 1, op[1], SELKIND[op[3][0]], op[3][1], int(op[4])]
        elif k == "exit":
            ds += [2, op[1], int(op[3]), 0, 0]
        elif k == "reg":
            ds += [3, op[1], op[3], 0, 0]
        else:
            ds += [4, op[1], 0, 0, 0]
        if res[0] == "sel":
            ds += [0, OUTCOME.get(res[1], 3), 0]
        elif res[0] == "none":
            ds += [1, 0, 0]
        elif res[0] == "ran" and len(res) == 3 and all(isinstance(x, int) for x in res[1:]):
            ds += [2, min(res[1], 63), min(res[2], 63)]
        elif res[0] == "ran":
            ds += [2, 62, 62]                     # the call ended in something the harness cannot read: never agrees
        else:
            ds += [4, 0, 0]
    assert all(0 <= d < 64 for d in ds), ds
    return ds


def predicates_reg(m, nthreads, history, outs):
    """transcription of C17_registered_same_class / _inherited / _elsewhere_unchanged / C17_undefined_method_raises"""
    M = Mgr.get(m)
    fails = []
    own = {t: None for t in range(nthreads)}
    own[0] = 0                      # class codes = name codes
    default = 0
    stack = {t: [] for t in range(nthreads)}
    stock_roots = set(M.stock)
    parent = {c: 0 for c in list(M.harness_names) + [6]}
    parent[7] = M.harness_names[0]               # class 7 (Obj 5) -> first harness class -> stock class: two levels
    table = {c: 0 for c in stock_roots}          # class -> implementation; absent = inherit; 6 -> missing
    table[6] = None

    def cls_of(sel):
        if sel[0] == "n":
            return sel[1]
        return 6 if sel[1] == 4 else (7 if sel[1] == 5 else M.harness_names[sel[1] % 2])

    def cur(t):
        return own[t] if own[t] is not None else default

    def lookup(c):
        # walk up the class chain while the class inherits the name (C17_registered_inherited_deep: any depth)
        for _ in range(8):
            if c in table:
                return table[c]
            if c not in parent:
                return None
            c = parent[c]
        return None
    for i, (op, res) in enumerate(zip(history, outs)):
        k, t = op[0], op[1]
        if k in ("set", "enter"):
            if res == ("sel", "done"):
                if k == "enter":
                    stack[t].append((cur(t), op[4]))
                own[t] = cls_of(op[3])
                if not op[4]:
                    default = own[t]
        elif k == "exit":
            if stack[t]:
                old, loc = stack[t].pop()
                own[t] = old
                if not loc:
                    default = old
        elif k == "reg":
            table[cur(t)] = op[3]
        else:
            v = lookup(cur(t))
            exp = ("err",) if v is None else ("ran", cur(t), v)
            if tuple(res) != exp:
                fails.append(("C17_registered_call_follows_view", i,
                              f"thread {t} called the dispatched {M.reg_name!r}: expected {exp} (class code of its backend, implementation: 0 native, "
                              f"k the k-th registered; classes {M.names}), observed {tuple(res)}; registrations so far {table}"))
    return fails


def rop_lit(op):
    if op[0] in ("set", "enter", "exit"):
        return "RSel " + op_lit(op).split(", ", 1)[1][:-1]
    return f"RReg {op[1]} 0 {op[3]}" if op[0] == "reg" else f"RCall {op[1]} 0"


def _reg_job(m, histories):
    Ms = Mgr.both()
    out = []
    for h in histories:
        for X in Ms:
            X.reset()
        outs = drive_reg(m, h)
        fails = predicates_reg(m, 3, h, outs)
        out.append((pack(encode_reg(m, 3, h, outs)), fails[0] if fails else None,
                    [f"{'tenalg' if m else 'backend'}.{op[0]}:{res[0]}" for op, res in zip(h, outs) if op[0] in ("reg", "rcall")]))
    for X in Ms:
        X.reset()
    return out, None


# ----------------------------------------------------------------------------- sweeps over ALL dispatched names, model-evaluated
# The name tables are read off the CURRENT source (cls._functions, cls._attributes, the import list of tensorly/__init__.py)
# and shipped with the case (Corr/C17.v leading digit 11); a sweep is one ("lcall", t, m, route, n) per name and route: the
# object that served the name is identified by the attribute-access log of the harness backend classes (nothing logged =
# a stock object).  Half of the histories call use_static_dispatch() first (op "lstatic": the log shows which object EVERY name
# was fetched from); afterwards no look-up happens at call time, so the frozen value is matched against what each known
# backend object holds under the name (bound methods and marker values identify their object; a bare library function
# shared by all backends does not: outcome "unk", accepted by the comparator).
def all_names(M):
    import tensorly as tl
    if getattr(M, "_allnames", None) is None:
        funs = list(dict.fromkeys(M.cls._functions))
        attrs = [a for a in dict.fromkeys(M.cls._attributes) if a not in funs]
        try:
            bound = _imported_names(tl, "backend") if not M.tenalg else set()
        except Exception:  # noqa
            bound = set()
        M._allnames = funs + attrs
        M._alltab = [1 + 4 * int(n in bound) for n in funs] + [2 + 4 * int(n in bound) for n in attrs]
    return M._allnames, M._alltab


def mark_all(M):
    """sweep jobs only: EVERY dispatched name becomes self-identifying on EVERY known backend object (instance dict entry:
    a closure returning ("c17", object) for a function, that pair for an attribute), so that also a bare library function
    that all backends share (about 60% of tensorly.backend's names) reveals which OBJECT served a call or was frozen by
    use_static_dispatch.  Returns what was added (removed again by unmark_all)."""
    names, tab = all_names(M)
    for k in M.harness_names:                      # the instances load_backend caches for the harness names
        try:
            if M.names_registered and M.names[k] not in M.cls._loaded_backends:
                M.mgr.load_backend(M.names[k])
        except Exception:  # noqa
            pass
    objs = list(M.pool) + [obj for (_, obj) in M.marked.values()]
    objs += [o for o in M.cls._loaded_backends.values() if type(o) in M.classes and not any(o is x for x in objs)]
    added = []
    for obj in objs:
        for n, nm in enumerate(names):
            if nm == "backend_name" or nm in obj.__dict__:
                continue
            obj.__dict__[nm] = (lambda o: (lambda *a, **k: ("c17", o)))(obj) if tab[n] % 2 == 1 else ("c17", obj)
            added.append((obj, nm))
    M._all_marked = objs
    M._sweep_marked = True        # from now on (this process) a sweep look-up served by a stock object identifies it too
    return added


def unmark_all(M, added):
    for obj, nm in added:
        obj.__dict__.pop(nm, None)
    M._all_marked = None


def _c17_token(M, r):
    return M.token(r[1]) if isinstance(r, tuple) and len(r) == 2 and r[0] == "c17" else None


def lstatic(M):
    """use_static_dispatch() under attribute-access logging: ('fetched', token of the object EVERY name was fetched from | None
    when nothing was logged = a stock object)"""
    names, tab = all_names(M)
    _ACCESS.log = log = []
    try:
        M.mgr.use_static_dispatch()
    finally:
        _ACCESS.log = None
    served = {}
    for (o, n) in log:
        served.setdefault(n, o)
    objs = {id(o): o for n, o in served.items() if n in names}
    if not objs:
        return ("fetched", None)
    if len(objs) == 1 and all(n in served for n in names):
        return ("fetched", M.token(list(objs.values())[0]))
    return ("fetched", ("?", f"{len(objs)} objects, {sum(1 for n in names if n not in served)} names not fetched"))


def identify_static(M, nm, v):
    """which backend object does a statically bound value come from?  token | 'unknown' (a bare library function that
    every backend shares cannot be told apart)"""
    if isinstance(v, tuple) and len(v) == 2 and v[0] == "c17":
        return M.token(v[1])
    me = getattr(v, "__self__", None)
    if me is not None and M.token(me)[0] != "?":
        return M.token(me)
    cands = list(getattr(M, "_all_marked", None) or (list(M.pool) + [obj for (_, obj) in M.marked.values()]))
    toks = set()
    for o in cands:
        try:
            w = object.__getattribute__(o, nm)
        except Exception:  # noqa
            continue
        if w is v or (type(w) is type(v) and (hasattr(w, "__self__") or isinstance(w, tuple)) and w == v):
            toks.add(M.token(o))
    return toks.pop() if len(toks) == 1 else "unknown"


def lcall(M, op):
    names, tab = all_names(M)
    nm, route = names[op[4]], op[3]
    isfun = tab[op[4]] % 2 == 1
    if len(op) > 5 and op[5] and not (route == 1 and isfun and tab[op[4]] >= 4):
        # static dispatch is in force and the route does not go through an import-time closure: no look-up happens at call time
        try:
            v = getattr(M.mgr if route in (0, 1) else (M.cls if route == 2 else M.lib_alias()), nm) if not (route == 1 and not M.tenalg) \
                else getattr(M.top_obj, nm)
        except AttributeError:
            return ("err",)
        tok = identify_static(M, nm, v)
        return ("unk",) if tok == "unknown" else ("ran" if isfun else "val", tok)
    _ACCESS.log = log = []
    try:
        try:
            if route == 0:
                v = getattr(M.mgr, nm)
            elif route == 2:
                v = getattr(M.cls, nm)
            elif route == 3:
                v = getattr(M.lib_alias(), nm)
            else:
                v = getattr(M.top_obj if not M.tenalg else M.mgr, nm)
        except AttributeError:
            return ("err",)
        said = None
        if isfun and callable(v):
            try:
                said = _c17_token(M, v())             # the look-up of the implementation happens before the call fails
            except Exception:  # noqa
                pass
        elif not isfun:
            said = _c17_token(M, v)
    finally:
        _ACCESS.log = None
    hit = [o for (o, n) in log if n == nm]
    if hit and said is not None and M.token(hit[0]) != said:
        return ("ran" if isfun else "val", ("?", "logged object and self-identifying implementation disagree"))
    return ("ran" if isfun else "val", M.token(hit[0]) if hit else said)


def sweep_history(rng, m):
    M = Mgr.get(m)
    names, tab = all_names(M)
    valid = [("o", k) for k in range(len(M.pool))] + [("n", k) for k in M.names if M.sel_valid(("n", k))]
    h, depth = [], {1: 0, 2: 0}
    for _ in range(rng.randint(1, 5)):
        t = rng.choice([1, 2])
        if depth[t] and rng.random() < 0.3:
            depth[t] -= 1
            h.append(("exit", t, m, rng.random() < 0.5))
            continue
        kind = rng.choice(["set", "enter"])
        if kind == "enter":
            depth[t] += 1
        h.append((kind, t, m, rng.choice(valid), rng.random() < 0.5))
    static = rng.random() < 0.5
    if static:
        # use_static_dispatch by an actor (preferably one holding a selection), then further selections that must NOT show
        h.append(("lstatic", rng.choice([o[1] for o in h if o[0] in ("set", "enter")] or [1]), m))
        for _ in range(rng.randint(0, 2)):
            h.append(("set", rng.choice([1, 2]), m, rng.choice(valid), rng.random() < 0.5))
    for t in (1, 2, 3):
        for n, bits in enumerate(tab):
            routes = [0, 1] if bits % 2 == 1 else ([0] if bits >= 4 else [0, 1])     # an attribute bound at import: manager module only
            routes += [rng.choice([2, 3])]
            for r in routes:
                h.append(("lcall", t, m, r, n, static))
    return tuple(h)


def encode_sweep(m, nthreads, history, outs):
    M = Mgr.get(m)
    names, tab = all_names(M)
    ds = [11, m, nthreads, 1, len(tab) // 64, len(tab) % 64] + tab + [len(history) // 64, len(history) % 64]
    for op, res in zip(history, outs):
        k = op[0]
        if k in ("set", "enter"):
            ds += [0 if k == "set" else 1, op[1], SELKIND[op[3][0]], 0, op[3][1], int(op[4])]
        elif k == "exit":
            ds += [2, op[1], int(op[3]), 0, 0, 0]
        elif k == "lstatic":
            ds += [3, op[1], 0, 0, 0, 0]
        else:
            ds += [7, op[1], op[3], op[4] // 64, op[4] % 64, 0]
        if res[0] == "sel":
            ds += [0, OUTCOME.get(res[1], 3)]
        elif res[0] == "fetched":
            ds += [6, tok_digit(res[1])]
        elif res[0] == "unk":
            ds += [5, 0]
        elif res[0] in ("ran", "val"):
            ds += [DOUT[res[0]], tok_digit(res[1])]
        else:
            ds += [DOUT[res[0]], 0]
    assert all(0 <= d < 64 for d in ds), [d for d in ds if not 0 <= d < 64]
    return ds


def predicates_sweep(m, nthreads, history, outs):
    """C17_dispatch_follows_view / _attribute_follows_view / _class_attribute_follows_view / _library_route for EVERY dispatched name"""
    M = Mgr.get(m)
    names, tab = all_names(M)
    own = {t: None for t in range(nthreads)}
    own[0] = ("n", 0)
    default = ("n", 0)
    stack = {t: [] for t in range(nthreads)}
    fails = []
    frozen = None

    strict = bool(getattr(M, "_sweep_marked", False))     # every implementation identifies its object: "unidentified" is no answer

    def shows(res, tok, nm=None):
        return res[1] == tok or (res[1] is None and tok[0] == "n" and tok[1] in M.stock
                                 and not (strict and res[0] in ("ran", "val") and nm != "backend_name"))
    for i, (op, res) in enumerate(zip(history, outs)):
        k, t = op[0], op[1]
        cur = own[t] if own[t] is not None else default
        if k == "lstatic":
            frozen = cur
            if res[0] != "fetched" or not shows(res, cur):
                fails.append(("C17_static_dispatch_frozen", i, f"use_static_dispatch() by thread {t} fetched the dispatched names from {res}, expected "
                              f"every name from its current backend {cur}"))
            continue
        if k == "lcall" and frozen is not None and not (op[3] == 1 and tab[op[4]] % 2 == 1 and tab[op[4]] >= 4):
            isfun = tab[op[4]] % 2 == 1
            if res[0] == "unk" and strict and names[op[4]] != "backend_name":
                fails.append(("C17_static_dispatch_frozen" if isfun else "C17_static_dispatch_frozen_attributes", i,
                              f"static dispatch frozen on {frozen}: what thread {t} finds under {names[op[4]]!r} through the {ROUTES[op[3]]} belongs to no known backend object"))
                continue
            if res[0] != "unk" and not (res[0] == ("ran" if isfun else "val") and shows(res, frozen, names[op[4]])):
                fails.append(("C17_static_dispatch_frozen" if isfun else "C17_static_dispatch_frozen_attributes", i,
                              f"static dispatch frozen on {frozen}: thread {t} reached {names[op[4]]!r} through the {ROUTES[op[3]]}: served by {res}"))
            continue
        if k in ("set", "enter") and res == ("sel", "done"):
            if k == "enter":
                stack[t].append((cur, op[4]))
            own[t] = ("n", op[3][1]) if op[3][0] == "n" else ("o", op[3][1])
            if not op[4]:
                default = own[t]
        elif k == "exit" and stack[t]:
            old, loc = stack[t].pop()
            own[t] = old
            if not loc:
                default = old
        elif k == "lcall":
            isfun = tab[op[4]] % 2 == 1
            ok = res[0] == ("ran" if isfun else "val") and (res[1] == cur or (res[1] is None and (cur[0] == "n" and cur[1] in M.stock) and not (strict and names[op[4]] != "backend_name")))
            if cur[0] == "n" and cur[1] not in M.stock and res[0] != "err" and res[1] is not None and res[1][0] == "n":
                ok = res[1] == cur
            if not ok:
                fails.append(("C17_dispatch_follows_view" if isfun else "C17_dispatch_attribute_follows_view", i,
                              f"thread {t}{' (started at this moment)' if t == nthreads - 1 else ''} reached {names[op[4]]!r} through the {ROUTES[op[3]]}: "
                              f"served by {res}, expected its current backend {cur}"))
    return fails


def drive_sweep(m, history, nthreads=4):
    """like drive_dispatch (threads 1, 2 act; thread 3 = a thread started at that moment)"""
    M = Mgr.get(m)
    workers = {}
    for t in (1, 2):
        w = ManualWorker(m, t)
        w.caps = []
        w.start()
        workers[t] = w
    outs, last = [], None
    try:
        for op in history:
            t = op[1]
            if t == nthreads - 1:
                if last is None:
                    res = lcall(M, op)
                else:
                    res = workers[last].call(("lspawn", op))
            else:
                res = workers[t].call(("d", op))
                last = t
            if isinstance(res, tuple) and res and res[0] == "harness-error":
                raise HarnessStuck(str(res))
            outs.append(res)
        return outs
    finally:
        for w in workers.values():
            w.q.put(("stop",))
        for w in workers.values():
            if w.thread is not None:
                w.thread.join(timeout=TIMEOUT)
        try:
            M.mgr.use_dynamic_dispatch()
        except Exception:  # noqa
            pass


def _sweep_job(m, histories):
    Ms = Mgr.both()
    out = []
    for h in histories:
        for X in Ms:
            X.reset()
        added = mark_all(Ms[m])
        try:
            outs = drive_sweep(m, h)
        finally:
            unmark_all(Ms[m], added)
        fails = predicates_sweep(m, 4, h, outs)
        out.append((pack(encode_sweep(m, 4, h, outs)), fails[0] if fails else None,
                    [f"{'tenalg' if m else 'backend'}.sweep-all-names{'-static' if any(o[0] == 'lstatic' for o in h) else ''}:"
                     f"{sum(1 for r in outs if r[0] == 'unk')} of {len([o for o in h if o[0] == 'lcall'])} look-ups unidentifiable"]))
    for X in Ms:
        X.reset()
    return out, None


# ----------------------------------------------------------------------------- the metadata of the closure (Model: wst / wop)
# ("set"|"enter", t, m, sel, local) | ("exit", t, m, exn) | ("wdyn", t, m) | ("wcap", t, m, top) | ("wunc", t, m, k)
# | ("wun", t, m, top) | ("wcall", t, m, top); the closure of M.fn (context / outer); thread 0 = main (no selections)
def w_obj(M, top):
    return getattr(M.top_obj if top else M.mgr, M.fn)


def w_eval(M, op, caps):
    k = op[0]
    try:
        if k == "wdyn":
            M.mgr.use_dynamic_dispatch()
            return ("none",)
        if k == "wcap":
            caps.append(w_obj(M, op[3]))
            return ("none",)
        if k == "wunc":
            if op[3] >= len(caps):
                return ("err",)
            r = caps[op[3]].__wrapped__(*M.args)
        elif k == "wun":
            r = w_obj(M, op[3]).__wrapped__(*M.args)
        else:
            r = w_obj(M, op[3])(*M.args)
        if isinstance(r, tuple) and len(r) == 2 and r[0] == "c17":
            return ("ran", M.token(r[1]))
        return ("ran", None)                       # an unmarked (stock class) method ran
    except Exception as e:  # noqa
        return ("ran", ("?", "raised " + repr(e)[:60]))


def metadata_mismatches(M):
    """__module__ / __name__ / __qualname__ / __doc__ / __annotations__ and the signature (minus `self`) of EVERY dispatch closure
    of the manager must be those of the method it was made with (f.__wrapped__): they come from one and the same object, so
    C17_closure_metadata_static speaks about all of them (a test; which object __wrapped__ IS, is compared with the model)"""
    import inspect
    bad = []
    for name in dict.fromkeys(getattr(M.cls, "_functions", [])):
        try:
            f = getattr(M.mgr, name)
        except AttributeError:
            continue
        w = getattr(f, "__wrapped__", None)
        if w is None:
            bad.append((name, "no __wrapped__"))
            continue
        for a in ("__module__", "__name__", "__qualname__", "__doc__", "__annotations__"):
            try:
                expected = getattr(w, a)
            except AttributeError:
                continue
            if getattr(f, a, None) != expected:
                bad.append((name, a))
        try:
            sw = inspect.signature(w)
        except (ValueError, TypeError):
            continue
        try:
            if [k for k in sw.parameters if k != "self"] != list(inspect.signature(f).parameters):
                bad.append((name, "signature"))
        except (ValueError, TypeError):
            bad.append((name, "signature unreadable"))
    return bad


def drive_meta(m, history, nthreads=3):
    M = Mgr.get(m)
    caps = []
    drive_meta.mismatch = []
    M.mgr.use_dynamic_dispatch()                   # the class closures are (re-)made by the main thread on the default backend
    workers = {}
    for t in range(1, nthreads):
        w = ManualWorker(m, t)
        w.caps = caps
        w.start()
        workers[t] = w
    outs = []
    try:
        for op in history:
            res = w_eval(M, op, caps) if op[1] == 0 else workers[op[1]].call(("d", op))
            if isinstance(res, tuple) and res and res[0] == "harness-error":
                raise HarnessStuck(str(res))
            outs.append(res)
        return outs
    finally:
        for w in workers.values():
            w.q.put(("stop",))
        for w in workers.values():
            if w.thread is not None:
                w.thread.join(timeout=TIMEOUT)
        try:
            drive_meta.mismatch = metadata_mismatches(M)      # the closures as the history left them (re-made by whoever called use_dynamic_dispatch)
        except Exception as e:  # noqa
            drive_meta.mismatch = [("metadata probe raised", repr(e)[:80])]
        for X in Mgr.both():
            X.reset()
        M.mgr.use_dynamic_dispatch()


def random_whistory(rng, m, maxlen):
    M = Mgr.get(m)
    valid = [("o", k) for k in range(len(M.pool))] + [("n", k) for k in M.names if M.sel_valid(("n", k))]
    depth = {1: 0, 2: 0}
    h, ncaps = [], 0
    for _ in range(rng.randint(3, maxlen)):
        r = rng.random()
        if r < 0.3:
            t = rng.choice([1, 2])
            if depth[t] and rng.random() < 0.35:
                depth[t] -= 1
                h.append(("exit", t, m, rng.random() < 0.4))
                continue
            kind = rng.choice(["set", "set", "enter"])
            if kind == "enter":
                depth[t] += 1
            h.append((kind, t, m, rng.choice(valid), rng.random() < 0.65))
        elif r < 0.4:
            h.append(("wdyn", rng.choice([1, 2]), m))
            h.append(("wun", rng.choice([0, 1, 2]), m, False))
        elif r < 0.52:
            h.append(("wcap", rng.choice([0, 1, 2]), m, rng.random() < 0.5))
            ncaps += 1
        elif r < 0.65 and ncaps:
            h.append(("wunc", rng.choice([0, 1, 2]), m, rng.randrange(ncaps)))
        elif r < 0.85:
            h.append(("wun", rng.choice([0, 1, 2]), m, rng.random() < 0.5))
        else:
            h.append(("wcall", rng.choice([0, 1, 2]), m, rng.random() < 0.5))
    return tuple(h)


def encode_meta(m, nthreads, history, outs):
    ds = [12, m, nthreads, 1, len(history) // 64, len(history) % 64]
    for op, res in zip(history, outs):
        k = op[0]
        if k in ("set", "enter"):
            ds += [0 if k == "set" else 1, op[1], SELKIND[op[3][0]], op[3][1], int(op[4])]
        elif k == "exit":
            ds += [2, op[1], int(op[3]), 0, 0]
        elif k == "wdyn":
            ds += [3, op[1], 0, 0, 0]
        else:
            ds += [{"wcap": 4, "wunc": 5, "wun": 6, "wcall": 7}[k], op[1], int(op[3]), 0, 0]
        if res[0] == "sel":
            ds += [0, OUTCOME.get(res[1], 3)]
        elif res[0] == "ran":
            ds += [2, tok_digit(res[1])]
        else:
            ds += [DOUT[res[0]], 0]
    assert all(0 <= d < 64 for d in ds), ds
    return ds


def predicates_meta(m, nthreads, history, outs):
    """C17_closure_metadata_static / _top_static / _remade / C17_closure_call_follows_view on the implementation's outcomes"""
    M = Mgr.get(m)
    own = {t: None for t in range(nthreads)}
    own[0] = ("n", 0)
    default = ("n", 0)
    stack = {t: [] for t in range(nthreads)}
    made_cls, made_top, caps = ("n", 0), ("n", 0), []
    fails = []

    def shows(res, tok):
        return res[0] == "ran" and (res[1] == tok or (res[1] is None and tok[0] == "n" and tok[1] in M.stock))
    for i, (op, res) in enumerate(zip(history, outs)):
        k, t = op[0], op[1]
        cur = own[t] if own[t] is not None else default
        if k in ("set", "enter"):
            if res == ("sel", "done"):
                if k == "enter":
                    stack[t].append((cur, op[4]))
                own[t] = ("n", op[3][1]) if op[3][0] == "n" else ("o", op[3][1])
                if not op[4]:
                    default = own[t]
        elif k == "exit":
            if stack[t]:
                old, loc = stack[t].pop()
                own[t] = old
                if not loc:
                    default = old
        elif k == "wdyn":
            made_cls = cur
        elif k == "wcap":
            caps.append(made_top if op[3] else made_cls)
        else:
            exp = caps[op[3]] if k == "wunc" else ((made_top if op[3] else made_cls) if k == "wun" else cur)
            if not shows(res, exp):
                pred = "C17_closure_call_follows_view" if k == "wcall" else "C17_closure_metadata_static"
                fails.append((pred, i, f"thread {t}: {k} ({'import-time binding' if (k != 'wunc' and op[3]) else 'manager module' if k != 'wunc' else 'captured reference ' + str(op[3])}) "
                              f"ran on {res}, expected {exp} (class closures made with {made_cls}, caller's backend {cur})"))
    return fails


def wop_lit(op):
    if op[0] in ("set", "enter", "exit"):
        return "WSel " + op_lit(op).split(", ", 1)[1][:-1]
    return {"wdyn": "WDynamic {1}", "wcap": "WCapture {1} {3}", "wunc": "WUnwrapCap {1} {3}", "wun": "WUnwrap {1} {3}", "wcall": "WCall {1} {3}"}[op[0]].format(*(list(op) + [None]))


def _meta_job(m, histories):
    Ms = Mgr.both()
    out = []
    for h in histories:
        for X in Ms:
            X.reset()
        outs = drive_meta(m, h)
        fails = predicates_meta(m, 3, h, outs)
        if drive_meta.mismatch:
            fails.append(("C17_closure_metadata_static", len(h) - 1, f"metadata of dispatch closures differs from that of their __wrapped__ method: {drive_meta.mismatch[:6]}"))
        out.append((pack(encode_meta(m, 3, h, outs)), fails[0] if fails else None,
                    [f"{'tenalg' if m else 'backend'}.{op[0]}:{res[0]}" for op, res in zip(h, outs) if op[0].startswith("w")]))
    for X in Ms:
        X.reset()
    return out, None


# ----------------------------------------------------------------------------- pool jobs
def _pool_job(job):
    """executed in a pool process (in its main thread): drives the histories and digests the results there:
    per history (case literal without id, first predicate failure | None, [operation:outcome ...]);
    plus, for the first history, a copy of its literal with ONE observation altered (sentinel) and a sample"""
    mode, main_actor, nthreads, histories = job
    if mode == 11:
        return _rebind_job(histories[0])
    if mode in (12, 13):
        return _reg_job(mode - 12, histories)
    if mode in (14, 15):
        return _sweep_job(mode - 14, histories)
    if mode in (16, 17):
        return _meta_job(mode - 16, histories)
    if mode in (18, 19):
        return _abort_job(mode - 18, histories)
    if mode in (21, 22):
        return _chain_job(mode - 21, histories)
    if mode in (8, 9):
        return _dispatch_job(mode - 8, histories)
    if mode >= 3 and mode != 7:
        return _micro_job(mode - 3, histories)
    if mode == 7:                      # both managers, contexts left in any order across the managers
        results = run_histories_manual(nthreads, histories)
        mode = 2
    else:
        results = run_histories(mode, main_actor, nthreads, histories)
    out = []
    for h, r in zip(histories, results):
        ds = encode(mode, True, nthreads, h, r)
        fails = predicates(mode, nthreads, h, r)
        outs = []
        for op, (res, _) in zip(h, r[1]):
            outs.append(f"{'tenalg' if op[2] else 'backend'}.{op[0]}{'/local' if op[0] != 'exit' and op[4] else ''}"
                        f"{'/exception' if op[0] == 'exit' and op[3] else ''}:{res}")
        out.append((pack(ds), fails[0] if fails else None, outs))
    extra = None
    if histories:
        h, r = histories[0], results[0]
        ds = encode(mode, True, nthreads, h, r)
        ds[-1] = (ds[-1] + 1) % 64          # the executing object seen last by the last thread becomes another one
        Ms = Mgr.both()
        sample = {"mode": ["tensorly.backend", "tensorly.tenalg", "both managers"][mode], "threads": nthreads,
                  "main_thread_acts": main_actor, "history": [op_lit(o) for o in h],
                  "observed_after_each_step": [[[(Ms[m].names.get(o[m][0], o[m][0]), o[m][1]) for m in (0, 1) if o[m] is not None]
                                                for o in obs] for _, obs in r[1]]}
        extra = (pack(ds), sample)
    return out, extra


def _micro_job(m, scenarios):
    Ms = Mgr.both()
    out, nlines = [], 0
    CHECK_DNAME[0] = False
    for sc in scenarios:
        for M in Ms:
            M.reset()
        r = drive_micro(m, sc)
        nlines += r[4]
        fails = predicates_micro(m, sc, r)
        out.append((pack(encode_micro(m, sc, r)), fails[0] if fails else None,
                    [f"{'tenalg' if m else 'backend'}.concurrent({sc[5] if len(sc) > 5 else 'line'}) {sc[1][0]}|{sc[2][0]}{'|' + sc[6][0] if len(sc) > 6 else ''}:{r[0]}|{r[1]}{'|' + r[5] if len(sc) > 6 else ''}"]))
    for M in Ms:
        M.reset()
    CHECK_DNAME[0] = True
    return out, None


def execute(groups, nproc):
    """run all groups in a fork pool (every process has its own main thread and managers)"""
    import multiprocessing as mp
    jobs, index = [], []
    for gi, g in enumerate(groups):
        hs = g[3]
        step = max(50, min(600, (len(hs) + nproc - 1) // nproc))
        for k in range(0, len(hs), step):
            jobs.append((g[0], g[1], g[2], hs[k:k + step]))
            index.append((gi, k))
    results = [[None] * len(g[3]) for g in groups]
    extras = []
    if nproc <= 1:
        outs = [_pool_job(j) for j in jobs]
    else:
        ctx = mp.get_context("fork")
        with ctx.Pool(nproc) as pool:
            outs = pool.map(_pool_job, jobs, chunksize=1)
    for (gi, k), (out, extra) in zip(index, outs):
        results[gi][k:k + len(out)] = out
        extras.append((gi, k, extra))
    return results, extras


# ----------------------------------------------------------------------------- run
def make_groups(tier, rng):
    """returns list of (mode, main_actor, nthreads, [histories], tag)"""
    Ms = Mgr.both()
    groups = []
    quick = tier == "quick"
    for m in (0, 1):
        M = Ms[m]
        sels = SEL_EXH if M.names_registered else [("o", 0), ("o", 1), ("n", 4)]
        # workers 1 and 2 act, the main thread (holding the import-time selection) observes
        groups.append((m, False, 3, exhaustive([1, 2], [m], sels, 3), "exhaustive-3"))
        if not quick:
            small = SEL_SMALL if M.names_registered else [("o", 1), ("n", 4)]
            groups.append((m, False, 3, exhaustive([1, 2], [m], small, 4, first_thread=1), "exhaustive-4-small-alphabet"))
        # the main thread acts as well: all histories of length 2 (thorough: 3) over main + one worker
        groups.append((m, True, 2, exhaustive([0, 1], [m], sels, 2), "exhaustive-main"))
        nr = 1000 if quick else 5000
        ml = 12 if quick else 40
        groups.append((m, True, 3, [random_history(rng, [0, 1, 2], [m], ml) for _ in range(nr)], "random-3-main"))
        groups.append((m, False, 4, [random_history(rng, [1, 2, 3], [m], ml) for _ in range(nr // 3)], "random-3-workers"))
    # both managers in one history, every thread observes both after every step
    groups.append((2, True, 2, exhaustive([0, 1], [0, 1], SEL_SMALL, 2), "mixed-exhaustive-2"))
    if not quick:
        groups.append((2, False, 3, exhaustive([1, 2], [0, 1], SEL_SMALL, 3, first_thread=1), "mixed-exhaustive-3"))
    nr = 1200 if quick else 5000
    groups.append((2, True, 3, [random_history(rng, [0, 1, 2], [0, 1], 12 if quick else 30) for _ in range(nr)], "mixed-random-3-main"))
    # two concurrent calls under line-granular schedules (sys.settrace turn taking), then the exits one at a time
    for m in (0, 1):
        groups.append((3 + m, False, 4, [random_scenario(rng, m) for _ in range(300 if quick else 4000)], "concurrent-pair-schedules"))
        groups.append((3 + m, False, 4, systematic_scenarios(m), "concurrent-pair-bytecode-sweep"))
        groups.append((3 + m, False, 5, [random_scenario3(rng, m) for _ in range(150 if quick else 2000)], "concurrent-triple-schedules"))
    # both managers, contexts entered / left through the context-manager protocol: a context of one manager may be
    # left while a later context of the other manager is still live (C17_restore_mixed)
    groups.append((7, False, 4, [nonlifo_history(rng, 10 if quick else 24) for _ in range(300 if quick else 1500)], "mixed-nonlifo-contexts"))
    # the dispatch layer: every route to a dispatched name, references captured before a switch and called by other
    # threads, threads started inside contexts, use_static_dispatch / use_dynamic_dispatch (Model/BackendDispatch.v)
    for m in (0, 1):
        groups.append((8 + m, False, 4, systematic_dhistories(m) + [random_dhistory(rng, m, 14 if quick else 40) for _ in range(200 if quick else 2500)],
                       "dispatch-routes"))
        groups.append((8 + m, False, 4, exhaustive_dhistories(m, 3), "dispatch-exhaustive-3"))
        groups.append((11, False, 2, [(m, tuple(rebind_positions(rng, quick)))], "rebind-window"))
        groups.append((16 + m, False, 3, [random_whistory(rng, m, 12 if quick else 30) for _ in range(100 if quick else 1000)], "closure-metadata"))
        groups.append((14 + m, False, 4, [sweep_history(rng, m) for _ in range(6 if quick else 60)], "sweep-all-names"))
        groups.append((12 + m, False, 3, [random_rhistory(rng, m, 12 if quick else 30) for _ in range(120 if quick else 1500)], "register-backend-method"))
        # calls that do not run to completion: interrupted at every source line (abort), raising by themselves (nameless instance)
        groups.append((18 + m, False, 3, systematic_abort(m) + [random_abort(rng, m) for _ in range(150 if quick else 3000)], "interrupted-and-raising-calls"))
        # the same call shapes, each interrupted at EVERY position in turn: the observed states must form ONE growing execution
        groups.append((21 + m, False, 3, chain_items(m), "interrupted-step-by-step"))
    return groups


def corpus_histories():
    import json
    d = os.path.join(C.VERIF, "corpus", "C17")
    out = []
    if os.path.isdir(d):
        for fn in sorted(os.listdir(d)):
            if fn.endswith(".json"):
                e = json.load(open(os.path.join(d, fn)))
                mode = int(e["mode"])
                out.append((mode, bool(e["main_actor"]), int(e["nthreads"]),
                            dhist_from_json(e["history"]) if mode in (8, 9) else hist_from_json(e["history"])))
    return out


def hist_to_json(h):
    return [list(op[:3]) + ([list(op[3]), op[4]] if op[0] != "exit" else [op[3]]) for op in h]


def hist_from_json(j):
    return tuple((o[0], int(o[1]), int(o[2]), (o[3][0], int(o[3][1])), bool(o[4])) if o[0] != "exit"
                 else (o[0], int(o[1]), int(o[2]), bool(o[3])) for o in j)


def scenario_to_json(sc):
    setup, opA, opB, post, schedule = sc[:5]
    return {"setup": hist_to_json(setup), "a": hist_to_json([opA])[0], "b": hist_to_json([opB])[0],
            "post": hist_to_json(post), "schedule": list(schedule), "granularity": sc[5] if len(sc) > 5 else "line",
            "c": hist_to_json([sc[6]])[0] if len(sc) > 6 else None}


def scenario_from_json(j):
    return (hist_from_json(j["setup"]), hist_from_json([j["a"]])[0], hist_from_json([j["b"]])[0],
            hist_from_json(j["post"]), tuple(int(x) for x in j["schedule"]), j.get("granularity", "line")) \
        + ((hist_from_json([j["c"]])[0],) if j.get("c") else ())


ENTRY = {0: "tensorly.set_backend/backend_context", 1: "tensorly.tenalg.set_backend/backend_context",
         2: "tensorly.set_backend/backend_context + tensorly.tenalg.set_backend/backend_context",
         7: "tensorly.set_backend/backend_context + tensorly.tenalg.set_backend/backend_context",
         8: "tensorly.<dispatched name> / tensorly.backend.<dispatched name> / use_static_dispatch",
         9: "tensorly.tenalg.<dispatched name> / use_static_dispatch"}


def run(chk):
    rng = random.Random(chk.seed)
    chk.build_proofs()
    C.reset_backends()
    init_procs = init_launch()           # fresh processes importing tensorly under TENSORLY_BACKEND / TENSORLY_TENALG_BACKEND
    t0 = time.time()
    groups = make_groups(chk.tier, rng)
    for (mode, main_actor, nthreads, h) in corpus_histories():
        groups.insert(0, (mode, main_actor, nthreads, [h], "corpus"))
    nproc = max(1, min(16, C.NPROC))
    results, extras = execute(groups, nproc)
    t_impl = time.time() - t0
    try:
        hw_fails, hw_notes = halfway_import_probe()
        chk.cov["halfway_import_probes"] = len(hw_notes)
        chk.hist("group", "both:halfway-import-probe")
        retried = sorted({n.split(": ", 1)[1] for n in hw_notes if ": first attempt" in n})
        chk.notes.append("a backend whose module fails half-way through its import (after registering its class): the selection is rejected with nobody's "
                         f"backend changed (judged); observed sequence(s): {retried} - a retry finds the class registered and succeeds (recorded, not a C17 matter)")
        for (pred, msg, inputs) in hw_fails:
            chk.finding(ABORT_ENTRY, inputs, msg, pred)
    except Exception as e:  # noqa
        chk.cov["halfway_import_probes"] = f"not evaluated ({e!r})"
    for M in Mgr.both():
        M.reset()
        M.unmark()
    # sentinels: copies of real cases with ONE observation altered must be reported as failing; they come FIRST so
    # that they stay inside the (capped) list of disagreeing ids of their shard
    cases, meta, found = [], [], []
    sentinels = []
    picks = [e for e in extras if e[2]]
    chosen = [picks[0], picks[len(picks) // 2], picks[-1]] if picks else []
    for mode_ in (8, 9):                     # one altered dispatch history per manager
        dp = [e for e in picks if groups[e[0]][0] == mode_]
        if dp and dp[0] not in chosen:
            chosen.append(dp[0])
            chk.sample(dp[0][2][1])
    for (gi, k, extra) in chosen:
        sentinels.append(len(cases))
        cases.append(f"({len(cases)}, {extra[0]})")
        meta.append(None)
    for g, res in zip(groups, results):
        mode, main_actor, nthreads, hs, tag = g
        gname = {0: "backend:", 1: "tenalg:", 2: "both:", 3: "backend:", 4: "tenalg:", 7: "both:", 8: "backend:", 9: "tenalg:", 11: "both:", 12: "backend:", 13: "tenalg:", 14: "backend:", 15: "tenalg:", 16: "backend:", 17: "tenalg:", 18: "backend:", 19: "tenalg:", 21: "backend:", 22: "tenalg:"}[mode] + tag
        for h, (lit, fail, outs) in zip(hs, res):
            cid = len(cases)
            cases.append(f"({cid}, {lit})")
            meta.append((mode, main_actor, nthreads, h, tag))
            if mode in (21, 22):
                ops, nontrivial = list(h[1]) + [h[2]], True
            elif mode in (18, 19):
                ops = list(h[1]) + [h[2]] + list(h[5])
                nontrivial = h[3] in (1, 2) or any(o[0] != "exit" and o[3] == NAMELESS for o in ops)
            elif mode in (16, 17):
                ops = h
                nontrivial = any(op[0] == "wdyn" for op in h) and any(op[0] in ("set", "enter") for op in h)
            elif mode in (14, 15):
                ops, nontrivial = h, True
            elif mode in (12, 13):
                ops = h
                nontrivial = any(op[0] == "reg" for op in h) and len({op[1] for op in h}) > 1
            elif mode == 11:
                ops, nontrivial = [h], True
            elif mode in (8, 9):
                ops = h
                nontrivial = any(op[0] in ("set", "enter") for op in h) and any(op[0] in ("callcap", "static") for op in h)
            elif mode in (3, 4):
                ops = list(h[0]) + [h[1], h[2]] + list(h[3])
                nontrivial = any(op[0] != "set" for op in (h[1], h[2]))
            else:
                ops = h
                nontrivial = len({op[1] for op in h}) > 1 and any(op[0] == "enter" for op in h)
            chk.count(key=(mode, main_actor, h), nontrivial=nontrivial)
            chk.hist("group", gname)
            chk.hist("length", len(ops))
            for o in outs:
                chk.hist("operation", o)
            if fail is not None:
                # must-report findings (the rebind sweep, a raising call that changed the caller's backend) sort first: the list is capped at 60
                found.append(((len(h) if mode not in (18, 19) else (0 if fail[0] == "C17_rejection" else len(h[1]) + len(h[5]))) if mode != 11 else 0, cid, fail))
    # shortest failing histories first; every finding carries the prefix of the history up to the failing step
    found.sort()
    for (_, cid, (pred, i, msg)) in found[:60]:
        mode, main_actor, nthreads, h, tag = meta[cid]
        if mode == 11:
            gran, k = h[1][i] if i < len(h[1]) else ("line-before-end", 1 + 2 * (i - len(h[1])))
            chk.finding("use_dynamic_dispatch", {"mode": 11, "manager": h[0], "granularity": gran, "stopped_after": k}, msg, pred)
            continue
        if mode in (18, 19):
            chk.finding(ABORT_ENTRY, {"mode": mode, "scenario": abort_to_json(h)},
                        f"{('a call interrupted before ' + ('source line ' if h[3] == 1 else 'bytecode ') + str(h[4])) if h[3] else 'a call raising by itself'}: {msg}", pred)
            continue
        if mode in (16, 17):
            chk.finding("dispatch_backend_method (closure metadata)", {"mode": mode, "history": dhist_to_json(h[:i + 1])}, f"step {i} ({wop_lit(h[i])}): {msg}", pred)
            continue
        if mode in (14, 15):
            chk.finding(ENTRY[mode - 6], {"mode": mode, "history": dhist_to_json(h[:i + 1])}, f"step {i}: {msg}", pred)
            continue
        if mode in (12, 13):
            chk.finding("register_backend_method", {"mode": mode, "history": dhist_to_json(h[:i + 1])}, f"step {i} ({rop_lit(h[i])}): {msg}", pred)
            continue
        if mode in (8, 9):
            chk.finding(ENTRY[mode], {"mode": mode, "history": dhist_to_json(h[:i + 1])},
                        f"step {i} ({dop_lit(h[i])}): {msg}", pred)
            continue
        if mode in (3, 4):
            chk.finding(ENTRY[mode - 3], {"mode": mode, "scenario": scenario_to_json(h)},
                        f"two concurrent calls under a line-granular schedule, follow-up step {i}: {msg}", pred)
            continue
        chk.finding(ENTRY[mode], {"mode": mode, "main_actor": main_actor, "nthreads": nthreads, "history": hist_to_json(h[:i + 1])},
                    f"step {i} ({op_lit(h[i]) if i >= 0 else 'start'}): {msg}", pred)
    if len(found) > 60:
        chk.notes.append(f"{len(found)} histories violate a predicate; the 60 shortest are reported")
    for (gi, k, extra) in extras[::max(1, len(extras) // 4)]:
        if extra:
            chk.sample(extra[1])
    # the programs extracted from the source of both manager classes
    src_ids = {}
    try:
        import tensorly as tl
        from tensorly.tenalg import TenalgBackendManager
        for m, cls in ((0, type(tl.backend)), (1, TenalgBackendManager)):
            try:
                progs = source_programs(cls)
            except Unsupported as e:
                chk.cov["source_programs_tie"] = f"BROKEN TIE ({cls.__name__}): {e}"
                chk.notes.append(f"source programs of {cls.__name__}: BROKEN TIE - a source shape the translator does not know ({e}); the micro-step "
                                 "reduction (C17_micro_atomic_generic) is then NOT tied to the current source, only the executed schedules are")
                chk.hist("group", ["backend:", "tenalg:"][m] + "source-programs-BROKEN-TIE")
                continue
            chk.cov.setdefault("source_programs_tie", "extracted")
            src_ids[len(cases)] = (m, progs)
            cases.append(f"({len(cases)}, {pack([4] + program_digits(progs))})")
            meta.append(None)
            chk.count(key=("source-programs", m), nontrivial=True)
            chk.hist("group", ["backend:", "tenalg:"][m] + "source-programs")
    except Exception as e:  # noqa
        chk.cov["source_programs_tie"] = f"BROKEN TIE: extraction failed ({e!r})"
        chk.notes.append(f"source programs: BROKEN TIE - extraction failed ({e!r})")
    # the dispatch expressions (closure, descriptor, current_backend, get_backend, use_dynamic_dispatch, import list)
    dsrc_id = None
    try:
        Ms = Mgr.both()
        dc = True
        try:
            dsd = dispatch_source_digits(Ms, dc)
            dsrc_id = len(cases)
            cases.append(f"({len(cases)}, {pack(dsd)})")
            meta.append(None)
            chk.count(key=("dispatch-source",), nontrivial=True)
            chk.hist("group", "both:dispatch-source")
            chk.cov["dispatch_source_tie"] = "extracted"
        except Unsupported as e:
            chk.cov["dispatch_source_tie"] = f"BROKEN TIE: {e}"
            chk.notes.append(f"dispatch expressions: BROKEN TIE - a source shape the translator does not know ({e}); the dispatch model is then tied "
                             "to the code by the executed dispatch histories only")
    except Exception as e:  # noqa
        chk.cov["dispatch_source_tie"] = f"BROKEN TIE: extraction failed ({e!r})"
        chk.notes.append(f"dispatch expressions: BROKEN TIE - extraction failed ({e!r})")
    # initialize_backend: the fresh processes launched at the start
    init_ids = {}
    try:
        inits, skipped = init_collect(init_procs)
        chk.cov["initialize_backend_processes_skipped"] = skipped
        for (ds, desc, fail) in inits:
            init_ids[len(cases)] = desc
            cases.append(f"({len(cases)}, {pack(ds)})")
            meta.append(None)
            chk.count(key=("initialize", desc["manager"], desc["env"]), nontrivial=desc["env"] is not None)
            chk.hist("group", ("tenalg:" if desc["manager"].endswith("tenalg") else "backend:") + "initialize-backend-env")
            if fail is not None:
                chk.finding("import tensorly (initialize_backend)", {"mode": 10, "manager": desc["manager"], "env": desc["env"]}, fail[1], fail[0])
    except Exception as e:  # noqa
        chk.notes.append(f"initialize_backend processes: not evaluated ({e!r})")
    t1 = time.time()
    failing, n_eval, broken = C.run_case_shards("C17", HEADER, "case", cases, shard=2500, timeout=900)
    # a shard killed by the shell timeout (overloaded machine) is "not evaluated", never an alarm: its cases are
    # counted as skipped (a run in which the FIRST shard, which holds the sentinels, is lost cannot vouch for the comparator)
    timed_out = [b for b in broken if b.get("rc") == 124]
    broken = [b for b in broken if b.get("rc") != 124]
    chk.cov["model_seconds"] = round(time.time() - t1, 1)
    chk.cov["shards_skipped_by_timeout"] = len(timed_out)
    for sid in sentinels:
        if sid not in failing and not broken and not timed_out:
            chk.broken.append({"what": "correspondence corr:C17 comparator did not flag an altered observation (sentinel)", "detail": cases[sid][:200]})
        failing.discard(sid)
    n_eval -= len(sentinels) if not (broken or timed_out) else 0
    try:
        import tensorly as tl
        static = sorted(a for a in getattr(tl.backend, "_attributes", []) if a in vars(tl) and a not in getattr(tl.backend, "_functions", []))
        if static:
            chk.notes.append("tensorly/__init__.py binds these dispatched ATTRIBUTES statically at import, so tensorly.<name> does not follow the "
                             "backend (tensorly.backend.<name> does): " + ", ".join(static) + ". Not judged: C17 speaks of dispatched functions "
                             "(see build/fix_candidates/C17_static_attributes.md)")
    except Exception:
        pass
    chk.checker_cmds.append("coqc (vm_compute) on generated build/cases/C17/*.v: Corr.C17.failing")
    chk.cov["traces_validated_against_impl"] = n_eval
    chk.cov["exhaustive"] = True
    chk.cov["impl_seconds"] = round(t_impl, 1)
    chk.cov["rule"] = ("for EACH manager: every feasible history of length 3 (all shorter ones are their prefixes and are observed on the way) over the "
                       "28-letter alphabet {set, enter} x {known name, instance, unknown name} x {global, local} + exit {normal, exception} of two worker threads "
                       "with the main thread observing (thorough adds length 4 over the 20-letter alphabet without the known name, up to renaming of the two workers: first operation by thread 1); every history of length 2 "
                       "over the main thread and one worker; random histories to length 12 (thorough: 40) over three actor threads with and without "
                       "the main thread among them, selectors: all names (stock, harness-registered, listed-but-not-importable, unknown, wrong case, a name of the "
                       "OTHER manager), four instances of two harness backend classes, two non-instances. BOTH managers in one history: every history of length 2 "
                       "(thorough: 3 over two workers, first operation by thread 1) over {main, worker} x {backend, tenalg} x {instance, unknown name}, random histories to length 12 (30) over "
                       "three threads incl. main, every thread observing both managers. Concurrent pairs: two calls (set / enter / exit) of threads 1 and 2 "
                       "interleaved at source-line granularity or (every second scenario) at BYTECODE granularity (f_trace_opcodes) by sys.settrace turn taking "
                       "(300 random scenario x schedule per manager, thorough 4000; plus a systematic sweep: 4 canonical pairs of non-local calls x one thread "
                       "stopped after k = 0..59 bytecodes; plus 150 (thorough 2000) scenarios of THREE concurrent calls), "
                       "outcome compared with the set of outcomes of all sequential orders of their blocks (conclusion of C17_micro_atomic). After EVERY operation EVERY thread reports get_backend() and the identity "
                       "of the object executing a dispatched call. Source programs: the acts of set_backend / backend_context / current_backend are extracted from the "
                       "current source (ast) for both manager classes and checked in Coq (effect-point discipline; block equivalence with the model's programs "
                       "decided by symbolic execution, a positive answer PROVED to mean equality on every state for every backend instance: C17_source_blocks_set / _enter / _exit). DISPATCH (Model/BackendDispatch.v), per manager: 8 systematic histories (every (route, name) captured by thread 1 before a "
                       "switch of thread 2 - set / context, local / global, with and without use_static_dispatch - then called by every thread incl. one STARTED "
                       "inside the context, through every route) + 200 (thorough 2500) random histories to length 14 (40) over {selections, use_static_dispatch, "
                       "use_dynamic_dispatch, capture, call captured, call} + EVERY feasible sequence of 3 letters (1393 / 1056 histories) of a 12-letter dispatch alphabet (tenalg 11: "
                       "4 selections of two threads, exit, use_static_dispatch by either, use_dynamic_dispatch, captures through each route) followed by a fixed suffix in which "
                       "thread 1 and a thread started at that moment use every captured reference and every (route, name) pair of two names; x routes {manager module, import-time binding / module __getattr__ (tensorly.<name>; for "
                       "tenalg: the name a library module imported), manager class} x names {2 functions, 2 attributes (backend only)}; every outcome (executing "
                       "object / object whose attribute was served / AttributeError) compared with the model; after each history without use_static_dispatch every actor "
                       "thread holding a harness backend runs LIBRARY code (tensorly.base.unfold, tenalg.mode_dot, tucker_to_tensor) under attribute-access logging. "
                       "300 (thorough 1500) random histories over BOTH managers with contexts driven through cm.__enter__ / cm.__exit__, left in any order across "
                       "the managers. Dispatch source: the look-up expressions of the dispatch closure, current_backend, get_backend, the attribute descriptor, what "
                       "use_dynamic_dispatch installs and the names bound at import are extracted from the current source (ast) and checked in Coq against the model's "
                       "parameters. REGISTER: 120 (thorough 1500) random histories per manager of selections, register_backend_method and calls of one dispatched name "
                       "(digamma / higher_order_moment) incl. a harness subclass that provides nothing under the name, compared with the model's class method table. "
                       "ALL NAMES: 6 (thorough 60) histories per manager ending in sweeps by two actor threads and a thread started at that moment over EVERY name of "
                       "_functions / _attributes through the manager module, tensorly.<name>, and the class or a library alias; the name tables are read off the source and "
                       "shipped to the model. REBIND: use_dynamic_dispatch under settrace stopped at 56 (thorough 147) positions - source lines 0..11, bytecodes 0..56 step 4, the last 40 lines of the call in steps of 2, random positions in the whole loop - "
                       "while another thread looks EVERY dispatched name up (model: window iff the loop has the delattr). METADATA: 100 (thorough 1000) random histories per manager of selections, use_dynamic_dispatch, captures and calls of "
                       "f.__wrapped__ / f for the closure of context / outer through the import-time binding and the manager module. INITIALIZE: `import tensorly` in 6 fresh processes under TENSORLY_BACKEND / TENSORLY_TENALG_BACKEND in {unset, default name, other loadable name, "
                       "unlisted name, wrong case, listed-but-not-importable}: outcome (imported / warned / import failed), get_backend() in the importing thread and in a new "
                       "thread, _default_backend compared with the model's `initialize`. INTERRUPTED / RAISING CALLS (Model/BackendAbort.v), per manager: 20 call shapes (set / enter by "
                       "instance and by name, global / local, from a fresh thread and from one holding a selection; exit of a global / local context, normal / by exception, "
                       "with and without a change of the shared default by another thread in between) x an exception raised from a trace function before source line "
                       "0..12 of the call (all lines of set_backend / backend_context / current_backend / the cache look-up), each followed by 4 atomic operations; 6 histories "
                       "with the NAMELESS instance Backend() / TenalgBackend() (set / enter, both flavours, exit of a later non-local context); 150 (thorough 3000) random "
                       "scenarios of both kinds; after the call and after every follow-up EVERY thread reports get_backend() (or that it raises) and the identity of "
                       "current_backend(); Coq: the state is that of SOME prefix of the call's acts (abort), resp. exactly exec_nl's. STEP BY STEP: each of the 20 line-granular and 7 bytecode-granular call shapes is interrupted at EVERY position in turn (13 lines / 55 bytecode positions) and Coq checks that the observed states are those of ONE growing set of the call's acts (inclusion of the executed sets; stages: exit resumed inside the try block < interrupted inside the call < entry's finally clause ran < completed). Non-trivial = at least two threads act and a context is entered; distinct key = (mode, "
                       "main-thread role, history). At most 40 disagreeing cases per shard of 2500 are listed")
    for b in broken:
        chk.broken.append({"what": "correspondence corr:C17 shard not evaluated", "detail": b})
    for i in sorted(failing):
        if i in init_ids:
            chk.disagreement("corr:C17 initialize_backend (Model/BackendDispatch.v `initialize` vs `import tensorly` in a fresh process under "
                             "TENSORLY_BACKEND / TENSORLY_TENALG_BACKEND)", {"mode": 10, **init_ids[i]})
            continue
        if i == dsrc_id:
            chk.disagreement("corr:C17 dispatch source (the look-up expressions of the dispatch closure / descriptor / current_backend / get_backend, what "
                             "use_dynamic_dispatch installs, or the names bound at import differ from Model/BackendDispatch.v's parameters)",
                             {"digits [closure, current_backend, get_backend, descriptor(instance), class test, descriptor(class), int64 in import list, "
                              "use_static_dispatch look-ups x4, installs x4, module __getattr__, (function?, attribute?, bound at import?) per modelled name]": dsd[1:]})
            continue
        if i in src_ids:
            m, progs = src_ids[i]
            chk.disagreement("corr:C17 source programs (acts extracted from the source of set_backend / backend_context break the effect-point "
                             "discipline of C17_micro_atomic or differ from the model's programs as blocks)",
                             {"manager": "tensorly.tenalg" if m else "tensorly.backend", "programs [set, enter, exit, exit-by-exception] x [global, local]": progs})
            continue
        mode, main_actor, nthreads, h, tag = meta[i]
        if mode in (21, 22):
            chk.disagreement("corr:C17 abort step by step (the states observed after interrupting ONE call at its successive positions are not "
                             "those of one growing set of the call's acts: some position shows fewer acts executed than an earlier one, or no "
                             "sub-sequence at all)", {"mode": mode, "scenario": chain_to_json(h)})
            continue
        if mode in (18, 19):
            chk.disagreement("corr:C17 abort (Model/BackendAbort.v: the state after an interrupted call is that of no prefix of its acts, or a call that "
                             "raises by itself - nameless instance - leaves another state / outcome than exec_nl)",
                             {"mode": mode, "scenario": abort_to_json(h)})
            continue
        if mode in (16, 17):
            chk.disagreement("corr:C17 closure metadata (Model/BackendDispatch.v wst / wop vs f.__wrapped__ of the dispatch closures)",
                             {"mode": mode, "history": dhist_to_json(h)})
            continue
        if mode in (14, 15):
            chk.disagreement("corr:C17 dispatch over ALL dispatched names (model instantiated with the name tables read off the source)",
                             {"mode": mode, "history": dhist_to_json(h[:12]), "look_ups": len(h)})
            continue
        if mode in (12, 13):
            chk.disagreement("corr:C17 register (Model/BackendDispatch.v rst / rop vs register_backend_method + dispatched calls in real threads)",
                             {"mode": mode, "history": dhist_to_json(h)})
            continue
        if mode == 11:
            chk.disagreement("corr:C17 rebind (whether another thread can find a dispatched name missing during use_dynamic_dispatch differs from what the "
                             "model predicts for the loop found in the source: a window iff the loop deletes the attribute before setting it)",
                             {"mode": 11, "manager": h[0]})
            continue
        if mode in (8, 9):
            chk.disagreement("corr:C17 dispatch (Model/BackendDispatch.v vs the routes to a dispatched name: manager module, import-time binding / "
                             "module __getattr__, manager class, captured references, use_static_dispatch / use_dynamic_dispatch)",
                             {"mode": mode, "history": dhist_to_json(h)})
            continue
        if mode in (3, 4):
            chk.disagreement("corr:C17 micro (outcome of two concurrent calls under a line-granular schedule is not that of any sequential order of their blocks)",
                             {"mode": mode, "scenario": scenario_to_json(h)})
            continue
        chk.disagreement("corr:C17 (Model/Backend.v vs tensorly.backend / tensorly.tenalg managers)",
                         {"mode": mode, "main_actor": main_actor, "nthreads": nthreads, "history": hist_to_json(h)})
    chk.assumptions = ["operations are atomic: the driver issues one operation at a time and waits for it (the property quantifies over interleavings of whole operations)",
                       "the instance load_backend creates for a name is identified with the name (the identity of cached instances is not part of the property)",
                       "contexts of the two managers opened by one thread are left innermost-first (they are `with` blocks on one Python stack), except in the "
                       "group mixed-nonlifo-contexts, which drives cm.__enter__ / cm.__exit__ directly",
                       "CPython threads; threading.local storage of a fresh thread is empty"]
    chk.cov["name_read_before_first_write"] = [bool(getattr(M, "_name_first", 0)) for M in Mgr.both()]
    chk.trusted = ["interrupted calls: an exception raised from a sys.settrace trace function at a source line stands for any exception arriving between "
                   "two attribute-level steps (line granularity; the tracer is removed by the interpreter once it has raised, so the finally clause of a "
                   "context interrupted inside its try block runs uninterrupted)",
                   "marker methods/attributes on harness backend subclasses and on the stock instances reveal the executing object of a dispatched call",
                   "the harness appends its two backend names to the manager's available_backend_names so that they can be selected by name",
                   "dispatch routes: marker methods (context, trace / outer, inner) and marker properties (complex64, int64) on the harness backend classes and "
                   "in the instance dict of the stock instances identify the object a call ran on / an attribute came from; tensorly.int64 (bound at import, "
                   "before the marking) is recognised as the stock numpy backend's value",
                   "use_static_dispatch / use_dynamic_dispatch are driven inside the fork-pool processes only; use_dynamic_dispatch is called after every dispatch history"]
    return chk.finish({})


def replay(payload):
    if payload.get("kind") != "failing-input":
        print("replay file names a broken theorem/correspondence, not an input:", payload.get("theorem_or_correspondence"))
        return 1
    inp = payload["inputs"]
    if int(inp["mode"]) == 20:
        fails, notes = halfway_import_probe()
        for M in Mgr.both():
            M.reset()
            M.unmark()
        for f in fails[:5]:
            print("replay:", f[:2])
        return 1 if fails else 0
    if int(inp["mode"]) in (18, 19):
        sc = abort_from_json(inp["scenario"])
        Ms = Mgr.both()
        for M in Ms:
            M.reset()
        r = drive_abort(sc)
        fails = predicates_abort(sc, r)
        for M in Ms:
            M.reset()
            M.unmark()
        for f in fails[:5]:
            print("replay:", f)
        return 1 if fails else 0
    if int(inp["mode"]) in (16, 17):
        m = int(inp["mode"]) - 16
        h = dhist_from_json(inp["history"])
        outs = drive_meta(m, h)
        fails = predicates_meta(m, 3, h, outs)
        for M in Mgr.both():
            M.unmark()
        for f in fails[:5]:
            print("replay:", f)
        return 1 if fails else 0
    if int(inp["mode"]) in (14, 15):
        m = int(inp["mode"]) - 14
        h = dhist_from_json(inp["history"])
        Ms = Mgr.both()
        for M in Ms:
            M.reset()
        outs = drive_sweep(m, h)
        fails = predicates_sweep(m, 4, h, outs)
        for M in Ms:
            M.reset()
            M.unmark()
        for f in fails[:5]:
            print("replay:", f)
        return 1 if fails else 0
    if int(inp["mode"]) in (12, 13):
        m = int(inp["mode"]) - 12
        h = dhist_from_json(inp["history"])
        Ms = Mgr.both()
        for M in Ms:
            M.reset()
        outs = drive_reg(m, h)
        fails = predicates_reg(m, 3, h, outs)
        for M in Ms:
            M.reset()
            M.unmark()
        for f in fails[:5]:
            print("replay:", f)
        return 1 if fails else 0
    if int(inp["mode"]) == 11:
        gran, k = inp.get("granularity", "line"), int(inp.get("stopped_after", inp.get("stopped_after_lines", 4)))
        if gran == "line-before-end":
            gran, k = "line", rebind_total_lines(int(inp["manager"])) - k
        pos = [(gran, k)]
        pos += [("line", k) for k in range(REBIND_STEPS)]
        missing = [rebind_window(int(inp["manager"]), k, g)[0] for (g, k) in pos]
        for M in Mgr.both():
            M.reset()
            M.unmark()
        print("replay: names found missing during use_dynamic_dispatch per stop position:", [x[:2] for x in missing])
        return 1 if any(missing) else 0
    if int(inp["mode"]) == 10:
        global INIT_ENVS
        m = 1 if str(inp["manager"]).endswith("tenalg") else 0
        INIT_ENVS = [(None, inp["env"]) if m else (inp["env"], None)]
        inits, skipped = init_collect(init_launch())
        fails = [f for (_, d, f) in inits if f is not None and d["manager"] == inp["manager"]]
        for f in fails:
            print("replay:", f)
        return 1 if fails else 0
    if int(inp["mode"]) in (8, 9):
        m = int(inp["mode"]) - 8
        h = dhist_from_json(inp["history"])
        Ms = Mgr.both()
        for M in Ms:
            M.reset()
        outs = drive_dispatch(m, h, 4)
        fails = predicates_dispatch(m, 4, descr_class_ok(Ms[m]), h, outs)
        for (t, wrong) in drive_dispatch.probes:
            fails.append(("C17_dispatch_follows_view", len(h) - 1, f"library code in thread {t} fetched implementations from {wrong}"))
        for M in Ms:
            M.reset()
            M.unmark()
        for f in fails[:5]:
            print("replay:", f)
        if not fails:
            print("replay: all C17 dispatch predicates hold on", [dop_lit(o) for o in h])
        return 1 if fails else 0
    if int(inp["mode"]) == 7:
        h = hist_from_json(inp["history"])
        Ms = Mgr.both()
        r = run_histories_manual(int(inp["nthreads"]), [h])[0]
        for M in Ms:
            M.unmark()
        fails = predicates(2, int(inp["nthreads"]), h, r)
        for f in fails[:5]:
            print("replay:", f)
        return 1 if fails else 0
    if int(inp["mode"]) >= 3:
        m = int(inp["mode"]) - 3
        sc = scenario_from_json(inp["scenario"])
        Ms = Mgr.both()
        for M in Ms:
            M.reset()
        r = drive_micro(m, sc)
        for M in Ms:
            M.reset()
            M.unmark()
        fails = predicates_micro(m, sc, r)
        for f in fails[:5]:
            print("replay:", f)
        return 1 if fails else 0
    mode, main_actor, nthreads = int(inp["mode"]), bool(inp["main_actor"]), int(inp["nthreads"])
    h = hist_from_json(inp["history"])
    Ms = Mgr.both()
    r = run_histories(mode, main_actor, nthreads, [h])[0]
    for M in Ms:
        M.unmark()
    fails = predicates(mode, nthreads, h, r)
    for f in fails[:5]:
        print("replay:", f)
    if not fails:
        print("replay: all C17 predicates hold on", [op_lit(o) for o in h])
    return 1 if fails else 0
