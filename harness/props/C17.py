"""C17 -- backend selection behaves as a per-thread stack over a shared default.

Correspondence: Model/Backend.v (ONE machine, instantiated twice side by side: tensorly.backend's BackendManager and
tensorly.tenalg's TenalgBackendManager) vs the real managers driven through REAL threads: every actor thread owns a
command queue, the driver issues one operation at a time in history order and after EVERY operation collects from
EVERY thread (a) get_backend() and (b) the identity of the object that executes a dynamically dispatched call made
in that thread (marker method on backend subclasses / marker attribute on the stock instances), plus
current_backend() and the dispatched attribute backend_name as further dispatch routes.  In the mixed groups the
operations of one history go to BOTH managers and every thread reports what it sees through both.  The model runs
the same history inside Coq (vm_compute) issuing its own Query / Dispatch operations; everything is compared
exactly.  Predicates (transcriptions of the theorems) are evaluated on the implementation's observations: view,
selection, isolation, restore, rejection, query/dispatch consistency, independence of the two managers.

History format: ("set"|"enter", thread, manager, selector, local_threadsafe) | ("exit", thread, manager, exceptional)
manager 0 = tensorly.backend, 1 = tensorly.tenalg; selector ("n", name code) | ("o", k) | ("f", k).
A group is run in a mode: 0 / 1 = only that manager is driven and observed, 2 = both."""
import itertools, os, queue, random, sys, threading, time
from harness import common as C

HEADER = """From Coq Require Import List Bool NArith Uint63. Import ListNotations.
From TLV Require Import Model.Backend Corr.C17.
Open Scope N_scope."""

TIMEOUT = 180  # seconds a driver waits for a worker before declaring the harness stuck (HARNESS ERROR, never a verdict)


class Boom(Exception):
    """the exception raised inside a context body for an exceptional exit"""


class HarnessStuck(Exception):
    pass


# ----------------------------------------------------------------------------- managers
_ACCESS = threading.local()


class Mgr:
    """everything the harness knows about one manager; built once per process"""
    _cache = {}

    def __init__(self, tenalg):
        import importlib.util
        import numpy as np
        import tensorly as tl
        self.tenalg = tenalg
        if not tenalg:
            from tensorly.backend.numpy_backend import NumpyBackend as Base
            from tensorly.tenalg.core_tenalg import CoreTenalgBackend as Other
            self.mod = tl
            self.mgr = tl.backend
            self.names = {0: "numpy", 1: "bka", 2: "bkb", 3: "pytorch", 4: "nosuch", 5: "Numpy"}
            self.stock = [0]
            self.fn = "context"
            self.args = (np.zeros(1),)
            self.harness_names = [1, 2]
            if importlib.util.find_spec("torch") is not None:
                del self.names[3]
            other_kw = "tkx"
        else:
            from tensorly.tenalg.core_tenalg import CoreTenalgBackend as Base
            from tensorly.backend.numpy_backend import NumpyBackend as Other
            self.mod = tl.tenalg
            self.mgr = tl.tenalg
            self.names = {0: "core", 1: "einsum", 2: "tka", 3: "tkb", 4: "nosuch", 5: "numpy"}
            self.stock = [0, 1]
            self.fn = "outer"
            self.args = ([np.ones(1), np.ones(1)],)
            self.harness_names = [2, 3]
            other_kw = "bkx"
        self.code = {v: k for k, v in self.names.items()}
        fn = self.fn

        def marker(self_, *a, **k):
            return ("c17", self_)

        def logged_getattribute(self_, name):
            # which object does a dispatched function / attribute fetch its implementation from?
            log = _ACCESS.__dict__.get("log")
            if log is not None:
                log.append((self_, name))
            return object.__getattribute__(self_, name)
        body = {fn: marker, "__getattribute__": logged_getattribute}
        A_ = type("A_", (Base,), dict(body), backend_name=self.names[self.harness_names[0]])
        B_ = type("B_", (Base,), dict(body), backend_name=self.names[self.harness_names[1]])
        X_ = type("X_", (Other,), {}, backend_name=other_kw)
        self.classes = {A_: self.harness_names[0], B_: self.harness_names[1]}
        self.pool = [A_(), B_(), A_(), B_()]                    # Obj 0..3
        self.foreign = [X_(), None]                             # Foreign 0..1
        # the harness classes become selectable by NAME as well (load_backend instantiates them)
        self.names_registered = True
        try:
            for k in self.harness_names:
                if self.names[k] not in self.mgr.available_backend_names:
                    self.mgr.available_backend_names.append(self.names[k])
        except Exception:
            self.names_registered = False
        # mark the stock instances so that a dispatched call reveals which object executed it
        self.static_attrs = set()
        self.marked = {}
        self.reset()
        for k in self.stock:
            try:
                self.mgr.set_backend(self.names[k])
                obj = self.mgr.current_backend()
                if getattr(obj, "backend_name", None) == self.names[k]:
                    obj.__dict__[fn] = (lambda o: (lambda *a, **kw: ("c17", o)))(obj)
                    self.marked[id(obj)] = (k, obj)
            except Exception:
                pass
        self.reset()

    @classmethod
    def get(cls, tenalg):
        tenalg = bool(tenalg)
        if tenalg not in cls._cache:
            cls._cache[tenalg] = Mgr(tenalg)
        return cls._cache[tenalg]

    @classmethod
    def both(cls):
        return (cls.get(False), cls.get(True))

    def unmark(self):
        for k, obj in self.marked.values():
            obj.__dict__.pop(self.fn, None)

    def reset(self):
        """process-wide default and the calling (main) thread's own selection back to the default name"""
        self.mgr.set_backend(self.names[0])

    # selectors: ("n", code) name | ("o", k) harness instance | ("f", k) foreign object
    def sel_obj(self, sel):
        kind, k = sel
        if kind == "n":
            return self.names[k]
        if kind == "o":
            return self.pool[k]
        return self.foreign[k]

    def sel_valid(self, sel):
        kind, k = sel
        if kind == "n":
            return k in self.stock or (k in self.harness_names and self.names_registered)
        return kind == "o"

    def token(self, obj):
        """identity token of a backend object: ('o',k) | ('n',code) | ('?',repr)"""
        for k, p in enumerate(self.pool):
            if obj is p:
                return ("o", k)
        if id(obj) in self.marked and self.marked[id(obj)][1] is obj:
            return ("n", self.marked[id(obj)][0])
        if type(obj) in self.classes:
            return ("n", self.classes[type(obj)])
        return ("?", repr(obj)[:60])

    def token_name(self, tok):
        """name code implied by an identity token"""
        if tok[0] == "o":
            return self.harness_names[tok[1] % 2]
        if tok[0] == "n":
            return tok[1]
        return None

    def sweep(self, expected):
        """EVERY dynamically dispatched function and attribute of the manager must fetch its implementation from
        `expected` (an instance of a harness class, whose attribute accesses are logged): the functions are called
        without arguments - the look-up happens before the call fails.  Returns the names that went elsewhere."""
        m = self.mgr
        wrong = []
        funs = list(dict.fromkeys(getattr(m, "_functions", [])))
        attrs = [a for a in dict.fromkeys(getattr(m, "_attributes", [])) if a not in funs]
        top = vars(self.mod) if not self.tenalg else {}
        for name in funs + attrs:
            _ACCESS.log = log = []
            try:
                if name in funs:
                    getattr(self.mod, name)()        # tensorly.<name> / tensorly.tenalg.<name>
                elif name in top:
                    # tensorly/__init__.py binds this ATTRIBUTE statically at import (int64, float64, pi, ...): it does not
                    # follow the backend.  C17 speaks of dispatched functions: recorded, not judged; swept on the manager
                    self.static_attrs.add(name)
                    getattr(m, name)
                else:
                    getattr(self.mod, name)          # resolved through the module __getattr__: must follow the backend
                    if self.mod is not m:
                        hit0 = [o for (o, n) in log if n == name]
                        if not hit0 or hit0[0] is not expected:
                            wrong.append("tensorly." + name)
                        del log[:]
                    getattr(m, name)
            except Exception:
                pass
            finally:
                _ACCESS.log = None
            hit = [o for (o, n) in log if n == name]
            if not hit or hit[0] is not expected:
                wrong.append(name)
        if len(wrong) >= len(funs) + len(attrs):
            return []          # no look-up was logged at all: the dispatcher does not go through attribute access of the
            #                    instance (a refactoring the logging cannot follow); the marker-method probes still apply
        return wrong

    def observe(self, full=False):
        """executed INSIDE the observed thread: (name code, dispatch token | None, problems)"""
        m = self.mgr
        q = m.get_backend()
        qc = self.code.get(q, 99)
        r = getattr(self.mod, self.fn)(*self.args)          # the dynamically dispatched function
        if isinstance(r, tuple) and len(r) == 2 and r[0] == "c17":
            d = self.token(r[1])
        else:
            d = None                                         # executed by an unmarked (stock class) object
        routes = []
        r2 = getattr(m, self.fn)(*self.args)                # same function through the manager module
        d2 = self.token(r2[1]) if isinstance(r2, tuple) and len(r2) == 2 and r2[0] == "c17" else None
        if d2 != d:
            routes.append(("manager." + self.fn, d2))
        cb = m.current_backend()
        d3 = self.token(cb)
        if d is not None and d3 != d:
            routes.append(("current_backend()", d3))
        if d is None and (d3[0] != "?" or getattr(cb, "backend_name", None) != q):
            routes.append(("current_backend()", d3))
        if not self.tenalg:
            a1 = self.mod.backend_name                      # dispatched attribute, via tensorly.__getattr__
            a2 = m.backend_name
            if a1 != q or a2 != q:
                routes.append(("backend_name attribute", (a1, a2)))
            q2 = self.mod.get_backend()                     # the top-level alias tensorly.get_backend
            if q2 != q:
                routes.append(("tensorly.get_backend()", q2))
        if full and type(cb) in self.classes and d3 == d:
            wrong = self.sweep(cb)
            if wrong:
                routes.append(("dispatched names not served by the current backend", wrong[:8]))
        return (qc, d, routes)

    def api(self, tid):
        """the public entry points: tensorly.set_backend / tensorly.backend_context (top-level aliases) for even
        thread ids, the manager module for odd ones"""
        return self.mod if (not self.tenalg and tid % 2 == 0) else self.mgr


def observe_mode(mode, full=False):
    """what the calling thread sees: (through tensorly.backend | None, through tensorly.tenalg | None)"""
    out = []
    for m in (0, 1):
        if mode == 2 or mode == m:
            try:
                out.append(Mgr.get(m).observe(full))
            except Exception as e:  # noqa
                out.append((98, ("?", "observe raised " + repr(e)[:80]), []))
        else:
            out.append(None)
    return tuple(out)


# ----------------------------------------------------------------------------- threads
class Stepper:
    """line- or bytecode-granular turn taking (sys.settrace, f_trace_opcodes) between threads that each execute ONE
    manager call: every entry of a schedule lets the named thread run up to the next source line / the next bytecode
    of the traced files"""

    def __init__(self, tids, files, opcodes=False):
        self.opcodes = opcodes                    # turn taking at every BYTECODE of the traced files instead of every line
        self.go = {t: threading.Semaphore(0) for t in tids}
        self.done_line = threading.Semaphore(0)
        self.finished = {t: False for t in tids}
        self.files = files
        self.lines = 0

    def tracer(self, tid):
        unit = "opcode" if self.opcodes else "line"

        def local(frame, event, arg):
            if event == unit:
                self.done_line.release()          # about to execute a line / a bytecode: hand the turn back
                if not self.go[tid].acquire(timeout=TIMEOUT):
                    raise HarnessStuck(f"traced thread {tid} was never scheduled again")
            return local

        def glob(frame, event, arg):
            if frame.f_code.co_filename not in self.files:
                return None
            if self.opcodes:
                frame.f_trace_opcodes = True
            return local
        return glob

    def start(self, tid):
        if not self.go[tid].acquire(timeout=TIMEOUT):
            raise HarnessStuck(f"traced thread {tid} was never started")
        sys.settrace(self.tracer(tid))

    def finish(self, tid):
        sys.settrace(None)
        self.finished[tid] = True
        self.done_line.release()

    def run(self, schedule):
        tids = list(self.go)
        for t in itertools.chain(schedule, itertools.cycle(tids)):
            if all(self.finished.values()):
                break
            if self.finished[t]:
                continue
            self.go[t].release()
            if not self.done_line.acquire(timeout=TIMEOUT):
                raise HarnessStuck(f"traced thread {t} did not reach its next line")
            self.lines += 1


class Worker:
    def __init__(self, mode, tid):
        self.mode, self.tid = mode, tid
        self.q = queue.SimpleQueue()
        self.r = queue.SimpleQueue()
        self.thread = None
        self.exit_stepper = None
        self.full = False

    def start(self):
        self.thread = threading.Thread(target=self.main, daemon=True)
        self.thread.start()

    def main(self):
        try:
            self.body(0)
        except BaseException as e:  # noqa
            self.r.put(("harness-error", repr(e)))

    def call(self, cmd):
        self.q.put(cmd)
        try:
            return self.r.get(timeout=TIMEOUT)
        except queue.Empty:
            raise HarnessStuck(f"thread {self.tid} did not answer {cmd!r}")

    def reply(self, res):
        """outcome of an operation + what THIS thread observes right after it (saves one hand-over per step);
        the acting thread also sweeps ALL dispatched names when it is asked to (last operation of a history)"""
        self.r.put((res, observe_mode(self.mode, self.full)))
        self.full = False

    def body(self, depth):
        """serve commands at context depth `depth`; returns 'normal' (leave the innermost context normally)
        or 'stop'; raises Boom for an exceptional exit"""
        while True:
            cmd = self.q.get()
            k = cmd[0]
            if k == "obs":
                self.r.put(observe_mode(self.mode))
            elif k == "full":
                self.full = True
            elif k == "set":
                # cmd[4] (optional): a Stepper under whose line-granular control the call is made
                M = Mgr.get(cmd[1])
                st = cmd[4] if len(cmd) > 4 else None
                try:
                    if st is not None:
                        st.start(self.tid)
                    try:
                        if cmd[3] or self.tid % 2 == 0:
                            M.api(self.tid).set_backend(M.sel_obj(cmd[2]), local_threadsafe=cmd[3])
                        else:                            # the default of the flag is "not thread-local"
                            M.api(self.tid).set_backend(M.sel_obj(cmd[2]))
                    finally:
                        if st is not None:
                            st.finish(self.tid)
                    self.reply("done")
                except HarnessStuck:
                    raise
                except Exception as e:  # noqa
                    self.reply("rejected")
            elif k == "enter":
                M = Mgr.get(cmd[1])
                st = [cmd[4]] if len(cmd) > 4 else []
                entered, how = False, "swallowed"

                def untrace():
                    while st:
                        st.pop().finish(self.tid)
                try:
                    if st:
                        st[0].start(self.tid)
                    try:
                        kw = {"local_threadsafe": cmd[3]} if (cmd[3] or self.tid % 2 == 1) else {}
                        with M.api(self.tid).backend_context(M.sel_obj(cmd[2]), **kw):
                            untrace()                    # only the entry is traced
                            entered = True
                            self.reply("done")
                            how = self.body(depth + 1)
                            xs, self.exit_stepper = self.exit_stepper, None
                            if xs is not None:           # cmd ("exit", exn, stepper): the exit is traced
                                st.append(xs)
                                xs.start(self.tid)
                            if how == "boom":
                                raise Boom()
                    finally:
                        untrace()
                    if how in ("stop", "quit"):
                        return how
                    # "swallowed": the body raised Boom but the `with` statement completed without an exception
                    self.reply("done" if how == "normal" else "swallowed")
                except Boom:
                    # the body's exception propagated out of the `with` statement (after the finally clause)
                    self.reply("reraised" if entered else "exitfailed")
                except HarnessStuck:
                    raise
                except Exception as e:  # noqa
                    if how in ("stop", "quit"):      # unwinding at the end of a history: a failing exit must not
                        return how                   # leave this thread serving commands at the wrong depth
                    self.reply("exitfailed" if entered else "rejected")
            elif k == "exit":
                if depth == 0:
                    if len(cmd) > 2:
                        cmd[2].start(self.tid)
                        cmd[2].finish(self.tid)
                    self.reply("noctx")
                else:
                    if len(cmd) > 2:
                        self.exit_stepper = cmd[2]
                    return "boom" if cmd[1] else "normal"
            elif k in ("stop", "quit"):
                return k


def drive(mode, history, main_worker, nthreads):
    """run one history; thread 0 is the main thread.  If main_worker is None the main thread is the caller
    itself (passive observer, holds the import-time selection); otherwise it is an actor served by
    main_worker (the caller is then a helper thread).  Returns (obs0, [(outcome, obs)...])."""
    workers = {}
    for t in range(1, nthreads):
        w = Worker(mode, t)
        w.start()
        workers[t] = w
    if main_worker is not None:
        workers[0] = main_worker

    def observe_all(actor=None, own=None):
        out = []
        for t in range(nthreads):
            if t == actor:
                out.append(own)
            elif t == 0 and main_worker is None:
                out.append(observe_mode(mode))
            else:
                out.append(workers[t].call(("obs",)))
        return out
    try:
        obs0 = observe_all()
        steps = []
        for i, op in enumerate(history):
            kind, t = op[0], op[1]
            if i == len(history) - 1:
                workers[t].q.put(("full",))      # no answer: the next reply of that thread carries the sweep
            if kind in ("set", "enter"):
                res = workers[t].call((kind, op[2], op[3], op[4]))
            else:
                res = workers[t].call(("exit", op[3]))
            if isinstance(res, tuple) and res and res[0] == "harness-error":
                raise HarnessStuck(str(res))
            res, own = res
            steps.append((res, observe_all(t, own)))
        return obs0, steps
    finally:
        for t, w in workers.items():
            if t == 0:
                continue
            w.q.put(("stop",))
        for t, w in workers.items():
            if t != 0 and w.thread is not None:
                w.thread.join(timeout=TIMEOUT)


def run_histories(mode, main_actor, nthreads, histories):
    """returns [(obs0, steps)] for every history; must be called from the MAIN thread of its process"""
    Ms = Mgr.both()
    out = []
    if not main_actor:
        for h in histories:
            for M in Ms:
                M.reset()
            out.append(drive(mode, h, None, nthreads))
        for M in Ms:
            M.reset()
        return out
    # the main thread becomes an actor: it serves a command queue while a helper thread drives
    mw = Worker(mode, 0)
    err = []

    def helper():
        try:
            for h in histories:
                # unwind / reset happen in the main thread through its queue
                for m in (0, 1):
                    mw.call(("set", m, ("n", 0), False))
                out.append(drive(mode, h, mw, nthreads))
                mw.q.put(("stop",))          # leaves every context the main thread still has open
        except BaseException as e:  # noqa
            err.append(e)
        finally:
            mw.q.put(("quit",))
    th = threading.Thread(target=helper, daemon=True)
    th.start()
    while mw.body(0) != "quit":         # body returns at 'stop' (contexts unwound) and at 'quit'
        pass
    th.join(timeout=TIMEOUT)
    for M in Ms:
        M.reset()
    if err:
        raise err[0]
    return out


# ----------------------------------------------------------------------------- line-granular schedules of two concurrent calls
def traced_files():
    import tensorly.backend as B
    import tensorly.tenalg as T
    return {B.__file__, T.__file__}


def drive_micro(m, scenario):
    """scenario = (setup, opA, opB, post, schedule) on manager m; threads: 0 main (passive, holds the import-time
    selection), 1 and 2 (actors), 3 (passive, no selection).  setup / post run one operation at a time; opA (thread 1)
    and opB (thread 2) run concurrently under a line-granular schedule.  Returns (resA, resB, obs, post_steps, lines)."""
    setup, opA, opB, post, schedule = scenario[:5]
    opcodes = len(scenario) > 5 and scenario[5] == "opcode"
    conc = [opA, opB] + ([scenario[6]] if len(scenario) > 6 else [])     # a third concurrent call (thread 3) is optional
    nthreads = len(conc) + 2                  # main, the actors, one passive thread without selection
    workers = {}
    for t in range(1, nthreads):
        w = Worker(m, t)
        w.start()
        workers[t] = w

    def observe_all(actor=None, own=None):
        return [own if t == actor else (observe_mode(m) if t == 0 else workers[t].call(("obs",))) for t in range(nthreads)]

    def cmd_of(op, st=None):
        extra = (st,) if st is not None else ()
        if op[0] in ("set", "enter"):
            return (op[0], op[2], op[3], op[4]) + extra
        return ("exit", op[3]) + extra

    def atomic(op):
        res = workers[op[1]].call(cmd_of(op))
        if isinstance(res, tuple) and res and res[0] == "harness-error":
            raise HarnessStuck(str(res))
        return res
    try:
        for op in setup:
            atomic(op)
        st = Stepper([op[1] for op in conc], traced_files(), opcodes)
        for op in conc:
            workers[op[1]].q.put(cmd_of(op, st))
        st.run(schedule)
        out = []
        for op in conc:
            try:
                res = workers[op[1]].r.get(timeout=TIMEOUT)
            except queue.Empty:
                raise HarnessStuck(f"thread {op[1]} did not answer the traced {op[0]}")
            if isinstance(res, tuple) and res and res[0] == "harness-error":
                raise HarnessStuck(str(res))
            out.append(res[0])
        obs = observe_all()
        steps = []
        for op in post:
            res, own = atomic(op)
            steps.append((res, observe_all(op[1], own)))
        return (out[0], out[1], obs, steps, st.lines) + tuple(out[2:])
    finally:
        for w in workers.values():
            w.q.put(("stop",))
        for w in workers.values():
            if w.thread is not None:
                w.thread.join(timeout=TIMEOUT)


def random_scenario3(rng, m):
    """three concurrent calls (threads 1, 2, 3): like random_scenario with a third actor"""
    return random_scenario(rng, m, third=True)


def random_scenario(rng, m, third=False):
    """set-up (0-3 valid operations of threads 1-3), one operation each for threads 1 and 2, the exits that close
    what is open afterwards, a line- or bytecode-granular schedule"""
    M = Mgr.get(m)
    valid = [("o", k) for k in range(len(M.pool))] + [("n", k) for k in M.names if M.sel_valid(("n", k))]
    bad = [("n", k) for k in M.names if not M.sel_valid(("n", k))] + [("f", 0)]
    depth = {1: 0, 2: 0, 3: 0}
    setup = []
    for _ in range(rng.choice([0, 1, 1, 2, 2, 3])):
        t = rng.choice([1, 2, 3])
        kind = rng.choice(["set", "enter"]) if (t != 3 or third) else "set"
        setup.append((kind, t, m, rng.choice(valid), rng.random() < 0.6))
        if kind == "enter":
            depth[t] += 1

    def one(t):
        r = rng.random()
        if depth[t] and r < 0.5:
            depth[t] -= 1
            return ("exit", t, m, rng.random() < 0.4)
        s = rng.choice(bad) if rng.random() < 0.12 else rng.choice(valid)
        kind = "enter" if r < 0.7 else "set"
        if kind == "enter" and M.sel_valid(s):
            depth[t] += 1
        return (kind, t, m, s, rng.random() < 0.4)
    opA, opB = one(1), one(2)
    opC = one(3) if third else None
    actors = [1, 2, 3] if third else [1, 2]
    post = []
    order = [t for t in actors for _ in range(depth[t])]
    rng.shuffle(order)
    for t in order:
        post.append(("exit", t, m, rng.random() < 0.3))
    style = rng.random()
    gran = "opcode" if rng.random() < 0.5 else "line"
    k, n = (14, 40) if gran == "line" else (70, 200)
    if style < 0.5:       # one thread runs k steps, the other(s) complete (the second one also stopped midway), the first resumes
        perm = actors[:]
        rng.shuffle(perm)
        schedule = [perm[0]] * rng.randint(0, k)
        if third:
            schedule += [perm[1]] * rng.randint(0, k) + [perm[2]] * n + [perm[1]] * n
        else:
            schedule += [perm[1]] * n
    elif style < 0.75 or gran == "line":
        schedule = [rng.choice(actors) for _ in range(n)]
    else:                 # bursts
        schedule = []
        while len(schedule) < n:
            schedule += [rng.choice(actors)] * rng.randint(1, 25)
    sc = (tuple(setup), opA, opB, tuple(post), tuple(schedule), gran)
    return sc + (opC,) if third else sc


def systematic_scenarios(m):
    """canonical pairs of NON-local calls, one thread stopped after k = 0..59 bytecodes while the other runs to
    completion: sweeps every window inside set_backend / backend_context entry / exit at bytecode granularity"""
    A, B = ("o", 0), ("o", 1)
    pairs = [((), ("set", 1, m, A, False), ("set", 2, m, B, False), ()),
             ((), ("enter", 1, m, A, False), ("set", 2, m, B, False), (("exit", 1, m, False),)),
             ((("set", 2, m, ("o", 2), True),), ("enter", 1, m, A, False), ("enter", 2, m, B, False),
              (("exit", 2, m, False), ("exit", 1, m, True))),
             ((("enter", 1, m, ("o", 3), False),), ("exit", 1, m, False), ("set", 2, m, B, False), ())]
    out = []
    for k in range(60):
        for (setup, a, b, post) in pairs:
            first, second = (1, 2) if (k % 2 == 0) else (2, 1)
            out.append((setup, a, b, post, tuple([first] * k + [second] * 200), "opcode"))
    return out


def op_digits(op):
    if op[0] == "exit":
        return [2 + 4 * op[2], op[1], int(op[3]), 0, 0]
    return [(0 if op[0] == "set" else 1) + 4 * op[2], op[1], SELKIND[op[3][0]], op[3][1], int(op[4])]


def encode_micro(m, scenario, result):
    """digit stream decoded by Corr/C17.v `decode_m` (leading digit 3)"""
    setup, opA, opB, post, schedule = scenario[:5]
    resA, resB, obs, steps = result[:4]
    if len(scenario) > 6:                       # three concurrent calls: leading digit 5, decoded by decode_mN
        ds = [5, m, 5, 1, len(setup)]
        for op in setup:
            ds += op_digits(op)
        ds += [3]
        for op, res in ((opA, resA), (opB, resB), (scenario[6], result[5])):
            ds += op_digits(op) + [OUTCOME.get(res, 3)]
    else:
        ds = [3, m, 4, 1, len(setup)]
        for op in setup:
            ds += op_digits(op)
        ds += op_digits(opA) + [OUTCOME.get(resA, 3)] + op_digits(opB) + [OUTCOME.get(resB, 3)]
    ds += seen_digits(obs) + [len(post)]
    for op, (res, o) in zip(post, steps):
        ds += op_digits(op) + [OUTCOME.get(res, 3)] + seen_digits(o)
    assert all(0 <= d < 64 for d in ds), ds
    return ds


def predicates_micro(m, scenario, result):
    """what can be said without the model: query / dispatch consistency in every observation, and the follow-up
    (atomic) exits succeed"""
    M = Mgr.get(m)
    resA, resB, obs, steps = result[:4]
    fails = []
    for i, ob in [(-1, obs)] + [(j, o) for j, (_, o) in enumerate(steps)]:
        for t, per in enumerate(ob):
            o = per[m]
            nm = M.token_name(o[1]) if o[1] is not None else None
            if o[2] or (o[1] is None and o[0] not in M.stock) or (o[1] is not None and nm != o[0]):
                fails.append(("C17_observe", i, f"thread {t}: get_backend() code {o[0]} vs executing object {o[1]} / routes {o[2]} after concurrent calls"))
    for j, (res, _) in enumerate(steps):
        if res != ("reraised" if scenario[3][j][3] else "done"):
            fails.append(("C17_exit_succeeds", j, f"follow-up exit ({'exception' if scenario[3][j][3] else 'normal'}) ended with {res!r}"))
    # C17_selected_is_current holds in every order of blocks: a thread's own selection is private to it, so after
    # both calls have returned each caller observes what IT selected (no other operation of that thread in between)
    setup, opA, opB = scenario[0], scenario[1], scenario[2]
    calls = [(opA, resA), (opB, resB)] + ([(scenario[6], result[5])] if len(scenario) > 6 else [])
    for op, res in calls:
        if op[0] in ("set", "enter") and res == "done" and M.sel_valid(op[3]):
            tok = ("n", op[3][1]) if op[3][0] == "n" else ("o", op[3][1])
            o = obs[op[1]][m]
            ok = o[0] == M.token_name(tok) and (o[1] == tok or (o[1] is None and tok[0] == "n" and tok[1] in M.stock))
            if not ok:
                fails.append(("C17_selected_is_current", -1, f"thread {op[1]} selected {tok} ({op[0]}) while "
                              f"{[(o2[1], o2[0]) for o2, _ in calls if o2 is not op]} (thread, call) ran concurrently, and observes {o[:2]} afterwards"))
        if op[0] in ("set", "enter") and (res == "done") != M.sel_valid(op[3]):
            fails.append(("C17_rejection", -1, f"concurrent {op[0]} of selector {op[3]} by thread {op[1]} ended with {res}"))
    return fails


# ----------------------------------------------------------------------------- programs of acts from the source (ast)
# The micro-step programs of Model/Backend.v are a reading of set_backend / backend_context / current_backend.  Here the
# CURRENT source is translated (ast) into the same vocabulary of acts; Corr/C17.v (leading digit 4) checks that the
# extracted programs obey the effect-point discipline the reduction theorem needs and that, run without interruption,
# they do what the model's programs do on a family of states.  A source shape the translator does not know is
# reported in the evidence notes and skipped - never a verdict.
import ast, inspect, textwrap


class Unsupported(Exception):
    pass

def _fn_ast(f):
    src = textwrap.dedent(inspect.getsource(f))
    mod = ast.parse(src)
    fn = mod.body[0]
    assert isinstance(fn, (ast.FunctionDef,)), type(fn)
    return fn

def _attr_chain(node):
    """cls._THREAD_LOCAL_DATA.backend -> ['cls', '_THREAD_LOCAL_DATA', 'backend']"""
    out = []
    while isinstance(node, ast.Attribute):
        out.append(node.attr)
        node = node.value
    if isinstance(node, ast.Name):
        out.append(node.id)
        return out[::-1]
    return None

def _reads_shared(expr):
    return any(_attr_chain(n) == ["cls", "_backend"] for n in ast.walk(expr) if isinstance(n, ast.Attribute))

def set_program(fn, local, src_name, from_reg):
    """acts of set_backend after the selection has resolved; src_name: the name holding the backend in this function"""
    K = {"tls": 2 if from_reg else 1, "shared": 5 if from_reg else 4}
    acts = []

    def walk(stmts):
        for st in stmts:
            if isinstance(st, ast.Expr) and isinstance(st.value, ast.Constant):
                continue                                   # docstring
            if isinstance(st, ast.If):
                t = st.test
                if any(isinstance(n, ast.Call) and getattr(n.func, "id", None) == "isinstance" for n in ast.walk(t)):
                    continue                               # the resolution of names: before any write (checked dynamically)
                neg = isinstance(t, ast.UnaryOp) and isinstance(t.op, ast.Not)
                core = t.operand if neg else t
                if isinstance(core, ast.Name) and core.id == "local_threadsafe":
                    take = (not local) if neg else local
                    walk(st.body if take else st.orelse)
                    continue
                raise Unsupported("if " + ast.unparse(t))
            if isinstance(st, ast.Assign) and len(st.targets) == 1:
                ch = _attr_chain(st.targets[0])
                val = st.value
                if ch == ["cls", "_THREAD_LOCAL_DATA", "backend"]:
                    if isinstance(val, ast.Name) and val.id == src_name:
                        acts.append(K["tls"]); continue
                    if _reads_shared(val):
                        acts.extend([9 + 16, 2]); continue    # a read of the shared default, then the write from it
                    raise Unsupported(ast.unparse(st))
                if ch == ["cls", "_default_backend"]:
                    acts.append(3); continue
                if ch == ["cls", "_backend"]:
                    if isinstance(val, ast.Name) and val.id == src_name:
                        acts.append(K["shared"] + 16); continue
                    raise Unsupported(ast.unparse(st))
                raise Unsupported(ast.unparse(st))
            if isinstance(st, ast.Return) and st.value is None:
                return
            raise Unsupported(ast.unparse(st)[:80])
    walk(fn.body)
    if not any(a >= 16 for a in acts):                     # no shared access: the (first) write of the thread-local slot is the effect point
        for i, a in enumerate(acts):
            if a in (1, 2):
                acts[i] = a + 16
                break
    return acts

def _set_call(st, first_arg):
    """cls.set_backend(<first_arg>, [local_threadsafe=...]) -> flag expression | 'default' ; None if not such a call"""
    if not (isinstance(st, ast.Expr) and isinstance(st.value, ast.Call)):
        return None
    c = st.value
    if _attr_chain(c.func) != ["cls", "set_backend"] or not c.args or not isinstance(c.args[0], ast.Name) or c.args[0].id != first_arg:
        return None
    flag = "default"
    if len(c.args) > 1:
        flag = c.args[1]
    for kw in c.keywords:
        if kw.arg == "local_threadsafe":
            flag = kw.value
    return flag

def _flag_value(flag, local):
    if flag == "default":
        return False
    if isinstance(flag, ast.Name) and flag.id == "local_threadsafe":
        return local
    if isinstance(flag, ast.Constant) and isinstance(flag.value, bool):
        return flag.value
    raise Unsupported("flag " + ast.unparse(flag))

def source_programs(manager_cls):
    """[set, enter, exit-normal, exit-exception] for local_threadsafe False, then True (act codes of Corr/C17.v dec_act)"""
    f_set = _fn_ast(manager_cls.set_backend.__func__)
    f_cur = _fn_ast(manager_cls.current_backend.__func__)
    ctx = manager_cls.backend_context.__func__
    f_ctx = _fn_ast(getattr(ctx, "__wrapped__", ctx))
    cur_src = ast.unparse(f_cur)
    cur_ok = "_THREAD_LOCAL_DATA" in cur_src and "cls._backend" in cur_src and cur_src.count("cls._backend") == 1
    out = []
    for local in (False, True):
        out.append(set_program(f_set, local, "backend", False) + [10])
        enter, exit_n, exit_x = [], None, None
        saved = None
        for st in f_ctx.body:
            if isinstance(st, ast.Expr) and isinstance(st.value, ast.Constant):
                continue
            if isinstance(st, ast.Assign) and len(st.targets) == 1 and isinstance(st.targets[0], ast.Name) \
                    and isinstance(st.value, ast.Call) and _attr_chain(st.value.func) == ["cls", "current_backend"]:
                saved = st.targets[0].id
                enter.append(0 + 16 if cur_ok else 9 + 16)
                continue
            fl = _set_call(st, "backend")
            if fl is not None:
                enter += set_program(f_set, _flag_value(fl, local), "backend", False)
                continue
            if isinstance(st, ast.Try):
                if not (len(st.body) == 1 and isinstance(st.body[0], ast.Expr) and isinstance(st.body[0].value, ast.Yield)):
                    raise Unsupported("try body " + ast.unparse(st.body[0])[:60])
                enter += [7 if local else 6, 10]

                def restore(stmts, last):
                    acts = [8]
                    for s2 in stmts:
                        if isinstance(s2, (ast.Raise, ast.Pass)):
                            continue
                        fl2 = _set_call(s2, saved)
                        if fl2 is None:
                            raise Unsupported("exit: " + ast.unparse(s2)[:60])
                        acts += set_program(f_set, _flag_value(fl2, local), "backend", True)
                    return acts + [last]
                exit_n = restore(list(st.orelse) + list(st.finalbody), 10)
                hb = list(st.handlers[0].body) if st.handlers else []
                # the body's exception propagates (act 11) unless an except clause ends without re-raising it
                propagates = (not st.handlers) or any(isinstance(x, ast.Raise) and x.exc is None for x in hb)
                exit_x = restore(hb + list(st.finalbody), 11 if propagates else 10)
                continue
            raise Unsupported("backend_context: " + ast.unparse(st)[:60])
        if saved is None or exit_n is None:
            raise Unsupported("backend_context has no save / try-yield")
        out += [enter, exit_n, exit_x]
    return out

def program_digits(progs):
    ds = []
    for p in progs:
        ds += [len(p)] + p
    return ds


# ----------------------------------------------------------------------------- histories
SEL_EXH = [("n", 1), ("o", 1), ("n", 4)]      # a known name, an instance, an unknown name (codes valid for both managers:
#                                               backend: bka / instance of bkb / nosuch; tenalg: einsum / instance of tkb / nosuch)
SEL_SMALL = [("o", 1), ("n", 4)]


def alphabet(threads, managers, sels):
    al = []
    for t in threads:
        for m in managers:
            for s in sels:
                for l in (False, True):
                    al.append(("set", t, m, s, l))
                    al.append(("enter", t, m, s, l))
            al.append(("exit", t, m, False))
            al.append(("exit", t, m, True))
    return al


def feasible(h):
    """an Exit needs an open context of its thread, and it leaves the INNERMOST one (contexts of the two managers
    nest on one Python stack); contexts open only for valid selections"""
    stack = {}
    for op in h:
        if op[0] == "enter" and Mgr.get(op[2]).sel_valid(op[3]):
            stack.setdefault(op[1], []).append(op[2])
        elif op[0] == "exit":
            st = stack.get(op[1])
            if not st or st[-1] != op[2]:
                return False
            st.pop()
    return True


def exhaustive(threads, managers, sels, n):
    al = alphabet(threads, managers, sels)
    return [h for h in itertools.product(al, repeat=n) if feasible(h)]


def random_history(rng, threads, managers, maxlen):
    n = rng.randint(1, maxlen)
    stack = {t: [] for t in threads}
    h = []
    p_exit = rng.choice([0.2, 0.35, 0.5])
    p_bad = rng.choice([0.1, 0.25])
    p_local = rng.choice([0.3, 0.5, 0.8])
    for _ in range(n):
        t = rng.choice(threads)
        if stack[t] and rng.random() < p_exit:
            h.append(("exit", t, stack[t].pop(), rng.random() < 0.4))
            continue
        m = rng.choice(managers)
        M = Mgr.get(m)
        names = list(M.names)
        if not M.names_registered:
            names = [k for k in names if k not in M.harness_names]
        r = rng.random()
        if r < p_bad:
            bad = [("n", k) for k in names if not M.sel_valid(("n", k))] + [("f", 0), ("f", 1)]
            s = rng.choice(bad)
        elif r < p_bad + (1 - p_bad) * 0.45:
            s = ("n", rng.choice([k for k in names if M.sel_valid(("n", k))]))
        else:
            s = ("o", rng.randrange(len(M.pool)))
        l = rng.random() < p_local
        if rng.random() < 0.5:
            h.append(("set", t, m, s, l))
        else:
            h.append(("enter", t, m, s, l))
            if M.sel_valid(s):
                stack[t].append(m)
    return tuple(h)


# ----------------------------------------------------------------------------- Gallina literals
def sel_lit(s):
    kind, k = s
    return f"(sn {k})" if kind == "n" else (f"(so {k})" if kind == "o" else f"(sf {k})")


def op_lit(op):
    m = "true" if op[2] else "false"
    if op[0] == "set":
        return f"({m}, Set_ {op[1]} {sel_lit(op[3])} {C.boolc(op[4])})"
    if op[0] == "enter":
        return f"({m}, Enter {op[1]} {sel_lit(op[3])} {C.boolc(op[4])})"
    return f"({m}, Exit_ {op[1]} {C.boolc(op[3])})"


OUTCOME = {"done": 0, "rejected": 1, "exitfailed": 2, "noctx": 3, "reraised": 4}
SELKIND = {"n": 0, "o": 1, "f": 2}


def seen_digits(obs):
    ds = []
    for per_thread in obs:
        for o in per_thread:
            if o is None:
                continue
            q, d = o[0], o[1]
            ds.append(q if 0 <= q < 63 else 63)
            if d is None:
                ds.append(0)
            elif d[0] == "n" and d[1] < 6:
                ds.append(2 + d[1])
            elif d[0] == "o" and d[1] < 50:
                ds.append(8 + d[1])
            else:
                ds.append(1)          # an object the harness cannot identify never agrees with the model
    return ds


def encode(mode, main_own, nthreads, history, result):
    """the digit stream decoded by Corr/C17.v `decode` (base-64 digits)"""
    obs0, steps = result
    ds = [mode, nthreads, int(main_own)] + seen_digits(obs0) + [len(steps)]
    for op, (res, obs) in zip(history, steps):
        if op[0] == "exit":
            ds += [2 + 4 * op[2], op[1], int(op[3]), 0, 0]
        else:
            ds += [(0 if op[0] == "set" else 1) + 4 * op[2], op[1], SELKIND[op[3][0]], op[3][1], int(op[4])]
        ds.append(OUTCOME.get(res, 3))
        ds += seen_digits(obs)
    assert all(0 <= d < 64 for d in ds), ds
    return ds


def pack(ds):
    """transport format of Corr/C17.v: primitive 63-bit integers, the first is the number of digits, every
    further one carries 10 digits, least significant first"""
    ints = [len(ds)]
    for k in range(0, len(ds), 10):
        v = 0
        for d in reversed(ds[k:k + 10]):
            v = v * 64 + d
        ints.append(v)
    return "[" + "; ".join(f"{v}%uint63" for v in ints) + "]"


# ----------------------------------------------------------------------------- property predicates
def predicates_one(M, nthreads, history, result):
    """Transcriptions of the C17 theorems for ONE manager, evaluated on the implementation's observations only.
    history: operations of that manager; result: (obs0, steps) with one observation (name code, token, routes) per
    thread.  Returns a list of (predicate name, step index, message)."""
    obs0, steps = result
    fails = []

    def same(a, b):   # observations of one thread: (name code, dispatch token)
        return a[0] == b[0] and a[1] == b[1]

    def consistent(i, obs):
        for t, o in enumerate(obs):
            if o[2]:
                fails.append(("C17_observe", i, f"thread {t}: dispatch routes disagree with the dispatched function: {o[2]} (get_backend code {o[0]}, executing object {o[1]})"))
            nm = M.token_name(o[1]) if o[1] is not None else None
            if o[1] is None and o[0] not in M.stock:
                fails.append(("C17_observe", i, f"thread {t}: get_backend() says {M.names.get(o[0], o[0])!r} but the dispatched call ran on a stock-class object"))
            elif o[1] is not None and nm != o[0]:
                fails.append(("C17_observe", i, f"thread {t}: get_backend() says {M.names.get(o[0], o[0])!r} but the dispatched call ran on {o[1]}"))
    consistent(-1, obs0)
    prev = obs0
    # spec state (theorem C17_view): own[t] = value of t's last effective selection, default = last non-local one
    own = {t: None for t in range(nthreads)}
    own[0] = ("n", 0)          # the importing thread selected the default name at import time
    default = ("n", 0)
    stack = {t: [] for t in range(nthreads)}      # (observation of t before the enter, local flag)

    def tok_of_sel(s):
        return ("n", s[1]) if s[0] == "n" else ("o", s[1])

    def matches(o, tok):
        """observation o shows backend `tok`"""
        if o[0] != M.token_name(tok):
            return False
        return o[1] == tok or (o[1] is None and tok[0] == "n" and tok[1] in M.stock)
    for i, (op, (res, obs)) in enumerate(zip(history, steps)):
        consistent(i, obs)
        t = op[1]
        others = [u for u in range(nthreads) if u != t]
        if op[0] in ("set", "enter"):
            sel, loc = op[3], op[4]
            valid = M.sel_valid(sel)
            if res == "rejected":
                # C17_rejection: the whole (observable) state is unchanged
                for u in range(nthreads):
                    if not same(obs[u], prev[u]):
                        fails.append(("C17_rejection", i, f"rejected {op[0]} by thread {t} changed what thread {u} observes: {prev[u][:2]} -> {obs[u][:2]}"))
                if valid:
                    fails.append(("C17_selected_is_current", i, f"valid selection {sel} was rejected"))
            elif res == "done":
                if not valid:
                    fails.append(("C17_rejection", i, f"selection {sel} that is neither an available name nor an instance of the manager's backend class was accepted"))
                else:
                    tok = tok_of_sel(sel)
                    if not matches(obs[t], tok):
                        fails.append(("C17_selected_is_current", i, f"thread {t} selected {tok} but observes {obs[t][:2]}"))
                    if op[0] == "enter":
                        stack[t].append((prev[t], loc, own[t], default))
                    own[t] = tok
                    if loc:
                        for u in others:      # C17_isolation_step
                            if not same(obs[u], prev[u]):
                                fails.append(("C17_isolation_step", i, f"thread-local {op[0]} by thread {t} changed what thread {u} observes: {prev[u][:2]} -> {obs[u][:2]}"))
                    else:
                        default = tok
            else:
                fails.append(("C17_rejection", i, f"{op[0]} ended abnormally: {res}"))
        else:
            if res == "noctx" or not stack[t]:
                prev = obs
                continue          # not an operation of the implementation (generator never issues it)
            before, local, own_before, _ = stack[t].pop()
            if res != ("reraised" if op[3] else "done"):
                fails.append(("C17_exit_succeeds" if res == "exitfailed" else "C17_exit_by_exception_same_restore", i,
                              f"leaving the context of thread {t} ({'by an exception of the body' if op[3] else 'normally'}) ended with {res!r}, "
                              f"expected {'the exception to propagate after the restore' if op[3] else 'normal completion'}"))
            if not same(obs[t], before):      # C17_restore
                fails.append(("C17_restore", i, f"thread {t} observed {before[:2]} before entering and {obs[t][:2]} after leaving the context ({'exception' if op[3] else 'normal'} exit)"))
            # the restore is an effective selection of the saved backend with the context's flag
            saved_tok = before[1] if before[1] is not None else ("n", before[0])
            own[t] = saved_tok
            if local:
                for u in others:              # C17_isolation_step (exit of a thread-local context)
                    if not same(obs[u], prev[u]):
                        fails.append(("C17_isolation_step", i, f"leaving a thread-local context in thread {t} changed what thread {u} observes: {prev[u][:2]} -> {obs[u][:2]}"))
            else:
                default = saved_tok           # C17_global_exit_published
        # C17_view: own selection else the shared default, for EVERY thread
        for u in range(nthreads):
            exp = own[u] if own[u] is not None else default
            if not matches(obs[u], exp):
                fails.append(("C17_view", i, f"thread {u} should observe {exp} ({'its own last selection' if own[u] is not None else 'the shared default'}) but observes {obs[u][:2]}"))
        prev = obs
    return fails


def predicates(mode, nthreads, history, result):
    """all predicates for a history in mode 0 / 1 / 2; step indices refer to `history`"""
    obs0, steps = result
    fails = []
    managers = (0, 1) if mode == 2 else (mode,)
    if mode == 2:
        # C17_other_manager_untouched: an operation on one manager changes nothing any thread sees through the other
        prev = obs0
        for i, (op, (res, obs)) in enumerate(zip(history, steps)):
            other = 1 - op[2]
            for u in range(nthreads):
                a, b = prev[u][other], obs[u][other]
                if a[0] != b[0] or a[1] != b[1]:
                    fails.append(("C17_other_manager_untouched", i,
                                  f"{op[0]} on {'tensorly.tenalg' if op[2] else 'tensorly.backend'} by thread {op[1]} changed what thread {u} "
                                  f"observes through {'tensorly.tenalg' if other else 'tensorly.backend'}: {a[:2]} -> {b[:2]}"))
            prev = obs
    for m in managers:
        idx = [i for i, op in enumerate(history) if op[2] == m]
        hm = [history[i] for i in idx]
        rm = ([o[m] for o in obs0], [(steps[i][0], [o[m] for o in steps[i][1]]) for i in idx])
        for (pred, j, msg) in predicates_one(Mgr.get(m), nthreads, hm, rm):
            fails.append((pred, idx[j] if j >= 0 else -1, ("tensorly.tenalg: " if m else "tensorly.backend: ") + msg))
    fails.sort(key=lambda f: f[1])
    return fails


# ----------------------------------------------------------------------------- pool jobs
def _pool_job(job):
    """executed in a pool process (in its main thread): drives the histories and digests the results there:
    per history (case literal without id, first predicate failure | None, [operation:outcome ...]);
    plus, for the first history, a copy of its literal with ONE observation altered (sentinel) and a sample"""
    mode, main_actor, nthreads, histories = job
    if mode >= 3:
        return _micro_job(mode - 3, histories)
    results = run_histories(mode, main_actor, nthreads, histories)
    out = []
    for h, r in zip(histories, results):
        ds = encode(mode, True, nthreads, h, r)
        fails = predicates(mode, nthreads, h, r)
        outs = []
        for op, (res, _) in zip(h, r[1]):
            outs.append(f"{'tenalg' if op[2] else 'backend'}.{op[0]}{'/local' if op[0] != 'exit' and op[4] else ''}"
                        f"{'/exception' if op[0] == 'exit' and op[3] else ''}:{res}")
        out.append((pack(ds), fails[0] if fails else None, outs))
    extra = None
    if histories:
        h, r = histories[0], results[0]
        ds = encode(mode, True, nthreads, h, r)
        ds[-1] = (ds[-1] + 1) % 64          # the executing object seen last by the last thread becomes another one
        Ms = Mgr.both()
        sample = {"mode": ["tensorly.backend", "tensorly.tenalg", "both managers"][mode], "threads": nthreads,
                  "main_thread_acts": main_actor, "history": [op_lit(o) for o in h],
                  "observed_after_each_step": [[[(Ms[m].names.get(o[m][0], o[m][0]), o[m][1]) for m in (0, 1) if o[m] is not None]
                                                for o in obs] for _, obs in r[1]]}
        extra = (pack(ds), sample)
    return out, extra


def _micro_job(m, scenarios):
    Ms = Mgr.both()
    out, nlines = [], 0
    for sc in scenarios:
        for M in Ms:
            M.reset()
        r = drive_micro(m, sc)
        nlines += r[4]
        fails = predicates_micro(m, sc, r)
        out.append((pack(encode_micro(m, sc, r)), fails[0] if fails else None,
                    [f"{'tenalg' if m else 'backend'}.concurrent({sc[5] if len(sc) > 5 else 'line'}) {sc[1][0]}|{sc[2][0]}{'|' + sc[6][0] if len(sc) > 6 else ''}:{r[0]}|{r[1]}{'|' + r[5] if len(sc) > 6 else ''}"]))
    for M in Ms:
        M.reset()
    return out, None


def execute(groups, nproc):
    """run all groups in a fork pool (every process has its own main thread and managers)"""
    import multiprocessing as mp
    jobs, index = [], []
    for gi, g in enumerate(groups):
        hs = g[3]
        step = max(50, min(600, (len(hs) + nproc - 1) // nproc))
        for k in range(0, len(hs), step):
            jobs.append((g[0], g[1], g[2], hs[k:k + step]))
            index.append((gi, k))
    results = [[None] * len(g[3]) for g in groups]
    extras = []
    if nproc <= 1:
        outs = [_pool_job(j) for j in jobs]
    else:
        ctx = mp.get_context("fork")
        with ctx.Pool(nproc) as pool:
            outs = pool.map(_pool_job, jobs, chunksize=1)
    for (gi, k), (out, extra) in zip(index, outs):
        results[gi][k:k + len(out)] = out
        extras.append((gi, k, extra))
    return results, extras


# ----------------------------------------------------------------------------- run
def make_groups(tier, rng):
    """returns list of (mode, main_actor, nthreads, [histories], tag)"""
    Ms = Mgr.both()
    groups = []
    quick = tier == "quick"
    for m in (0, 1):
        M = Ms[m]
        sels = SEL_EXH if M.names_registered else [("o", 0), ("o", 1), ("n", 4)]
        # workers 1 and 2 act, the main thread (holding the import-time selection) observes
        groups.append((m, False, 3, exhaustive([1, 2], [m], sels, 3), "exhaustive-3"))
        if not quick:
            small = SEL_SMALL if M.names_registered else [("o", 1), ("n", 4)]
            groups.append((m, False, 3, exhaustive([1, 2], [m], small, 4), "exhaustive-4-small-alphabet"))
        # the main thread acts as well: all histories of length 2 (thorough: 3) over main + one worker
        groups.append((m, True, 2, exhaustive([0, 1], [m], sels, 2), "exhaustive-main"))
        nr = 1000 if quick else 5000
        ml = 12 if quick else 40
        groups.append((m, True, 3, [random_history(rng, [0, 1, 2], [m], ml) for _ in range(nr)], "random-3-main"))
        groups.append((m, False, 4, [random_history(rng, [1, 2, 3], [m], ml) for _ in range(nr // 3)], "random-3-workers"))
    # both managers in one history, every thread observes both after every step
    groups.append((2, True, 2, exhaustive([0, 1], [0, 1], SEL_SMALL, 2), "mixed-exhaustive-2"))
    if not quick:
        groups.append((2, False, 3, exhaustive([1, 2], [0, 1], SEL_SMALL, 3), "mixed-exhaustive-3"))
    nr = 1200 if quick else 5000
    groups.append((2, True, 3, [random_history(rng, [0, 1, 2], [0, 1], 12 if quick else 30) for _ in range(nr)], "mixed-random-3-main"))
    # two concurrent calls under line-granular schedules (sys.settrace turn taking), then the exits one at a time
    for m in (0, 1):
        groups.append((3 + m, False, 4, [random_scenario(rng, m) for _ in range(300 if quick else 4000)], "concurrent-pair-schedules"))
        groups.append((3 + m, False, 4, systematic_scenarios(m), "concurrent-pair-bytecode-sweep"))
        groups.append((3 + m, False, 5, [random_scenario3(rng, m) for _ in range(150 if quick else 2000)], "concurrent-triple-schedules"))
    return groups


def corpus_histories():
    import json
    d = os.path.join(C.VERIF, "corpus", "C17")
    out = []
    if os.path.isdir(d):
        for fn in sorted(os.listdir(d)):
            if fn.endswith(".json"):
                e = json.load(open(os.path.join(d, fn)))
                out.append((int(e["mode"]), bool(e["main_actor"]), int(e["nthreads"]), hist_from_json(e["history"])))
    return out


def hist_to_json(h):
    return [list(op[:3]) + ([list(op[3]), op[4]] if op[0] != "exit" else [op[3]]) for op in h]


def hist_from_json(j):
    return tuple((o[0], int(o[1]), int(o[2]), (o[3][0], int(o[3][1])), bool(o[4])) if o[0] != "exit"
                 else (o[0], int(o[1]), int(o[2]), bool(o[3])) for o in j)


def scenario_to_json(sc):
    setup, opA, opB, post, schedule = sc[:5]
    return {"setup": hist_to_json(setup), "a": hist_to_json([opA])[0], "b": hist_to_json([opB])[0],
            "post": hist_to_json(post), "schedule": list(schedule), "granularity": sc[5] if len(sc) > 5 else "line",
            "c": hist_to_json([sc[6]])[0] if len(sc) > 6 else None}


def scenario_from_json(j):
    return (hist_from_json(j["setup"]), hist_from_json([j["a"]])[0], hist_from_json([j["b"]])[0],
            hist_from_json(j["post"]), tuple(int(x) for x in j["schedule"]), j.get("granularity", "line")) \
        + ((hist_from_json([j["c"]])[0],) if j.get("c") else ())


ENTRY = {0: "tensorly.set_backend/backend_context", 1: "tensorly.tenalg.set_backend/backend_context",
         2: "tensorly.set_backend/backend_context + tensorly.tenalg.set_backend/backend_context"}


def run(chk):
    rng = random.Random(chk.seed)
    chk.build_proofs()
    C.reset_backends()
    t0 = time.time()
    groups = make_groups(chk.tier, rng)
    for (mode, main_actor, nthreads, h) in corpus_histories():
        groups.insert(0, (mode, main_actor, nthreads, [h], "corpus"))
    nproc = max(1, min(16, C.NPROC))
    results, extras = execute(groups, nproc)
    t_impl = time.time() - t0
    for M in Mgr.both():
        M.reset()
        M.unmark()
    # sentinels: copies of real cases with ONE observation altered must be reported as failing; they come FIRST so
    # that they stay inside the (capped) list of disagreeing ids of their shard
    cases, meta, found = [], [], []
    sentinels = []
    picks = [e for e in extras if e[2]]
    for (gi, k, extra) in [picks[0], picks[len(picks) // 2], picks[-1]] if picks else []:
        sentinels.append(len(cases))
        cases.append(f"({len(cases)}, {extra[0]})")
        meta.append(None)
    for g, res in zip(groups, results):
        mode, main_actor, nthreads, hs, tag = g
        gname = ["backend:", "tenalg:", "both:", "backend:", "tenalg:"][mode] + tag
        for h, (lit, fail, outs) in zip(hs, res):
            cid = len(cases)
            cases.append(f"({cid}, {lit})")
            meta.append((mode, main_actor, nthreads, h, tag))
            if mode >= 3:
                ops = list(h[0]) + [h[1], h[2]] + list(h[3])
                nontrivial = any(op[0] != "set" for op in (h[1], h[2]))
            else:
                ops = h
                nontrivial = len({op[1] for op in h}) > 1 and any(op[0] == "enter" for op in h)
            chk.count(key=(mode, main_actor, h), nontrivial=nontrivial)
            chk.hist("group", gname)
            chk.hist("length", len(ops))
            for o in outs:
                chk.hist("operation", o)
            if fail is not None:
                found.append((len(h), cid, fail))
    # shortest failing histories first; every finding carries the prefix of the history up to the failing step
    found.sort()
    for (_, cid, (pred, i, msg)) in found[:60]:
        mode, main_actor, nthreads, h, tag = meta[cid]
        if mode >= 3:
            chk.finding(ENTRY[mode - 3], {"mode": mode, "scenario": scenario_to_json(h)},
                        f"two concurrent calls under a line-granular schedule, follow-up step {i}: {msg}", pred)
            continue
        chk.finding(ENTRY[mode], {"mode": mode, "main_actor": main_actor, "nthreads": nthreads, "history": hist_to_json(h[:i + 1])},
                    f"step {i} ({op_lit(h[i]) if i >= 0 else 'start'}): {msg}", pred)
    if len(found) > 60:
        chk.notes.append(f"{len(found)} histories violate a predicate; the 60 shortest are reported")
    for (gi, k, extra) in extras[::max(1, len(extras) // 4)]:
        if extra:
            chk.sample(extra[1])
    # the programs extracted from the source of both manager classes
    src_ids = {}
    try:
        import tensorly as tl
        from tensorly.tenalg import TenalgBackendManager
        for m, cls in ((0, type(tl.backend)), (1, TenalgBackendManager)):
            try:
                progs = source_programs(cls)
            except Unsupported as e:
                chk.notes.append(f"source programs of {cls.__name__}: shape not understood by the translator, skipped ({e})")
                chk.hist("group", ["backend:", "tenalg:"][m] + "source-programs-skipped")
                continue
            src_ids[len(cases)] = (m, progs)
            cases.append(f"({len(cases)}, {pack([4] + program_digits(progs))})")
            meta.append(None)
            chk.count(key=("source-programs", m), nontrivial=True)
            chk.hist("group", ["backend:", "tenalg:"][m] + "source-programs")
    except Exception as e:  # noqa
        chk.notes.append(f"source programs: extraction failed, skipped ({e!r})")
    t1 = time.time()
    failing, n_eval, broken = C.run_case_shards("C17", HEADER, "case", cases, shard=2500, timeout=900)
    # a shard killed by the shell timeout (overloaded machine) is "not evaluated", never an alarm: its cases are
    # counted as skipped (a run in which the FIRST shard, which holds the sentinels, is lost cannot vouch for the comparator)
    timed_out = [b for b in broken if b.get("rc") == 124]
    broken = [b for b in broken if b.get("rc") != 124]
    chk.cov["model_seconds"] = round(time.time() - t1, 1)
    chk.cov["shards_skipped_by_timeout"] = len(timed_out)
    for sid in sentinels:
        if sid not in failing and not broken and not timed_out:
            chk.broken.append({"what": "correspondence corr:C17 comparator did not flag an altered observation (sentinel)", "detail": cases[sid][:200]})
        failing.discard(sid)
    n_eval -= len(sentinels) if not (broken or timed_out) else 0
    try:
        import tensorly as tl
        static = sorted(a for a in getattr(tl.backend, "_attributes", []) if a in vars(tl) and a not in getattr(tl.backend, "_functions", []))
        if static:
            chk.notes.append("tensorly/__init__.py binds these dispatched ATTRIBUTES statically at import, so tensorly.<name> does not follow the "
                             "backend (tensorly.backend.<name> does): " + ", ".join(static) + ". Not judged: C17 speaks of dispatched functions "
                             "(see build/fix_candidates/C17_static_attributes.md)")
    except Exception:
        pass
    chk.checker_cmds.append("coqc (vm_compute) on generated build/cases/C17/*.v: Corr.C17.failing")
    chk.cov["traces_validated_against_impl"] = n_eval
    chk.cov["exhaustive"] = True
    chk.cov["impl_seconds"] = round(t_impl, 1)
    chk.cov["rule"] = ("for EACH manager: every feasible history of length 3 (all shorter ones are their prefixes and are observed on the way) over the "
                       "28-letter alphabet {set, enter} x {known name, instance, unknown name} x {global, local} + exit {normal, exception} of two worker threads "
                       "with the main thread observing (thorough adds length 4 over the 20-letter alphabet without the known name); every history of length 2 "
                       "over the main thread and one worker; random histories to length 12 (thorough: 40) over three actor threads with and without "
                       "the main thread among them, selectors: all names (stock, harness-registered, listed-but-not-importable, unknown, wrong case, a name of the "
                       "OTHER manager), four instances of two harness backend classes, two non-instances. BOTH managers in one history: every history of length 2 "
                       "(thorough: 3 over two workers) over {main, worker} x {backend, tenalg} x {instance, unknown name}, random histories to length 12 (30) over "
                       "three threads incl. main, every thread observing both managers. Concurrent pairs: two calls (set / enter / exit) of threads 1 and 2 "
                       "interleaved at source-line granularity or (every second scenario) at BYTECODE granularity (f_trace_opcodes) by sys.settrace turn taking "
                       "(300 random scenario x schedule per manager, thorough 4000; plus a systematic sweep: 4 canonical pairs of non-local calls x one thread "
                       "stopped after k = 0..59 bytecodes; plus 150 (thorough 2000) scenarios of THREE concurrent calls), "
                       "outcome compared with the set of outcomes of all sequential orders of their blocks (conclusion of C17_micro_atomic). After EVERY operation EVERY thread reports get_backend() and the identity "
                       "of the object executing a dispatched call. Source programs: the acts of set_backend / backend_context / current_backend are extracted from the "
                       "current source (ast) for both manager classes and checked in Coq (effect-point discipline, block equivalence with the model's programs "
                       "on 18 states each). Non-trivial = at least two threads act and a context is entered; distinct key = (mode, "
                       "main-thread role, history). At most 40 disagreeing cases per shard of 2500 are listed")
    for b in broken:
        chk.broken.append({"what": "correspondence corr:C17 shard not evaluated", "detail": b})
    for i in sorted(failing):
        if i in src_ids:
            m, progs = src_ids[i]
            chk.disagreement("corr:C17 source programs (acts extracted from the source of set_backend / backend_context break the effect-point "
                             "discipline of C17_micro_atomic or differ from the model's programs as blocks)",
                             {"manager": "tensorly.tenalg" if m else "tensorly.backend", "programs [set, enter, exit, exit-by-exception] x [global, local]": progs})
            continue
        mode, main_actor, nthreads, h, tag = meta[i]
        if mode >= 3:
            chk.disagreement("corr:C17 micro (outcome of two concurrent calls under a line-granular schedule is not that of any sequential order of their blocks)",
                             {"mode": mode, "scenario": scenario_to_json(h)})
            continue
        chk.disagreement("corr:C17 (Model/Backend.v vs tensorly.backend / tensorly.tenalg managers)",
                         {"mode": mode, "main_actor": main_actor, "nthreads": nthreads, "history": hist_to_json(h)})
    chk.assumptions = ["operations are atomic: the driver issues one operation at a time and waits for it (the property quantifies over interleavings of whole operations)",
                       "the instance load_backend creates for a name is identified with the name (the identity of cached instances is not part of the property)",
                       "contexts of the two managers opened by one thread are left innermost-first (they are `with` blocks on one Python stack)",
                       "CPython threads; threading.local storage of a fresh thread is empty"]
    chk.trusted = ["marker methods/attributes on harness backend subclasses and on the stock instances reveal the executing object of a dispatched call",
                   "the harness appends its two backend names to the manager's available_backend_names so that they can be selected by name"]
    return chk.finish()


def replay(payload):
    if payload.get("kind") != "failing-input":
        print("replay file names a broken theorem/correspondence, not an input:", payload.get("theorem_or_correspondence"))
        return 1
    inp = payload["inputs"]
    if int(inp["mode"]) >= 3:
        m = int(inp["mode"]) - 3
        sc = scenario_from_json(inp["scenario"])
        Ms = Mgr.both()
        for M in Ms:
            M.reset()
        r = drive_micro(m, sc)
        for M in Ms:
            M.reset()
            M.unmark()
        fails = predicates_micro(m, sc, r)
        for f in fails[:5]:
            print("replay:", f)
        return 1 if fails else 0
    mode, main_actor, nthreads = int(inp["mode"]), bool(inp["main_actor"]), int(inp["nthreads"])
    h = hist_from_json(inp["history"])
    Ms = Mgr.both()
    r = run_histories(mode, main_actor, nthreads, [h])[0]
    for M in Ms:
        M.unmark()
    fails = predicates(mode, nthreads, h, r)
    for f in fails[:5]:
        print("replay:", f)
    if not fails:
        print("replay: all C17 predicates hold on", [op_lit(o) for o in h])
    return 1 if fails else 0
