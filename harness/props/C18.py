"""C18 -- results stay in the numeric context (dtype) of the input.
Correspondence: (a) the NEP-50 promotion / true-division / abs tables of Model/Dtype.v against the installed NumPy (measured on
every run); (b) the dtype skeletons of Model/Dtype.v against the dtype of EVERY array returned by every configuration of the
entry-point table below, for float32 / float64 (+ complex64 / complex128 where supported) data and none / same / bool / int64 /
float64 masks.  Predicate (independent of the Coq model): every returned array has the floating dtype of the input data
(documented exceptions: leverage scores float64, integer index outputs; real-valued-by-definition outputs of complex data).

Table rows:
   name   : unique configuration name
   ep     : dotted public entry point
   fam    : Gallina skeleton family (constructor of Model.Dtype.family)
   opts   : skeleton options (rendered into the Gallina `cfg` record)
   mask   : None | 'same' | 'bool' | 'int' | 'f64'   (dtype class of a caller-supplied mask)
   dts    : data dtypes the configuration is run with
   build  : D -> zero-argument callable (arguments bound as defaults, fresh on every build) returning the result structure
   real   : slots that are real-valued by definition (norms, errors, singular values, metrics)
   exempt : {slot: reason} documented exceptions
"""
import os
import random
import numpy as np
from harness import common as C


F32, F64, C128 = "float32", "float64", "complex128"
REALS = (F32, F64)
ALL3 = (F32, F64, C128)


class D:
    """fresh, deterministic argument builder for one dtype"""

    def __init__(self, dtype, seed=0):
        self.dt = np.dtype(dtype)
        self.rs = np.random.RandomState(seed)

    def arr(self, *shape, pos=True):
        a = self.rs.rand(*shape) if pos else self.rs.randn(*shape)
        if self.dt.kind == "c":
            a = a + 1j * self.rs.rand(*shape)
        return a.astype(self.dt)

    def mask(self, shape, kind):
        m = self.rs.rand(*shape) > 0.2
        if kind == "same":
            return m.astype(self.dt)
        if kind == "bool":
            return m
        if kind == "int":
            return m.astype(np.int64)
        if kind == "f64":
            return m.astype(np.float64)
        if kind == "f32":
            return m.astype(np.float32)
        raise KeyError(kind)

    def collinear(self, shape=(6, 5, 4), rank=3, eps=0.05):
        """slowly converging CP problem: near-collinear components (swamp) + a little noise"""
        fs = []
        for s in shape:
            base = self.rs.rand(s, 1)
            fs.append(base + eps * self.rs.rand(s, rank))
        t = np.einsum("ir,jr,kr->ijk", *fs) + 1e-3 * self.rs.rand(*shape)
        if self.dt.kind == "c":
            t = t + 1j * 0.1 * np.einsum("ir,jr,kr->ijk", *[f[:, ::-1] for f in fs])
        return t.astype(self.dt)


CONSTRAINTS = [("nonneg", dict(non_negative=True)), ("l1", dict(l1_reg=0.1)), ("l2", dict(l2_reg=0.1)),
               ("l2sq", dict(l2_square_reg=0.1)), ("unimodal", dict(unimodality=True)), ("normalize", dict(normalize=True)),
               ("simplex", dict(simplex=1.0)), ("normsparse", dict(normalized_sparsity=2)), ("softsparse", dict(soft_sparsity=1.0)),
               ("smooth", dict(smoothness=0.1)), ("monotone", dict(monotonicity=True)), ("hardsparse", dict(hard_sparsity=3))]


def table(tier="quick"):
    import tensorly as tl
    from tensorly import tenalg
    from tensorly import decomposition as dec
    from tensorly.decomposition._cmtf_als import coupled_matrix_tensor_3d_factorization
    from tensorly.decomposition import sample_khatri_rao
    from tensorly.contrib.decomposition import tensor_train_cross
    from tensorly.tenalg import proximal as P
    from tensorly.solvers.nnls import hals_nnls, fista, active_set_nnls
    from tensorly.solvers.admm import admm
    from tensorly.regression import CPRegressor, TuckerRegressor
    from tensorly.regression.cp_plsr import CP_PLSR
    from tensorly import cp_tensor as cpt
    from tensorly import random as tlr
    from tensorly import metrics as M
    from tensorly.metrics import regression as MR
    from tensorly.preprocessing import svd_compress_tensor_slices
    from tensorly.cp_tensor import CPTensor

    T = []
    R = 2
    SH = (4, 3, 5)

    def add(name, ep, build, fam=None, opts=None, mask=None, dts=REALS, real=(), exempt=None, n=3, slotmap=None):
        T.append(dict(name=name, ep=ep, build=build, fam=fam, opts=opts or {}, mask=mask, dts=tuple(dts), real=set(real),
                      exempt=exempt or {}, n=n, slotmap=slotmap or {}))

    def cpinit(d):
        return np.ones(R, dtype=d.dt), [d.arr(s, R) for s in SH]

    ERR = {"#1"}
    # ------------------------------------------------------------------ parafac
    pf = "tensorly.decomposition.parafac"
    add("parafac_svd", pf, lambda d: (lambda X=d.arr(*SH): dec.parafac(X, R, n_iter_max=3, return_errors=True)),
        fam="FParafac", opts=dict(init="ISvd", errors=True), dts=ALL3, real=ERR)
    add("parafac_random", pf, lambda d: (lambda X=d.arr(*SH): dec.parafac(X, R, n_iter_max=3, init="random", random_state=1, return_errors=True)),
        fam="FParafac", opts=dict(init="IRandom", errors=True), dts=ALL3, real=ERR)
    add("parafac_l2reg_orth", pf, lambda d: (lambda X=d.arr(*SH): dec.parafac(X, R, n_iter_max=3, init="random", random_state=1, l2_reg=0.1, orthogonalise=True)),
        fam="FParafac", opts=dict(init="IRandom", l2reg=True), dts=ALL3)
    add("parafac_norm_ls9", pf, lambda d: (lambda X=d.arr(*SH): dec.parafac(X, R, n_iter_max=9, normalize_factors=True, linesearch=True, init="random", random_state=1)),
        fam="FParafac", opts=dict(init="IRandom", normalize=True, linesearch=True), dts=ALL3, real={".weights"})
    add("parafac_linesearch_accepted", pf,
        lambda d: (lambda X=d.collinear(): dec.parafac(X, 3, n_iter_max=30, tol=0, linesearch=True, init="random", random_state=3, return_errors=True)),
        fam="FParafac", opts=dict(init="IRandom", linesearch=True, errors=True), dts=ALL3, real=ERR, n=30)
    add("parafac_sparsity", pf, lambda d: (lambda X=d.arr(*SH): dec.parafac(X, R, n_iter_max=3, sparsity=0.1, init="random", random_state=1)),
        fam="FParafac", opts=dict(init="IRandom", sparsity=True))
    add("parafac_init_tuple", pf, lambda d: (lambda X=d.arr(*SH), i=cpinit(d): dec.parafac(X, R, n_iter_max=2, init=i)),
        fam="FParafac", opts=dict(init="IUser"), dts=ALL3)
    add("parafac_init_cptensor", pf, lambda d: (lambda X=d.arr(*SH), i=CPTensor(cpinit(d)): dec.parafac(X, R, n_iter_max=2, init=i)),
        fam="FParafac", opts=dict(init="IUser"), dts=ALL3)
    add("parafac_fixed", pf, lambda d: (lambda X=d.arr(*SH), i=cpinit(d): dec.parafac(X, R, n_iter_max=2, init=i, fixed_modes=[0, 2])),
        fam="FParafac", opts=dict(init="IUser"), dts=ALL3)
    for mk in ("same", "bool", "int", "f64"):
        for init in ("random", "svd"):
            add(f"parafac_mask_{mk}_{init}", pf,
                lambda d, mk=mk, init=init: (lambda X=d.arr(*SH), m=d.mask(SH, mk): dec.parafac(X, R, n_iter_max=3, mask=m, init=init, random_state=1, return_errors=True)),
                fam="FParafac", opts=dict(init="IRandom" if init == "random" else "ISvd", errors=True), mask=mk, real=ERR)
        add(f"parafac_mask_{mk}_noerr", pf,
            lambda d, mk=mk: (lambda X=d.arr(*SH), m=d.mask(SH, mk): dec.parafac(X, R, n_iter_max=3, mask=m, init="random", random_state=1, tol=0)),
            fam="FParafac", opts=dict(init="IRandom", errors=False), mask=mk)
    add("randomised_parafac", "tensorly.decomposition.randomised_parafac",
        lambda d: (lambda X=d.arr(*SH): dec.randomised_parafac(X, R, n_samples=8, n_iter_max=3, random_state=1, return_errors=True)),
        fam="FRandParafac", opts=dict(init="IRandom", errors=True), real=ERR)
    add("randomised_parafac_svd", "tensorly.decomposition.randomised_parafac",
        lambda d: (lambda X=d.arr(*SH): dec.randomised_parafac(X, R, n_samples=8, n_iter_max=3, init="svd", random_state=1)),
        fam="FRandParafac", opts=dict(init="ISvd"))
    add("sample_khatri_rao", "tensorly.decomposition.sample_khatri_rao",
        lambda d: (lambda fs=cpinit(d)[1]: sample_khatri_rao(fs, 5, random_state=1, return_sampled_rows=True)), fam="FSampleKR",
        exempt={"#1": "sampled row indices", "#2": "sampled row indices"})
    # ------------------------------------------------------------------ non-negative CP
    add("nn_parafac", "tensorly.decomposition.non_negative_parafac",
        lambda d: (lambda X=d.arr(*SH): dec.non_negative_parafac(X, R, n_iter_max=3, init="random", random_state=1, return_errors=True)),
        fam="FNNParafac", opts=dict(init="IRandom", errors=True), real=ERR)
    add("nn_parafac_svd_norm", "tensorly.decomposition.non_negative_parafac",
        lambda d: (lambda X=d.arr(*SH): dec.non_negative_parafac(X, R, n_iter_max=3, init="svd", normalize_factors=True)),
        fam="FNNParafac", opts=dict(init="ISvd", normalize=True))
    add("nn_parafac_init", "tensorly.decomposition.non_negative_parafac",
        lambda d: (lambda X=d.arr(*SH), i=cpinit(d): dec.non_negative_parafac(X, R, n_iter_max=2, init=i)),
        fam="FNNParafac", opts=dict(init="IUser"))
    for mk in ("same", "bool"):
        add(f"nn_parafac_mask_{mk}", "tensorly.decomposition.non_negative_parafac",
            lambda d, mk=mk: (lambda X=d.arr(*SH), m=d.mask(SH, mk): dec.non_negative_parafac(X, R, n_iter_max=3, init="random", random_state=1, mask=m)),
            fam="FNNParafac", opts=dict(init="IRandom"), mask=mk)
    add("nn_parafac_hals", "tensorly.decomposition.non_negative_parafac_hals",
        lambda d: (lambda X=d.arr(*SH): dec.non_negative_parafac_hals(X, R, n_iter_max=3, init="random", random_state=1, return_errors=True)),
        fam="FNNParafacHals", opts=dict(init="IRandom", errors=True), real=ERR)
    add("nn_parafac_hals_svd_nnmodes", "tensorly.decomposition.non_negative_parafac_hals",
        lambda d: (lambda X=d.arr(*SH): dec.non_negative_parafac_hals(X, R, n_iter_max=2, init="svd", nn_modes=[0, 1])),
        fam="FNNParafacHals", opts=dict(init="ISvd"))
    add("nn_parafac_hals_init", "tensorly.decomposition.non_negative_parafac_hals",
        lambda d: (lambda X=d.arr(*SH), i=cpinit(d): dec.non_negative_parafac_hals(X, R, n_iter_max=2, init=i)),
        fam="FNNParafacHals", opts=dict(init="IUser"))
    add("nn_parafac_hals_sparsity", "tensorly.decomposition.non_negative_parafac_hals",
        lambda d: (lambda X=d.arr(*SH): dec.non_negative_parafac_hals(X, R, n_iter_max=2, sparsity_coefficients=[0.1, 0.1, 0.1], fixed_modes=[0], normalize_factors=True)),
        fam="FNNParafacHals", opts=dict(init="ISvd", normalize=True))
    # ------------------------------------------------------------------ constrained CP (all 12 constraint kinds)
    cp_ = "tensorly.decomposition.constrained_parafac"
    for cname, kw in CONSTRAINTS:
        add("constrained_" + cname, cp_,
            lambda d, kw=kw: (lambda X=d.arr(*SH): dec.constrained_parafac(X, R, n_iter_max=3, init="random", random_state=1, return_errors=True, **kw)),
            fam="FConstrained", opts=dict(init="IRandom", prox=cname, errors=True), real=ERR)
    add("constrained_svd", cp_, lambda d: (lambda X=d.arr(*SH): dec.constrained_parafac(X, R, n_iter_max=3, init="svd", non_negative=True)),
        fam="FConstrained", opts=dict(init="ISvd", prox="nonneg"))
    add("constrained_init", cp_, lambda d: (lambda X=d.arr(*SH), i=cpinit(d): dec.constrained_parafac(X, R, n_iter_max=2, init=i, non_negative=True)),
        fam="FConstrained", opts=dict(init="IUser", prox="nonneg"))
    add("constrained_permode", cp_, lambda d: (lambda X=d.arr(*SH): dec.constrained_parafac(X, R, n_iter_max=2, init="random", random_state=1, non_negative={0: True}, simplex={1: 1.0}, l1_reg={2: 0.1})),
        fam="FConstrained", opts=dict(init="IRandom", prox="simplex"))
    # ------------------------------------------------------------------ Tucker
    tk = "tensorly.decomposition.tucker"
    RK = [2, 2, 2]

    def tkinit(d):
        return d.arr(2, 2, 2), [d.arr(s, 2) for s in SH]
    add("tucker", tk, lambda d: (lambda X=d.arr(*SH): dec.tucker(X, RK, n_iter_max=3, return_errors=True)), fam="FTucker",
        opts=dict(init="ISvd", errors=True), dts=ALL3, real=ERR)
    add("tucker_random", tk, lambda d: (lambda X=d.arr(*SH): dec.tucker(X, RK, n_iter_max=3, init="random", random_state=1)), fam="FTucker",
        opts=dict(init="IRandom"), dts=ALL3)
    add("tucker_init", tk, lambda d: (lambda X=d.arr(*SH), i=tkinit(d): dec.tucker(X, RK, n_iter_max=2, init=i)), fam="FTucker",
        opts=dict(init="IUser"), dts=ALL3)
    add("tucker_fixed", tk, lambda d: (lambda X=d.arr(*SH), i=tkinit(d): dec.tucker(X, RK, n_iter_max=2, init=i, fixed_factors=[1])), fam="FTucker",
        opts=dict(init="IUser"), dts=ALL3)
    for mk in ("same", "bool", "int", "f64"):
        for init in ("svd", "random"):
            add(f"tucker_mask_{mk}_{init}", tk,
                lambda d, mk=mk, init=init: (lambda X=d.arr(*SH), m=d.mask(SH, mk): dec.tucker(X, RK, n_iter_max=3, mask=m, init=init, random_state=1)),
                fam="FTucker", opts=dict(init="ISvd" if init == "svd" else "IRandom"), mask=mk)
    add("partial_tucker", "tensorly.decomposition.partial_tucker",
        lambda d: (lambda X=d.arr(*SH): dec.partial_tucker(X, [2, 2], modes=[0, 2], n_iter_max=3)), fam="FPartialTucker",
        opts=dict(init="ISvd", errors=True), dts=ALL3, real={"#1"})
    add("nn_tucker", "tensorly.decomposition.non_negative_tucker",
        lambda d: (lambda X=d.arr(*SH): dec.non_negative_tucker(X, RK, n_iter_max=3, init="random", random_state=1, return_errors=True)),
        fam="FNNTucker", opts=dict(init="IRandom", errors=True), real=ERR)
    add("nn_tucker_svd", "tensorly.decomposition.non_negative_tucker",
        lambda d: (lambda X=d.arr(*SH): dec.non_negative_tucker(X, RK, n_iter_max=3, init="svd")), fam="FNNTucker", opts=dict(init="ISvd"))
    add("nn_tucker_init", "tensorly.decomposition.non_negative_tucker",
        lambda d: (lambda X=d.arr(*SH), i=tkinit(d): dec.non_negative_tucker(X, RK, n_iter_max=2, init=i)), fam="FNNTucker", opts=dict(init="IUser"))
    nth = "tensorly.decomposition.non_negative_tucker_hals"
    add("nn_tucker_hals", nth, lambda d: (lambda X=d.arr(*SH): dec.non_negative_tucker_hals(X, RK, n_iter_max=3, init="random", random_state=1, return_errors=True)),
        fam="FNNTuckerHals", opts=dict(init="IRandom", errors=True, alg="fista"), real=ERR)
    add("nn_tucker_hals_as", nth, lambda d: (lambda X=d.arr(*SH): dec.non_negative_tucker_hals(X, RK, n_iter_max=2, init="random", random_state=1, algorithm="active_set")),
        fam="FNNTuckerHals", opts=dict(init="IRandom", alg="active_set"))
    add("nn_tucker_hals_init", nth, lambda d: (lambda X=d.arr(*SH), i=tkinit(d): dec.non_negative_tucker_hals(X, RK, n_iter_max=2, init=i)),
        fam="FNNTuckerHals", opts=dict(init="IUser", alg="fista"))
    add("nn_tucker_hals_svd_sparse", nth, lambda d: (lambda X=d.arr(*SH): dec.non_negative_tucker_hals(X, RK, n_iter_max=2, init="svd", sparsity_coefficients=[0.1, 0.1, 0.1], core_sparsity_coefficient=0.1, normalize_factors=True)),
        fam="FNNTuckerHals", opts=dict(init="ISvd", alg="fista"))
    # ------------------------------------------------------------------ PARAFAC2, TT, TR, cross, CMTF, robust PCA, power iteration
    def slices(d):
        return [d.arr(4 + i, 5) for i in range(3)]
    p2 = "tensorly.decomposition.parafac2"
    add("parafac2", p2, lambda d: (lambda sl=slices(d): dec.parafac2(sl, R, n_iter_max=3, random_state=1, return_errors=True)), fam="FParafac2",
        opts=dict(init="IRandom", errors=True), real=ERR)
    add("parafac2_nn", p2, lambda d: (lambda sl=slices(d): dec.parafac2(sl, R, n_iter_max=3, random_state=1, nn_modes=[0, 2])), fam="FParafac2",
        opts=dict(init="IRandom", nn=True))
    add("parafac2_svd_norm", p2, lambda d: (lambda sl=slices(d): dec.parafac2(sl, R, n_iter_max=3, init="svd", normalize_factors=True)), fam="FParafac2",
        opts=dict(init="ISvd", normalize=True))
    add("parafac2_linesearch", p2, lambda d: (lambda sl=slices(d): dec.parafac2(sl, R, n_iter_max=12, random_state=1, linesearch=True, tol=1e-13)), fam="FParafac2",
        opts=dict(init="IRandom", linesearch=True))
    add("tensor_train", "tensorly.decomposition.tensor_train", lambda d: (lambda X=d.arr(*SH): dec.tensor_train(X, [1, 2, 2, 1])), fam="FSvdChain", dts=ALL3)
    add("tensor_train_matrix", "tensorly.decomposition.tensor_train_matrix", lambda d: (lambda X=d.arr(2, 3, 2, 3): dec.tensor_train_matrix(X, [1, 2, 1])), fam="FSvdChain", dts=ALL3)
    add("tensor_ring", "tensorly.decomposition.tensor_ring", lambda d: (lambda X=d.arr(*SH): dec.tensor_ring(X, [2, 2, 2, 2])), fam="FSvdChain", dts=ALL3)
    add("tensor_ring_als", "tensorly.decomposition.tensor_ring_als",
        lambda d: (lambda X=d.arr(*SH): dec.tensor_ring_als(X, [2, 2, 2, 2], n_iter_max=3, random_state=1)), fam="FTrAls")
    add("tensor_ring_als_sampled", "tensorly.decomposition.tensor_ring_als_sampled",
        lambda d: (lambda X=d.arr(*SH): dec.tensor_ring_als_sampled(X, [2, 2, 2, 2], n_samples=10, n_iter_max=3, random_state=1)),
        fam="FTrAlsSampled")
    add("tt_cross", "tensorly.contrib.decomposition.tensor_train_cross", lambda d: (lambda X=d.arr(*SH): tensor_train_cross(X, [1, 2, 2, 1], random_state=1)), fam="FTTCross")
    add("cmtf", "tensorly.decomposition._cmtf_als.coupled_matrix_tensor_3d_factorization",
        lambda d: (lambda X=d.arr(*SH), Y=d.arr(4, 3): coupled_matrix_tensor_3d_factorization(X, Y, R, n_iter_max=3)), fam="FCmtf", opts=dict(init="ISvd"), real={"#2"})
    add("cmtf_random_norm", "tensorly.decomposition._cmtf_als.coupled_matrix_tensor_3d_factorization",
        lambda d: (lambda X=d.arr(*SH), Y=d.arr(4, 6): coupled_matrix_tensor_3d_factorization(X, Y, R, init="random", n_iter_max=2, normalize_factors=True)), fam="FCmtf",
        opts=dict(init="IRandom", normalize=True), dts=ALL3, real={"#2", "#0.weights", "#1.weights"})
    for mk in (None, "same", "bool", "int", "f64"):
        add("robust_pca" + ("_mask_" + mk if mk else ""), "tensorly.decomposition.robust_pca",
            lambda d, mk=mk: (lambda X=d.arr(*SH), m=(d.mask(SH, mk) if mk else None): dec.robust_pca(X, mask=m, n_iter_max=3, verbose=0)),
            fam="FRobustPca", mask=mk)
    add("power_iteration", "tensorly.decomposition.parafac_power_iteration",
        lambda d: (lambda X=d.arr(*SH): dec.parafac_power_iteration(X, R, n_repeat=2, n_iteration=2)), fam="FPower")
    add("symmetric_power_iteration", "tensorly.decomposition.symmetric_parafac_power_iteration",
        lambda d: (lambda X=d.arr(3, 3, 3): dec.symmetric_parafac_power_iteration(X + X.transpose(1, 0, 2) + X.transpose(2, 1, 0) + X.transpose(0, 2, 1) + X.transpose(1, 2, 0) + X.transpose(2, 0, 1), R, n_repeat=2, n_iteration=2)),
        fam="FPower")
    # ------------------------------------------------------------------ proximal operators (matrix and vector arguments)
    PROX = [("nonneg", lambda v: P.proximal_operator(v, non_negative=True)), ("soft", lambda v: P.soft_thresholding(v, 0.1)),
            ("l1", lambda v: P.proximal_operator(v, l1_reg=0.1)),
            ("l2", lambda v: P.l2_prox(v, 0.1)), ("l2sq", lambda v: P.l2_square_prox(v, 0.1)), ("smooth", lambda v: P.smoothness_prox(v, 0.1)),
            ("simplex", lambda v: P.simplex_prox(v, 1.0)), ("softsparse", lambda v: P.soft_sparsity_prox(v, 1.0)),
            ("monotone", lambda v: P.monotonicity_prox(v)), ("monotone_dec", lambda v: P.monotonicity_prox(v, decreasing=True)),
            ("unimodal", lambda v: P.unimodality_prox(v)), ("hardsparse", lambda v: P.hard_thresholding(v, 3)),
            ("normsparse", lambda v: P.normalized_sparsity_prox(v, 3)), ("normalize", lambda v: P.proximal_operator(v, normalize=True)),
            ("svt", lambda v: P.svd_thresholding(v, 0.1)), ("procrustes", lambda v: P.procrustes(v))]
    for pname, call in PROX:
        add("prox_" + pname, "tensorly.tenalg.proximal." + pname, lambda d, call=call: (lambda v=d.arr(4, 3): call(v)), fam="FProx", opts=dict(prox=pname))
        if pname not in ("svt", "procrustes"):
            add("prox_" + pname + "_vec", "tensorly.tenalg.proximal." + pname, lambda d, call=call: (lambda v=d.arr(5): call(v)), fam="FProx", opts=dict(prox=pname))
    # ------------------------------------------------------------------ NNLS solvers and ADMM
    def nnls_data(d, cols=3):
        Mx = d.arr(6, 4)
        UtU = (Mx.T @ Mx).astype(d.dt)
        UtM = (Mx.T @ d.arr(6, cols)).astype(d.dt)
        return UtM, UtU
    hn = "tensorly.solvers.nnls.hals_nnls"
    add("hals_nnls_cold", hn, lambda d: (lambda a=nnls_data(d): hals_nnls(a[0], a[1])), fam="FHalsNnls", opts=dict(warm=False))
    add("hals_nnls_warm", hn, lambda d: (lambda a=nnls_data(d), V=d.arr(4, 3): hals_nnls(a[0], a[1], V=V)), fam="FHalsNnls", opts=dict(warm=True))
    add("hals_nnls_sparse_ridge", hn, lambda d: (lambda a=nnls_data(d): hals_nnls(a[0], a[1], sparsity_coefficient=0.1, ridge_coefficient=0.1, nonzero_rows=True, exact=False, epsilon=1e-8)),
        fam="FHalsNnls", opts=dict(warm=False))
    add("hals_nnls_nonzero_rows_reset", hn,
        lambda d: (lambda a=nnls_data(d), V=np.zeros((4, 3), dtype=d.dt): hals_nnls(-np.abs(a[0]), a[1], V=V + 0, nonzero_rows=True, n_iter_max=3)),
        fam="FHalsNnls", opts=dict(warm=True))
    fi = "tensorly.solvers.nnls.fista"
    add("fista_cold", fi, lambda d: (lambda a=nnls_data(d): fista(a[0], a[1], n_iter_max=20)), fam="FFista", opts=dict(warm=False))
    add("fista_warm_lr", fi, lambda d: (lambda a=nnls_data(d), x=d.arr(4, 3): fista(a[0], a[1], x=x, lr=0.01, sparsity_coef=0.1, ridge_coef=0.1, n_iter_max=20)), fam="FFista", opts=dict(warm=True))
    add("fista_unconstrained", fi, lambda d: (lambda a=nnls_data(d): fista(a[0], a[1], non_negative=False, n_iter_max=20)), fam="FFista", opts=dict(warm=False))
    ac = "tensorly.solvers.nnls.active_set_nnls"
    add("active_set_cold", ac, lambda d: (lambda a=nnls_data(d, 1): active_set_nnls(a[0][:, 0], a[1])), fam="FActiveSet", opts=dict(warm=False, fallback=False))
    add("active_set_warm", ac, lambda d: (lambda a=nnls_data(d, 1), x=d.arr(4): active_set_nnls(a[0][:, 0], a[1], x=x)), fam="FActiveSet", opts=dict(warm=True, fallback=False))
    add("active_set_warm_singular", ac,
        lambda d: (lambda Utm=np.array([1, 1, 0.5], dtype=d.dt), UtU=np.array([[1, 1, 0], [1, 1, 0], [0, 0, 1]], dtype=d.dt), x=np.ones(3, dtype=d.dt): active_set_nnls(Utm, UtU, x=x)),
        fam="FActiveSet", opts=dict(warm=True, fallback=True))
    ad = "tensorly.solvers.admm.admm"

    def admm_args(d):
        UtM, UtU = nnls_data(d)
        return UtM.T.copy(), UtU, d.arr(3, 4), np.zeros((3, 4), dtype=d.dt)
    for cname, kw in CONSTRAINTS:
        add("admm_" + cname, ad, lambda d, kw=kw: (lambda a=admm_args(d): admm(a[0], a[1], a[2], a[3], n_const=1, order=0, n_iter_max=5, **kw)),
            fam="FAdmm", opts=dict(prox=cname))
    add("admm_unconstrained", ad, lambda d: (lambda a=admm_args(d): admm(a[0], a[1], a[2], a[3], n_iter_max=5)), fam="FAdmm", opts=dict(prox="none"))
    # ------------------------------------------------------------------ regressors
    add("cp_regressor", "tensorly.regression.CPRegressor",
        lambda d: (lambda X=d.arr(6, 3, 4), y=d.arr(6): (lambda m: (m.predict(X), m.weight_tensor_, m.cp_weight_, m.vec_W_))(CPRegressor(2, random_state=1, verbose=0, n_iter_max=3).fit(X, y))),
        fam="FCpReg")
    add("tucker_regressor", "tensorly.regression.TuckerRegressor",
        lambda d: (lambda X=d.arr(6, 3, 4), y=d.arr(6): (lambda m: (m.predict(X), m.weight_tensor_, m.tucker_weight_, m.vec_W_))(TuckerRegressor([2, 2], random_state=1, verbose=0, n_iter_max=3).fit(X, y))),
        fam="FTuckerReg", opts=dict(alt=True))
    add("cp_plsr", "tensorly.regression.cp_plsr.CP_PLSR",
        lambda d: (lambda X=d.arr(6, 3, 4), Y=d.arr(6, 2): (lambda m: (m.predict(X), m.transform(X, Y), m.X_factors, m.Y_factors, m.coef_))(CP_PLSR(2, random_state=1).fit(X, Y))),
        fam="FPlsr")
    # ------------------------------------------------------------------ SVD interface
    for meth in ("truncated_svd", "symeig_svd", "randomized_svd"):
        add("svd_" + meth, "tensorly.tenalg.svd.svd_interface",
            lambda d, meth=meth: (lambda Mx=d.arr(6, 4): tl.svd_interface(Mx, n_eigenvecs=2, method=meth, **({"random_state": 1} if meth == "randomized_svd" else {}))),
            fam="FSvd", opts=dict(flip=True), dts=ALL3, real={"#1"})
    for mk in ("same", "bool", "int"):
        add("svd_nonneg_mask_" + mk, "tensorly.tenalg.svd.svd_interface",
            lambda d, mk=mk: (lambda Mx=d.arr(6, 4), m=d.mask((6, 4), mk): tl.svd_interface(Mx, n_eigenvecs=2, non_negative=True, mask=m)),
            fam="FSvd", opts=dict(nonneg=True), mask=mk, real={"#1"})
    add("svd_nndsvda", "tensorly.tenalg.svd.svd_interface",
        lambda d: (lambda Mx=d.arr(6, 4): tl.svd_interface(Mx, n_eigenvecs=2, non_negative="nndsvda")), fam="FSvd", opts=dict(nonneg=True), real={"#1"})
    # ------------------------------------------------------------------ CP tensor utilities, tensor algebra
    add("cp_normalize", "tensorly.cp_tensor.cp_normalize", lambda d: (lambda i=cpinit(d): cpt.cp_normalize(i)), fam="FCpNormalize", dts=ALL3, real={".weights"})
    add("cp_flip_sign", "tensorly.cp_tensor.cp_flip_sign", lambda d: (lambda i=cpinit(d): cpt.cp_flip_sign(i)), fam="FFlipSign", dts=ALL3, real={".weights"})
    add("cp_flip_sign_no_weights", "tensorly.cp_tensor.cp_flip_sign", lambda d: (lambda i=cpinit(d): cpt.cp_flip_sign((None, i[1]))), fam="FFlipSign", dts=ALL3, real={".weights"})
    add("cp_permute_factors", "tensorly.cp_tensor.cp_permute_factors",
        lambda d: (lambda i=cpinit(d): cpt.cp_permute_factors(CPTensor(i), [CPTensor((i[0].copy(), [f[:, ::-1].copy() for f in i[1]]))])), fam="FPermute",
        exempt={"#1": "permutation indices"})
    # the plain mask multipliers (repaired by ba7a532: the mask is cast into the context of the factors):
    # every mask dtype class, all four data dtypes, both tenalg backends, the one-matrix / 1-D shortcuts
    # the skeleton variant of the plain mask multipliers is SELECTED FROM THE SOURCE of this tree: an entry point that re-binds `mask` to
    # tl.tensor(mask, **tl.context(...)) before using it (the candidate repair build/fix_candidates/C18_mask_multiplier.diff) is compared with
    # FMaskMulCast (the code since the repair ba7a532), one that uses the mask as passed in with FMaskMul (the code before it): a regression is then
    # compared with the right skeleton and reported by the predicate with a failing input
    MMV = mask_multiplier_variants(C.REPO)
    for mk in ("same", "bool", "int", "f64", "f32"):
        add("cp_to_tensor_mask" + ("" if mk == "same" else "_" + mk), "tensorly.cp_tensor.cp_to_tensor",
            lambda d, mk=mk: (lambda i=cpinit(d), m=d.mask(SH, mk): (cpt.cp_to_tensor(i, mask=m), cpt.cp_to_tensor((i[0], i[1][:1]), mask=m[:, 0, 0]), cpt.cp_to_tensor((None, i[1]), mask=m))),
            fam=MMV["cp_to_tensor"], mask=mk, dts=ALL3, slotmap={"#0": "out0", "#1": "out0", "#2": "out0"})
        add("khatri_rao_mask_" + mk, "tensorly.tenalg.khatri_rao",
            lambda d, mk=mk: (lambda i=cpinit(d), m=d.mask(SH, mk): (tenalg.khatri_rao(i[1], mask=m), tenalg.khatri_rao(i[1][:1], mask=m[:, 0, 0]), tenalg.khatri_rao(i[1], weights=i[0], skip_matrix=1, mask=m[:, 0, :]),
                                                                     _einsum(lambda: tenalg.khatri_rao(i[1], mask=m)))),
            fam=MMV["khatri_rao"], mask=mk, dts=ALL3, slotmap={"#0": "out0", "#1": "out0", "#2": "out0", "#3": "out0"})
        add("cp_lstsq_grad_mask_" + mk, "tensorly.cp_tensor.cp_lstsq_grad",
            lambda d, mk=mk: (lambda i=cpinit(d), X=d.arr(*SH), m=d.mask(SH, mk): cpt.cp_lstsq_grad(CPTensor(i), X, return_loss=True, mask=m)),
            fam=MMV["cp_lstsq_grad"], opts=dict(alt=True), mask=mk, dts=ALL3)
    add("cp_lstsq_grad_nomask", "tensorly.cp_tensor.cp_lstsq_grad",
        lambda d: (lambda i=cpinit(d), X=d.arr(*SH): cpt.cp_lstsq_grad(CPTensor(i), X, return_loss=True)), fam=MMV["cp_lstsq_grad"], opts=dict(alt=True), dts=ALL3)
    add("cp_to_unfolded_vec", "tensorly.cp_tensor.cp_to_vec", lambda d: (lambda i=cpinit(d): (cpt.cp_to_vec(i), cpt.cp_to_unfolded(i, 1))), fam="FPure", dts=ALL3)
    add("cp_mode_dot", "tensorly.cp_tensor.cp_mode_dot", lambda d: (lambda i=cpinit(d), Mx=d.arr(2, 3): cpt.cp_mode_dot(CPTensor(i), Mx, 1, copy=True)), fam="FPure", dts=ALL3)
    add("cp_norm", "tensorly.cp_tensor.cp_norm", lambda d: (lambda i=cpinit(d): cpt.cp_norm(i)), fam="FPure", dts=ALL3, real={""})
    add("cp_lstsq_grad", "tensorly.cp_tensor.cp_lstsq_grad", lambda d: (lambda i=cpinit(d), X=d.arr(*SH): cpt.cp_lstsq_grad(CPTensor(i), X, return_loss=True)), fam="FPure", real={"#1"})
    add("tucker_to_tensor", "tensorly.tucker_tensor.tucker_to_tensor", lambda d: (lambda i=tkinit(d): tl.tucker_to_tensor(i)), fam="FPure", dts=ALL3)
    add("tt_tr_to_tensor", "tensorly.tt_tensor.tt_to_tensor",
        lambda d: (lambda a=[d.arr(1, 3, 2), d.arr(2, 4, 2), d.arr(2, 2, 1)], b=[d.arr(2, 3, 2), d.arr(2, 4, 2), d.arr(2, 2, 2)]: (tl.tt_to_tensor(a), tl.tr_to_tensor(b))),
        fam="FPure", dts=ALL3)
    add("mttkrp", "tensorly.tenalg.unfolding_dot_khatri_rao", lambda d: (lambda X=d.arr(*SH), i=cpinit(d): tenalg.unfolding_dot_khatri_rao(X, i, 1)), fam="FPure", dts=ALL3)
    add("multi_mode_dot", "tensorly.tenalg.multi_mode_dot", lambda d: (lambda X=d.arr(*SH), i=tkinit(d): tenalg.multi_mode_dot(X, i[1], transpose=True)), fam="FPure", dts=ALL3)
    add("khatri_rao_kron", "tensorly.tenalg.khatri_rao",
        lambda d: (lambda i=cpinit(d): (tenalg.khatri_rao(i[1]), tenalg.kronecker(i[1][:2]), tenalg.inner(i[1][0], i[1][0]), tenalg.outer([i[1][0][:, 0], i[1][1][:, 0]]))),
        fam="FPure", dts=ALL3)
    add("khatri_rao_vectors", "tensorly.tenalg.khatri_rao", lambda d: (lambda u=d.arr(4), v=d.arr(3): (tenalg.khatri_rao([u, v]), tenalg.khatri_rao([u, v], mask=np.ones((4, 3), dtype=bool)))),
        fam="FPure", dts=ALL3)
    add("mttkrp_einsum", "tensorly.tenalg.unfolding_dot_khatri_rao", lambda d: (lambda X=d.arr(*SH), i=cpinit(d): _einsum(lambda: tenalg.unfolding_dot_khatri_rao(X, i, 1))), fam="FPure", dts=ALL3)
    add("higher_order_moment", "tensorly.tenalg.higher_order_moment", lambda d: (lambda X=d.arr(6, 3): tenalg.higher_order_moment(X, 3)), fam="FMoment")
    # ------------------------------------------------------------------ random generators with dtype=
    add("random_cp", "tensorly.random.random_cp", lambda d: (lambda: tlr.random_cp((3, 4, 2), 2, random_state=1, dtype=d.dt)), fam="FRandom")
    add("random_cp_orth_norm", "tensorly.random.random_cp", lambda d: (lambda: tlr.random_cp((3, 4, 2), 2, random_state=1, orthogonal=True, normalise_factors=True, dtype=d.dt)), fam="FRandom", opts=dict(alt=True, normalize=True))
    add("random_cp_full", "tensorly.random.random_cp", lambda d: (lambda: tlr.random_cp((3, 4, 2), 2, full=True, random_state=1, dtype=d.dt)), fam="FRandom")
    add("random_tucker", "tensorly.random.random_tucker", lambda d: (lambda: tlr.random_tucker((3, 4, 2), [2, 2, 2], random_state=1, dtype=d.dt)), fam="FRandom")
    add("random_tucker_orth_nn", "tensorly.random.random_tucker", lambda d: (lambda: (tlr.random_tucker((3, 4, 2), [2, 2, 2], orthogonal=True, random_state=1, dtype=d.dt), tlr.random_tucker((3, 4, 2), [2, 2, 2], non_negative=True, full=True, random_state=1, dtype=d.dt))), fam="FRandom", opts=dict(alt=True, warm=True))
    add("random_tt", "tensorly.random.random_tt", lambda d: (lambda: tlr.random_tt((3, 4, 2), [1, 2, 2, 1], random_state=1, dtype=d.dt)), fam="FRandom")
    add("random_tr", "tensorly.random.random_tr", lambda d: (lambda: tlr.random_tr((3, 4, 2), [2, 2, 2, 2], random_state=1, dtype=d.dt)), fam="FRandom")
    add("random_tt_matrix", "tensorly.random.random_tt_matrix", lambda d: (lambda: tlr.random_tt_matrix((2, 3, 2, 3), [1, 2, 1], random_state=1, dtype=d.dt)), fam="FRandom")
    add("random_parafac2", "tensorly.random.random_parafac2", lambda d: (lambda: tlr.random_parafac2([(4, 3), (5, 3)], 2, random_state=1, dtype=d.dt)), fam="FRandom")
    add("random_tensor", "tensorly.random.random_tensor", lambda d: (lambda: tlr.random_tensor((3, 4), random_state=1, dtype=d.dt)), fam="FRandom")
    # ------------------------------------------------------------------ metrics, preprocessing
    add("congruence", "tensorly.metrics.congruence_coefficient", lambda d: (lambda i=cpinit(d): M.congruence_coefficient(i[1][0], i[1][0][:, ::-1].copy())), fam="FIndexed",
        exempt={"#1": "permutation indices"})
    add("correlation_index", "tensorly.metrics.correlation_index", lambda d: (lambda i=cpinit(d), j=cpinit(d): M.correlation_index(i[1], j[1])), fam="FMetric")
    add("regression_metrics", "tensorly.metrics.regression.MSE",
        lambda d: (lambda a=d.arr(7), b=d.arr(7): (MR.MSE(a, b), MR.RMSE(a, b), MR.R2_score(a, b), MR.correlation(a, b), MR.covariance(a, b), MR.variance(a), MR.standard_deviation(a))), fam="FMetric")
    add("leverage", "tensorly.metrics.leverage_score_dist", lambda d: (lambda Mx=d.arr(6, 4): M.leverage_score_dist(Mx)), fam="FLeverage",
        exempt={"": "documented: leverage-score distributions are always float64"})
    add("compress", "tensorly.preprocessing.svd_compress_tensor_slices", lambda d: (lambda sl=slices(d): svd_compress_tensor_slices(sl, max_rank=3)), fam="FCompress")
    # ------------------------------------------------------------------ rows added from a line-coverage survey of the allocation sites
    # (branches of the anchored code that no earlier row executed)
    from tensorly import tucker_tensor as tkt, tt_tensor as ttt, tr_tensor as trt, tt_matrix as ttm, parafac2_tensor as p2t
    from tensorly.metrics import entropy as ENT
    from tensorly.contrib.decomposition import tensor_train_OI
    from tensorly.tenalg.core_tenalg.mttkrp import unfolding_dot_khatri_rao_memory
    from tensorly.preprocessing import svd_decompress_parafac2_tensor
    SH2 = (2, 3, 4)
    # SVD initialisation with rank > mode size: the missing columns are filled with tl.tensor(rng.random_sample(...), **context)
    add("parafac_svd_rank_gt_dim", pf, lambda d: (lambda X=d.arr(*SH2): dec.parafac(X, 3, n_iter_max=2, init="svd", random_state=1)),
        fam="FParafac", opts=dict(init="ISvd"), dts=ALL3)
    add("nn_parafac_svd_rank_gt_dim", "tensorly.decomposition.non_negative_parafac",
        lambda d: (lambda X=d.arr(*SH2): dec.non_negative_parafac(X, 3, n_iter_max=2, init="svd", random_state=1)), fam="FNNParafac", opts=dict(init="ISvd"))
    add("nn_parafac_hals_svd_rank_gt_dim", "tensorly.decomposition.non_negative_parafac_hals",
        lambda d: (lambda X=d.arr(*SH2): dec.non_negative_parafac_hals(X, 3, n_iter_max=2, init="svd", random_state=1)), fam="FNNParafacHals", opts=dict(init="ISvd"))
    add("constrained_svd_rank_gt_dim", cp_, lambda d: (lambda X=d.arr(*SH2): dec.constrained_parafac(X, 3, n_iter_max=2, init="svd", random_state=1, non_negative=True)),
        fam="FConstrained", opts=dict(init="ISvd", prox="nonneg"))
    add("parafac2_svd_rank_gt_dim", p2, lambda d: (lambda sl=[d.arr(4 + i, 2) for i in range(3)]: dec.parafac2(sl, 2, n_iter_max=2, init="svd")), fam="FParafac2",
        opts=dict(init="ISvd"))
    # wide matrices, V-based sign flips, more singular vectors than rows/columns (svd_flip concatenates tl.ones(..., **context(V)))
    for meth in ("truncated_svd", "symeig_svd", "randomized_svd"):
        add("svd_wide_" + meth, "tensorly.tenalg.svd.svd_interface",
            lambda d, meth=meth: (lambda Mx=d.arr(3, 7): tl.svd_interface(Mx, n_eigenvecs=2, method=meth, u_based_flip_sign=False, **({"random_state": 1} if meth == "randomized_svd" else {}))),
            fam="FSvd", opts=dict(flip=True), dts=ALL3, real={"#1"})
    add("svd_full_tall", "tensorly.tenalg.svd.svd_interface", lambda d: (lambda Mx=d.arr(5, 3): tl.svd_interface(Mx, n_eigenvecs=5)), fam="FSvd", opts=dict(flip=True), dts=ALL3, real={"#1"})
    add("svd_full_wide_vflip", "tensorly.tenalg.svd.svd_interface", lambda d: (lambda Mx=d.arr(3, 5): tl.svd_interface(Mx, n_eigenvecs=5, u_based_flip_sign=False)), fam="FSvd", opts=dict(flip=True), dts=ALL3, real={"#1"})
    add("svd_noflip_all", "tensorly.tenalg.svd.svd_interface", lambda d: (lambda Mx=d.arr(4, 4): tl.svd_interface(Mx, flip_sign=False)), fam="FSvd", opts=dict(flip=False), dts=ALL3, real={"#1"})
    for mk in ("same", "bool"):
        add("svd_mask_plain_" + mk, "tensorly.tenalg.svd.svd_interface",
            lambda d, mk=mk: (lambda Mx=d.arr(6, 4), m=d.mask((6, 4), mk): tl.svd_interface(Mx, n_eigenvecs=2, mask=m, n_iter_mask_imputation=2)),
            fam="FSvd", opts=dict(flip=True), mask=mk, real={"#1"})
    for mk in ("bool", "int"):
        add("partial_tucker_mask_" + mk, "tensorly.decomposition.partial_tucker",
            lambda d, mk=mk: (lambda X=d.arr(*SH), m=d.mask(SH, mk): dec.partial_tucker(X, [2, 2], modes=[0, 2], n_iter_max=2, mask=m)), fam="FPartialTucker",
            opts=dict(init="ISvd", errors=True), mask=mk, real={"#1"})
    add("parafac_mask_bool_linesearch", pf,
        lambda d: (lambda X=d.collinear(), m=d.mask((6, 5, 4), "bool"): dec.parafac(X, 3, n_iter_max=12, tol=0, linesearch=True, mask=m, init="random", random_state=3, return_errors=True)),
        fam="FParafac", opts=dict(init="IRandom", linesearch=True, errors=True), mask="bool", real=ERR, n=12)
    # class wrappers (same code through fit_transform)
    add("class_CP", "tensorly.decomposition.CP", lambda d: (lambda X=d.arr(*SH): dec.CP(R, n_iter_max=2, init="random", random_state=1).fit_transform(X)), fam="FParafac", opts=dict(init="IRandom"), dts=ALL3)
    add("class_CP_mask_bool", "tensorly.decomposition.parafac", lambda d: (lambda X=d.arr(*SH), m=d.mask(SH, "bool"): dec.CP(R, n_iter_max=2, init="random", random_state=1, mask=m).fit_transform(X)),
        fam="FParafac", opts=dict(init="IRandom"), mask="bool")
    add("class_Tucker", "tensorly.decomposition.Tucker", lambda d: (lambda X=d.arr(*SH): dec.Tucker(RK, n_iter_max=2).fit_transform(X)), fam="FTucker", opts=dict(init="ISvd"), dts=ALL3)
    add("class_CP_NN_HALS", "tensorly.decomposition.CP_NN_HALS", lambda d: (lambda X=d.arr(*SH): dec.CP_NN_HALS(R, n_iter_max=2, init="random", random_state=1).fit_transform(X)), fam="FNNParafacHals", opts=dict(init="IRandom"))
    add("class_ConstrainedCP", "tensorly.decomposition.ConstrainedCP", lambda d: (lambda X=d.arr(*SH): dec.ConstrainedCP(R, n_iter_max=2, init="random", random_state=1, l1_reg=0.1).fit_transform(X)),
        fam="FConstrained", opts=dict(init="IRandom", prox="l1"))
    add("class_TensorTrain_Ring", "tensorly.decomposition.TensorTrain", lambda d: (lambda X=d.arr(*SH): (dec.TensorTrain([1, 2, 2, 1]).fit_transform(X), dec.TensorRing([2, 2, 2, 2]).fit_transform(X))), fam="FSvdChain", dts=ALL3)
    add("class_Parafac2", "tensorly.decomposition.Parafac2", lambda d: (lambda sl=slices(d): dec.Parafac2(R, n_iter_max=2, random_state=1, return_errors=True).fit_transform(sl)), fam="FParafac2", opts=dict(init="IRandom"))
    add("class_CPPower", "tensorly.decomposition.CPPower", lambda d: (lambda X=d.arr(*SH): dec.CPPower(R, n_repeat=2, n_iteration=2).fit_transform(X)), fam="FPower")
    # the SAME estimator object fitted twice, first with data of the OTHER precision: state kept on the instance (decomposition_, weight_tensor_, X_factors ...)
    # must not reach the results of the second fit (history independence for instance state; the module-level kinds are covered by harness/props/C18_hist.py)
    def other(d):
        return D({"float32": "float64", "float64": "float32", "complex64": "complex128", "complex128": "complex64"}[str(d.dt)], 1)

    def twice(m, first, second):
        first(m)
        return second(m)
    add("class_CP_refit", "tensorly.decomposition.CP",
        lambda d: (lambda X=d.arr(*SH), X0=other(d).arr(*SH): twice(dec.CP(R, n_iter_max=2, init="random", random_state=1), lambda m: m.fit_transform(X0), lambda m: m.fit_transform(X))),
        fam="FParafac", opts=dict(init="IRandom"), dts=ALL3)
    add("class_Tucker_refit", "tensorly.decomposition.Tucker",
        lambda d: (lambda X=d.arr(*SH), X0=other(d).arr(*SH): twice(dec.Tucker(RK, n_iter_max=2), lambda m: m.fit_transform(X0), lambda m: m.fit_transform(X))),
        fam="FTucker", opts=dict(init="ISvd"), dts=ALL3)
    add("class_CP_NN_HALS_refit", "tensorly.decomposition.CP_NN_HALS",
        lambda d: (lambda X=d.arr(*SH), X0=other(d).arr(*SH): twice(dec.CP_NN_HALS(R, n_iter_max=2, init="random", random_state=1), lambda m: m.fit_transform(X0), lambda m: m.fit_transform(X))),
        fam="FNNParafacHals", opts=dict(init="IRandom"))
    add("class_ConstrainedCP_refit", "tensorly.decomposition.ConstrainedCP",
        lambda d: (lambda X=d.arr(*SH), X0=other(d).arr(*SH): twice(dec.ConstrainedCP(R, n_iter_max=2, init="random", random_state=1, smoothness=0.1), lambda m: m.fit_transform(X0), lambda m: m.fit_transform(X))),
        fam="FConstrained", opts=dict(init="IRandom", prox="smooth"))
    add("class_TensorTrain_Ring_refit", "tensorly.decomposition.TensorTrain",
        lambda d: (lambda X=d.arr(*SH), X0=other(d).arr(*SH): (twice(dec.TensorTrain([1, 2, 2, 1]), lambda m: m.fit_transform(X0), lambda m: m.fit_transform(X)),
                                                               twice(dec.TensorRing([2, 2, 2, 2]), lambda m: m.fit_transform(X0), lambda m: m.fit_transform(X)))),
        fam="FSvdChain", dts=ALL3)
    add("class_Parafac2_refit", "tensorly.decomposition.Parafac2",
        lambda d: (lambda sl=slices(d), sl0=slices(other(d)): twice(dec.Parafac2(R, n_iter_max=2, random_state=1, return_errors=True), lambda m: m.fit_transform(sl0), lambda m: m.fit_transform(sl))),
        fam="FParafac2", opts=dict(init="IRandom"))
    add("class_CPPower_refit", "tensorly.decomposition.CPPower",
        lambda d: (lambda X=d.arr(*SH), X0=other(d).arr(*SH): twice(dec.CPPower(R, n_repeat=2, n_iteration=2), lambda m: m.fit_transform(X0), lambda m: m.fit_transform(X))), fam="FPower")
    add("cp_regressor_refit", "tensorly.regression.CPRegressor",
        lambda d: (lambda X=d.arr(6, 3, 4), y=d.arr(6), X0=other(d).arr(6, 3, 4), y0=other(d).arr(6):
                   twice(CPRegressor(2, random_state=1, verbose=0, n_iter_max=3), lambda m: m.fit(X0, y0), lambda m: (m.fit(X, y).predict(X), m.weight_tensor_, m.cp_weight_, m.vec_W_))),
        fam="FCpReg")
    add("tucker_regressor_refit", "tensorly.regression.TuckerRegressor",
        lambda d: (lambda X=d.arr(6, 3, 4), y=d.arr(6), X0=other(d).arr(6, 3, 4), y0=other(d).arr(6):
                   twice(TuckerRegressor([2, 2], random_state=1, verbose=0, n_iter_max=3), lambda m: m.fit(X0, y0), lambda m: (m.fit(X, y).predict(X), m.weight_tensor_, m.tucker_weight_, m.vec_W_))),
        fam="FTuckerReg", opts=dict(alt=True))
    add("cp_plsr_refit", "tensorly.regression.cp_plsr.CP_PLSR",
        lambda d: (lambda X=d.arr(6, 3, 4), Y=d.arr(6, 2), X0=other(d).arr(6, 3, 4), Y0=other(d).arr(6, 2):
                   twice(CP_PLSR(2, random_state=1), lambda m: m.fit(X0, Y0), lambda m: (m.fit(X, Y).predict(X), m.transform(X, Y), m.X_factors, m.Y_factors, m.coef_))),
        fam="FPlsr")
    # (round 8) the remaining estimator classes of the library: REFIT_ROWS below names a refit row for EVERY class with a fit method found in the source
    from tensorly.decomposition._tucker import Tucker_NN, Tucker_NN_HALS
    from tensorly.contrib.decomposition import TensorTrain_OI

    def refit(name, ep, make, fam, opts=None, dts=REALS, real=(), data=None):
        data = data or (lambda d: d.arr(*SH))
        add(name, ep, lambda d: (lambda X=data(d), X0=data(other(d)): twice(make(), lambda m: m.fit_transform(X0), lambda m: m.fit_transform(X))),
            fam=fam, opts=opts, dts=dts, real=real)

    def symm(d):
        X = d.arr(3, 3, 3)
        return X + X.transpose(1, 0, 2) + X.transpose(2, 1, 0) + X.transpose(0, 2, 1) + X.transpose(1, 2, 0) + X.transpose(2, 0, 1)
    refit("class_RandomizedCP_refit", "tensorly.decomposition.RandomizedCP", lambda: dec.RandomizedCP(R, 8, n_iter_max=3, random_state=1, verbose=0),
          "FRandParafac", dict(init="IRandom"))
    refit("class_CP_NN_refit", "tensorly.decomposition.CP_NN", lambda: dec.CP_NN(R, n_iter_max=3, init="random", random_state=1), "FNNParafac", dict(init="IRandom"))
    refit("class_SymmetricCP_refit", "tensorly.decomposition.SymmetricCP", lambda: dec.SymmetricCP(R, n_repeat=2, n_iteration=2), "FPower", data=symm)
    refit("class_TensorRingALS_refit", "tensorly.decomposition.TensorRingALS", lambda: dec.TensorRingALS([2, 2, 2, 2], n_iter_max=3, random_state=1), "FTrAls")
    refit("class_TensorRingALSSampled_refit", "tensorly.decomposition.TensorRingALSSampled",
          lambda: dec.TensorRingALSSampled([2, 2, 2, 2], 10, n_iter_max=3, random_state=1), "FTrAlsSampled")
    refit("class_TensorTrainMatrix_refit", "tensorly.decomposition.TensorTrainMatrix", lambda: dec.TensorTrainMatrix([1, 2, 1]), "FSvdChain", dts=ALL3,
          data=lambda d: d.arr(2, 3, 2, 3))
    refit("class_Tucker_NN_refit", "tensorly.decomposition._tucker.Tucker_NN", lambda: Tucker_NN(RK, n_iter_max=3, init="random", random_state=1),
          "FNNTucker", dict(init="IRandom"))
    refit("class_Tucker_NN_HALS_refit", "tensorly.decomposition._tucker.Tucker_NN_HALS", lambda: Tucker_NN_HALS(RK, n_iter_max=2, init="random", random_state=1),
          "FNNTuckerHals", dict(init="IRandom", alg="fista"))
    refit("class_TensorTrain_OI_refit", "tensorly.contrib.decomposition.TensorTrain_OI", lambda: TensorTrain_OI([1, 2, 2, 1], 2, True, False), "FSvdChain")    # (trajectory=False raises UnboundLocalError for most n_iter: a defect outside C18)
    add("tensor_train_OI", "tensorly.contrib.decomposition.tensor_train_OI", lambda d: (lambda X=d.arr(*SH): (tensor_train_OI(X, [1, 2, 2, 1], n_iter=1, return_errors=True), tensor_train_OI(X, [1, 2, 2, 1], n_iter=2, trajectory=True, return_errors=False))), fam="FSvdChain")
    add("tensor_ring_als_sampled_uniform", "tensorly.decomposition.tensor_ring_als_sampled",
        lambda d: (lambda X=d.arr(*SH): dec.tensor_ring_als_sampled(X, [2, 2, 2, 2], n_samples=10, n_iter_max=3, random_state=1, uniform_sampling=True)), fam="FTrAlsSampled", opts=dict(alt=True))
    add("tensor_ring_als_ls_solve", "tensorly.decomposition.tensor_ring_als",
        lambda d: (lambda X=d.arr(*SH): dec.tensor_ring_als(X, [2, 2, 2, 2], n_iter_max=3, random_state=1, ls_solve="normal_eq")), fam="FTrAls")
    # factorised-tensor conversions
    add("cp_normalize_no_weights", "tensorly.cp_tensor.cp_normalize", lambda d: (lambda i=cpinit(d): cpt.cp_normalize((None, i[1]))), fam="FCpNormalize", dts=ALL3, real={".weights"})
    add("cp_object_methods", "tensorly.cp_tensor.CPTensor",
        lambda d: (lambda i=cpinit(d), Mx=d.arr(2, 3): (lambda c: (c.to_tensor(), c.to_vec(), c.to_unfolded(1), c.norm(), c.mode_dot(Mx, 1, copy=True), c.normalize(inplace=False)))(CPTensor(i))),
        fam="FPure", dts=ALL3, real={"#3", "#5.weights"})
    add("tucker_conversions", "tensorly.tucker_tensor.tucker_to_unfolded",
        lambda d: (lambda i=tkinit(d), Mx=d.arr(3, 4), v=d.arr(3): (tkt.tucker_to_unfolded(i, 1), tkt.tucker_to_vec(i), tkt.tucker_to_tensor(i, skip_factor=1), tkt.tucker_to_tensor((i[0], [f.T.copy() for f in i[1]]), transpose_factors=True),
                                                                      tkt.tucker_mode_dot(i, Mx, 0, copy=True), tkt.tucker_mode_dot(i, v, 1, keep_dim=True, copy=True), tkt.tucker_normalize(i))),
        fam="FPure", dts=ALL3)
    add("tt_conversions", "tensorly.tt_tensor.tt_to_unfolded",
        lambda d: (lambda a=[d.arr(1, 3, 2), d.arr(2, 4, 2), d.arr(2, 2, 1)]: (ttt.tt_to_unfolded(a, 1), ttt.tt_to_vec(a), ttt.pad_tt_rank(a, n_padding=1), ttt.pad_tt_rank(a, n_padding=2, pad_boundaries=True))),
        fam="FPure", dts=ALL3)
    add("tr_conversions", "tensorly.tr_tensor.tr_to_unfolded",
        lambda d: (lambda b=[d.arr(2, 3, 2), d.arr(2, 4, 2), d.arr(2, 2, 2)]: (trt.tr_to_unfolded(b, 1), trt.tr_to_vec(b))), fam="FPure", dts=ALL3)
    add("tt_matrix_conversions", "tensorly.tt_matrix.tt_matrix_to_tensor",
        lambda d: (lambda a=[d.arr(1, 2, 3, 2), d.arr(2, 2, 2, 1)]: (ttm.tt_matrix_to_tensor(a), ttm.tt_matrix_to_matrix(a), ttm.tt_matrix_to_unfolded(a, 1), ttm.tt_matrix_to_vec(a),
                                                                     _einsum(lambda: ttm.tt_matrix_to_tensor(a)))), fam="FPure", dts=ALL3)

    def p2tensor(d):
        projs = [np.linalg.qr(d.rs.randn(4 + i, 2))[0].astype(d.dt) for i in range(3)]
        return (np.ones(2, dtype=d.dt), [d.arr(3, 2), d.arr(2, 2), d.arr(5, 2)], projs)
    add("parafac2_conversions", "tensorly.parafac2_tensor.parafac2_to_tensor",
        lambda d: (lambda x=p2tensor(d): (p2t.parafac2_to_tensor(x), p2t.parafac2_to_slices(x), p2t.parafac2_to_slice(x, 1), p2t.parafac2_to_unfolded(x, 1), p2t.parafac2_to_vec(x),
                                          p2t.apply_parafac2_projections(x), p2t.parafac2_normalise(x))), fam="FPure")
    add("parafac2_normalise_no_weights", "tensorly.parafac2_tensor.parafac2_normalise",
        lambda d: (lambda x=p2tensor(d): p2t.parafac2_normalise((None, x[1], x[2]))), fam="FPure")
    add("svd_decompress_parafac2", "tensorly.preprocessing.svd_decompress_parafac2_tensor",
        lambda d: (lambda sl=slices(d): (lambda cs: svd_decompress_parafac2_tensor(dec.parafac2(cs[0], R, n_iter_max=2, random_state=1), cs[1]))(svd_compress_tensor_slices(sl, compression_threshold=0.0))), fam="FPure")
    # tensor algebra: remaining variants
    add("mttkrp_memory", "tensorly.tenalg.core_tenalg.mttkrp.unfolding_dot_khatri_rao_memory",
        lambda d: (lambda X=d.arr(*SH), i=cpinit(d): unfolding_dot_khatri_rao_memory(X, i, 1)), fam="FPure", dts=ALL3)
    add("tenalg_einsum_variants", "tensorly.tenalg.mode_dot",
        lambda d: (lambda X=d.arr(*SH), i=tkinit(d), Y=d.arr(3, 5, 2): _einsum(lambda: (tenalg.mode_dot(X, i[1][1].T.copy(), 1), tenalg.multi_mode_dot(X, i[1], transpose=True), tenalg.kronecker(i[1][:2]),
                                                                                   tenalg.outer([i[1][0][:, 0], i[1][1][:, 0]]), tenalg.inner(X, X), tenalg.tensordot(X, Y, modes=([1, 2], [0, 1])),
                                                                                   tenalg.khatri_rao(i[1])))), fam="FPure", dts=ALL3)
    add("tenalg_core_tensordot", "tensorly.tenalg.tensordot",
        lambda d: (lambda X=d.arr(*SH), Y=d.arr(3, 5, 2), Z=d.arr(4, 3, 2): (tenalg.tensordot(X, Y, modes=([1, 2], [0, 1])), tenalg.tensordot(X, Z, modes=([1], [1]), batched_modes=([0], [0])),
                                                                           tenalg.mode_dot(X, d.arr(3), 1), tenalg.batched_outer([X[:, :, 0], X[:, :, 1]]))), fam="FPure", dts=ALL3)
    add("higher_order_moment_einsum", "tensorly.tenalg.higher_order_moment", lambda d: (lambda X=d.arr(6, 3): _einsum(lambda: tenalg.higher_order_moment(X, 3))), fam="FMoment")
    # regressors with a matrix-valued target, metrics
    add("cp_regressor_matrix_y", "tensorly.regression.CPRegressor",
        lambda d: (lambda X=d.arr(6, 3, 4), y=d.arr(6, 2): (lambda m: (m.predict(X), m.weight_tensor_, m.cp_weight_, m.vec_W_))(CPRegressor(2, random_state=1, verbose=0, n_iter_max=3, reg_W=0.5).fit(X, y))),
        fam="FCpReg")
    add("tucker_regressor_reg", "tensorly.regression.TuckerRegressor",
        lambda d: (lambda X=d.arr(6, 3, 4), y=d.arr(6): (lambda m: (m.predict(X), m.weight_tensor_, m.tucker_weight_, m.vec_W_))(TuckerRegressor([2, 2], random_state=1, verbose=0, n_iter_max=3, reg_W=0.5).fit(X, y))),
        fam="FTuckerReg", opts=dict(alt=True))
    add("cp_plsr_vector_y", "tensorly.regression.cp_plsr.CP_PLSR",
        lambda d: (lambda X=d.arr(6, 3, 4), Y=d.arr(6): (lambda m: (m.predict(X), m.fit_transform(X, Y), m.X_factors, m.Y_factors, m.coef_))(CP_PLSR(2, random_state=1).fit(X, Y))), fam="FPlsr")
    add("entropy_metrics", "tensorly.metrics.entropy.vonneumann_entropy",
        lambda d: (lambda A=d.arr(4, 3), i=cpinit(d), a=[d.arr(1, 3, 2), d.arr(2, 3, 1)]: (ENT.vonneumann_entropy((A @ A.T) / np.trace(A @ A.T)), ENT.cp_vonneumann_entropy((np.abs(i[0]), i[1])), ENT.tt_vonneumann_entropy(tl.tt_tensor.TTTensor(a)))),
        fam="FMetric")
    add("reflective_correlation", "tensorly.metrics.regression.reflective_correlation_coefficient",
        lambda d: (lambda a=d.arr(7), b=d.arr(7): MR.reflective_correlation_coefficient(a, b)), fam="FMetric")
    # backend-level generators with a context
    add("backend_randn_gamma", "tensorly.randn",
        lambda d: (lambda: (tl.randn((3, 2), seed=1, **tl.context(np.zeros(1, dtype=d.dt))), tl.gamma(2.0, size=(3, 2), seed=1, **tl.context(np.zeros(1, dtype=d.dt))))), fam="FRandom")
    # both remaining branches of svd_flip (the sign vector is padded with tl.ones(..., **context(V)))
    add("svd_full_wide_uflip", "tensorly.tenalg.svd.svd_interface", lambda d: (lambda Mx=d.arr(3, 5): tl.svd_interface(Mx, n_eigenvecs=5)), fam="FSvd", opts=dict(flip=True), dts=ALL3, real={"#1"})
    add("svd_full_tall_vflip", "tensorly.tenalg.svd.svd_interface", lambda d: (lambda Mx=d.arr(5, 3): tl.svd_interface(Mx, n_eigenvecs=5, u_based_flip_sign=False)), fam="FSvd", opts=dict(flip=True), dts=ALL3, real={"#1"})
    # backend-level functions implemented in backend/core.py / numpy_backend.py
    add("backend_functions", "tensorly.norm",
        lambda d: (lambda X=d.arr(4, 3), A=d.arr(2, 2), Y=d.arr(4, 3): (tl.norm(X, 1), tl.norm(X, 2), tl.norm(X, "inf"), tl.norm(X, 3), tl.norm(X, 2, axis=0), tl.norm(X, 1, axis=1), tl.kron(A, X),
                                                                     tl.clip(X, 0.1, 0.5), tl.clip(X, a_min=0), tl.eps(X.dtype), tl.digamma(X + 1), tl.logsumexp(X, axis=0), tl.zeros_like(X), tl.ones(3, **tl.context(X)),
                                                                     tl.zeros((2, 2), **tl.context(X)), tl.eye(2, **tl.context(X)), tl.tensor([1, 2, 3], **tl.context(X)), tl.index_update(tl.copy(X), tl.index[0, :], 0.5),
                                                                     tl.mean(X, axis=0), tl.sum(X), tl.sqrt(X), tl.abs(X), tl.where(X > 0.5, X, Y), tl.sort(X, axis=0), tl.cumsum(X, axis=0), tl.max(X), tl.exp(X), tl.log(X + 1),
                                                                     tl.dot(X.T, Y), tl.matmul(X.T, Y), tl.solve(A + 2 * tl.eye(2, **tl.context(A)), A), tl.qr(X), tl.lstsq(X, Y[:, 0])[0], tl.truncated_svd(X, 2), tl.eigh(A + A.T),
                                                                     tl.moveaxis(X, 0, 1), tl.stack([X, Y]), tl.concatenate([X, Y]), tl.diag(A), tl.trace(A), tl.flip(X, axis=0), tl.sign(X - 0.5), tl.conj(X), tl.tensordot(X, Y, axes=([0], [0])),
                                                                     tl.einsum("ij,ij->i", X, Y), tl.sin(X), tl.tanh(X), tl.arctan(X) if hasattr(tl, "arctan") else tl.atan(X))),
        fam="FPure")
    names = [t["name"] for t in T]
    assert len(names) == len(set(names))
    return T


PROX_CALLS = {
    "nonneg": lambda P, v, par, k: P.proximal_operator(v, non_negative=True), "soft": lambda P, v, par, k: P.soft_thresholding(v, par),
    "l1": lambda P, v, par, k: P.proximal_operator(v, l1_reg=par), "l2": lambda P, v, par, k: P.l2_prox(v, par), "l2sq": lambda P, v, par, k: P.l2_square_prox(v, par),
    "smooth": lambda P, v, par, k: P.smoothness_prox(v, par), "simplex": lambda P, v, par, k: P.simplex_prox(v, par), "softsparse": lambda P, v, par, k: P.soft_sparsity_prox(v, par),
    "monotone": lambda P, v, par, k: P.monotonicity_prox(v), "monotone_dec": lambda P, v, par, k: P.monotonicity_prox(v, decreasing=True),
    "unimodal": lambda P, v, par, k: P.unimodality_prox(v), "hardsparse": lambda P, v, par, k: P.hard_thresholding(v, k),
    "normsparse": lambda P, v, par, k: P.normalized_sparsity_prox(v, k), "normalize": lambda P, v, par, k: P.proximal_operator(v, normalize=True),
    "svt": lambda P, v, par, k: P.svd_thresholding(v, par), "procrustes": lambda P, v, par, k: P.procrustes(v)}


_MMV_CACHE = {}


def mask_multiplier_variants(repo):
    """{'cp_to_tensor' | 'khatri_rao' | 'cp_lstsq_grad': 'FMaskMul' | 'FMaskMulCast'} read from the source of `repo`: FMaskMulCast iff every
    implementation of the entry point assigns `mask` from an allocation-with-context of the mask itself (tl.tensor(mask, **tl.context(x)))"""
    import os
    if os.environ.get("VERIF_C18_MASKMUL_CAST"):
        return {k: "FMaskMulCast" for k in ("cp_to_tensor", "khatri_rao", "cp_lstsq_grad")}
    if repo in _MMV_CACHE:
        return _MMV_CACHE[repo]
    quals = {"cp_to_tensor": ["tensorly.cp_tensor.cp_to_tensor"], "cp_lstsq_grad": ["tensorly.cp_tensor.cp_lstsq_grad"],
             "khatri_rao": ["tensorly.tenalg.core_tenalg._khatri_rao.khatri_rao", "tensorly.tenalg.einsum_tenalg._khatri_rao.khatri_rao"]}
    nodes = dict(extract_functions(repo))
    out = {}
    for k, qs in quals.items():
        casts = []
        for q in qs:
            fn = nodes.get(q)
            ok = False
            for st in (ast.walk(fn) if fn is not None else []):
                if isinstance(st, ast.Assign) and len(st.targets) == 1 and isinstance(st.targets[0], ast.Name) and st.targets[0].id == "mask" \
                        and isinstance(st.value, ast.Call) and isinstance(st.value.func, ast.Attribute) and st.value.func.attr == "tensor" \
                        and st.value.args and isinstance(st.value.args[0], ast.Name) and st.value.args[0].id == "mask" \
                        and any(kw.arg is None and isinstance(kw.value, ast.Call) and isinstance(kw.value.func, ast.Attribute) and kw.value.func.attr == "context"
                                for kw in st.value.keywords):
                    ok = True
            casts.append(ok)
        out[k] = "FMaskMulCast" if casts and all(casts) else "FMaskMul"
    _MMV_CACHE[repo] = out
    return out


def random_rows(rng, n):
    """option-lattice sampling: random combinations of initialisation x mask dtype x normalisation x line search x sparsity x
    l2 x orthogonalise x errors x constraint kind x shape/order for the entry points with transcribed skeletons (the
    skeleton is parametric in these options, so every combination has a prediction).  These rows are marked `lenient`:
    a combination the library rejects for reasons unrelated to dtypes is counted as skipped."""
    from tensorly import decomposition as dec
    from tensorly.cp_tensor import CPTensor
    from tensorly.tenalg import proximal as P
    from tensorly.solvers.admm import admm
    rows = []

    def add(name, ep, build, fam, opts, mask, dts, real=(), n=3, slotmap=None):
        rows.append(dict(name=name, ep=ep, build=build, fam=fam, opts=opts, mask=mask, dts=tuple(dts), real=set(real), exempt={}, n=n,
                         slotmap=slotmap or {}, lenient=True))
    shapes = [(4, 3), (3, 4, 2), (4, 3, 5), (2, 3, 2, 3)]
    for i in range(n):
        kind = rng.choice(["parafac", "parafac", "parafac", "nn_parafac", "tucker", "constrained", "admm", "nn_hals", "nn_tucker_hals",
                           "parafac2", "parafac2", "prox", "prox", "maskmul", "maskmul"])
        sh = rng.choice(shapes)
        rank = rng.choice([1, 2, 3])
        init = rng.choice(["random", "svd", "user"])
        mk = rng.choice([None, None, "same", "bool", "int", "f64", "f32"])
        errors = rng.random() < 0.5
        norm = rng.random() < 0.4
        dt_real = rng.choice([F32, F32, F64])
        if kind == "maskmul":
            # the plain mask multipliers: entry point x data dtype (all four) x mask dtype x order (1-D / one matrix / n-D) x weights x tenalg backend
            from tensorly import cp_tensor as cpt, tenalg
            which = rng.choice(["cp_to_tensor", "khatri_rao", "cp_lstsq_grad"])
            mkm = rng.choice(["same", "bool", "int", "f64", "f32", None])
            shm = rng.choice([(5,), (4, 3), (3, 4, 2), (2, 3, 2, 3)]) if which != "cp_lstsq_grad" else rng.choice([(4, 3), (3, 4, 2)])
            dtm = rng.choice([F32, F32, F64, "complex64", C128])
            now = rng.random() < 0.3
            ein = rng.random() < 0.3

            def build(d, which=which, mkm=mkm, shm=shm, rank=rank, now=now, ein=ein):
                w = None if now else np.ones(rank, dtype=d.dt)
                fs = [d.arr(s_, rank) for s_ in shm]
                m = d.mask(shm, mkm) if mkm else None
                X = d.arr(*shm)
                if which == "cp_to_tensor":
                    f = lambda: cpt.cp_to_tensor((w, fs), mask=m)
                elif which == "khatri_rao":
                    f = lambda: tenalg.khatri_rao(fs, weights=w, mask=m)
                else:
                    f = lambda: cpt.cp_lstsq_grad(CPTensor((w, fs)), X, return_loss=True, mask=m)
                return (lambda: _einsum(f)) if ein else f
            add(f"rnd{i}_{which}_mask_{mkm}_{'x'.join(map(str, shm))}_r{rank}_w{int(not now)}_e{int(ein)}",
                {"cp_to_tensor": "tensorly.cp_tensor.cp_to_tensor", "khatri_rao": "tensorly.tenalg.khatri_rao", "cp_lstsq_grad": "tensorly.cp_tensor.cp_lstsq_grad"}[which],
                build, mask_multiplier_variants(C.REPO)[which], dict(alt=(which == "cp_lstsq_grad")), mkm, [dtm], slotmap={"": "out0"})
        elif kind == "parafac":
            ls = rng.random() < 0.4
            sp = rng.random() < 0.25
            l2 = rng.random() < 0.3
            orth = rng.random() < 0.3
            nit = 9 if ls else rng.choice([1, 2, 4])
            cplx = mk is None and not sp and rng.random() < 0.3
            dts = [rng.choice(["complex64", C128])] if cplx else [dt_real]
            kw = dict(n_iter_max=nit, normalize_factors=norm, return_errors=errors, linesearch=ls, random_state=1 + i)
            if sp:
                kw["sparsity"] = 0.2
            if l2:
                kw["l2_reg"] = 0.1
            if orth:
                kw["orthogonalise"] = True
            opts = dict(init={"random": "IRandom", "svd": "ISvd", "user": "IUser"}[init], errors=errors, normalize=norm, linesearch=ls, sparsity=sp, l2reg=l2)
            slotmap = {"#0": "sparse"} if (sp and errors) else {}
            real = {"#1"} | ({"#0.weights", ".weights"} if norm else set())

            def build(d, sh=sh, rank=rank, init=init, mk=mk, kw=kw):
                X = d.arr(*sh)
                m = d.mask(sh, mk) if mk else None
                ini = (np.ones(rank, dtype=d.dt), [d.arr(s_, rank) for s_ in sh]) if init == "user" else init
                return lambda: dec.parafac(X, rank, init=ini, mask=m, **kw)
            add(f"rnd{i}_parafac_{init}_{mk}_ls{int(ls)}_sp{int(sp)}_l2{int(l2)}_or{int(orth)}_nz{int(norm)}_er{int(errors)}_{'x'.join(map(str, sh))}_r{rank}",
                "tensorly.decomposition.parafac", build, "FParafac", opts, mk, dts, real=real, n=nit, slotmap=slotmap)
        elif kind == "nn_parafac":
            opts = dict(init={"random": "IRandom", "svd": "ISvd", "user": "IUser"}[init], errors=errors, normalize=norm)

            def build(d, sh=sh, rank=rank, init=init, mk=mk, norm=norm, errors=errors, i=i):
                X = d.arr(*sh)
                m = d.mask(sh, mk) if mk else None
                ini = (np.ones(rank, dtype=d.dt), [d.arr(s_, rank) for s_ in sh]) if init == "user" else init
                return lambda: dec.non_negative_parafac(X, rank, n_iter_max=3, init=ini, mask=m, normalize_factors=norm, return_errors=errors, random_state=1 + i)
            add(f"rnd{i}_nn_parafac_{init}_{mk}_nz{int(norm)}_er{int(errors)}_{'x'.join(map(str, sh))}_r{rank}", "tensorly.decomposition.non_negative_parafac",
                build, "FNNParafac", opts, mk, [dt_real], real={"#1"})
        elif kind == "nn_hals":
            opts = dict(init={"random": "IRandom", "svd": "ISvd", "user": "IUser"}[init], errors=errors, normalize=norm)

            def build(d, sh=sh, rank=rank, init=init, norm=norm, errors=errors, i=i):
                X = d.arr(*sh)
                ini = (np.ones(rank, dtype=d.dt), [d.arr(s_, rank) for s_ in sh]) if init == "user" else init
                return lambda: dec.non_negative_parafac_hals(X, rank, n_iter_max=3, init=ini, normalize_factors=norm, return_errors=errors, random_state=1 + i,
                                                            sparsity_coefficients=[0.1] * len(sh) if i % 2 else None)
            add(f"rnd{i}_nn_hals_{init}_nz{int(norm)}_er{int(errors)}_{'x'.join(map(str, sh))}_r{rank}", "tensorly.decomposition.non_negative_parafac_hals",
                build, "FNNParafacHals", opts, None, [dt_real], real={"#1"})
        elif kind == "tucker":
            init_t = rng.choice(["random", "svd"])
            cplx = mk is None and rng.random() < 0.3
            dts = [rng.choice(["complex64", C128])] if cplx else [dt_real]
            opts = dict(init={"random": "IRandom", "svd": "ISvd"}[init_t], errors=errors)

            def build(d, sh=sh, rank=rank, init_t=init_t, mk=mk, errors=errors, i=i):
                X = d.arr(*sh)
                m = d.mask(sh, mk) if mk else None
                return lambda: dec.tucker(X, [min(rank, s_) for s_ in sh], n_iter_max=3, init=init_t, mask=m, return_errors=errors, random_state=1 + i)
            add(f"rnd{i}_tucker_{init_t}_{mk}_er{int(errors)}_{'x'.join(map(str, sh))}_r{rank}", "tensorly.decomposition.tucker", build, "FTucker", opts, mk, dts, real={"#1"})
        elif kind == "nn_tucker_hals":
            init_t = rng.choice(["random", "svd"])
            alg = rng.choice(["fista", "active_set"])
            opts = dict(init={"random": "IRandom", "svd": "ISvd"}[init_t], errors=errors, alg=alg, normalize=norm)

            def build(d, sh=sh, rank=rank, init_t=init_t, alg=alg, norm=norm, errors=errors, i=i):
                X = d.arr(*sh)
                return lambda: dec.non_negative_tucker_hals(X, [min(rank, s_) for s_ in sh], n_iter_max=2, init=init_t, algorithm=alg, normalize_factors=norm,
                                                           return_errors=errors, random_state=1 + i)
            add(f"rnd{i}_nn_tucker_hals_{init_t}_{alg}_nz{int(norm)}_er{int(errors)}_{'x'.join(map(str, sh))}_r{rank}", "tensorly.decomposition.non_negative_tucker_hals",
                build, "FNNTuckerHals", opts, None, [dt_real], real={"#1"})
        elif kind == "parafac2":
            init_p = rng.choice(["random", "svd"])
            nn = rng.choice([None, None, [0], [0, 2], "all"])
            ls = rng.random() < 0.5
            nit = 9 if ls else rng.choice([1, 2, 3])
            cols = rng.choice([3, 4])
            rank_p = rng.choice([1, 2, 3])
            nsl = rng.choice([2, 3, 4])
            uneven = rng.random() < 0.6
            opts = dict(init={"random": "IRandom", "svd": "ISvd"}[init_p], errors=errors, normalize=norm, linesearch=ls, nn=nn is not None)

            def build(d, init_p=init_p, nn=nn, ls=ls, nit=nit, cols=cols, rank_p=rank_p, nsl=nsl, uneven=uneven, norm=norm, errors=errors, i=i):
                sl = [d.arr(4 + (k if uneven else 0), cols) for k in range(nsl)]
                return lambda: dec.parafac2(sl, rank_p, n_iter_max=nit, init=init_p, nn_modes=nn, linesearch=ls, normalize_factors=norm, return_errors=errors,
                                            random_state=1 + i, n_iter_parafac=2, tol=1e-12)
            add(f"rnd{i}_parafac2_{init_p}_nn{nn}_ls{int(ls)}_nz{int(norm)}_er{int(errors)}_{nsl}x{cols}_r{rank_p}_u{int(uneven)}".replace(" ", ""),
                "tensorly.decomposition.parafac2", build, "FParafac2", opts, None, [dt_real], real={"#1"}, n=nit)
        elif kind == "prox":
            pname = rng.choice(sorted(PROX_CALLS))
            shp = rng.choice([(5,), (1,), (4, 3), (4, 1), (1, 4), (6, 2), (2, 2)]) if pname not in ("svt", "procrustes") else rng.choice([(4, 3), (3, 4), (2, 2), (5, 1)])
            par = rng.choice([0.01, 0.5, 2.0])
            k = rng.choice([1, 2, 3])
            pos = rng.random() < 0.5

            def build(d, pname=pname, shp=shp, par=par, k=k, pos=pos):
                v = d.arr(*shp, pos=pos)
                return lambda: PROX_CALLS[pname](P, v, par, k)
            add(f"rnd{i}_prox_{pname}_{'x'.join(map(str, shp))}_p{par}_k{k}_pos{int(pos)}", "tensorly.tenalg.proximal." + pname, build, "FProx", dict(prox=pname), None, [dt_real])
        elif kind == "constrained":
            cname, ckw = rng.choice(CONSTRAINTS)
            opts = dict(init={"random": "IRandom", "svd": "ISvd", "user": "IUser"}[init], prox=cname, errors=errors)

            def build(d, sh=sh, rank=rank, init=init, ckw=ckw, errors=errors, i=i):
                X = d.arr(*sh)
                ini = (np.ones(rank, dtype=d.dt), [d.arr(s_, rank) for s_ in sh]) if init == "user" else init
                return lambda: dec.constrained_parafac(X, rank, n_iter_max=2, init=ini, return_errors=errors, random_state=1 + i, **ckw)
            add(f"rnd{i}_constrained_{cname}_{init}_er{int(errors)}_{'x'.join(map(str, sh))}_r{rank}", "tensorly.decomposition.constrained_parafac", build,
                "FConstrained", opts, None, [dt_real], real={"#1"})
        else:
            cname, ckw = rng.choice(CONSTRAINTS)
            rows_, cols_ = rng.choice([(3, 4), (5, 2), (2, 2)])

            def build(d, ckw=ckw, rows_=rows_, cols_=cols_):
                Mx = d.arr(6, cols_)
                UtU = (Mx.T @ Mx).astype(d.dt)
                UtM = (d.arr(rows_, 6) @ Mx).astype(d.dt)
                x = d.arr(rows_, cols_)
                return lambda: admm(UtM, UtU, x, np.zeros((rows_, cols_), dtype=d.dt), n_const=1, order=0, n_iter_max=4, **ckw)
            add(f"rnd{i}_admm_{cname}_{rows_}x{cols_}", "tensorly.solvers.admm.admm", build, "FAdmm", dict(prox=cname), None, [dt_real])
    return rows


def _einsum(thunk):
    from tensorly import tenalg
    tenalg.set_backend("einsum")
    try:
        return thunk()
    finally:
        tenalg.set_backend("core")


def arrays_of(o, path="", top=True):
    """(slot, array-like) for every array / NumPy scalar in a returned structure.  slot = position in the top-level tuple
    ('#i') + attribute names; list indices are dropped (all factors of a decomposition share one slot)."""
    if isinstance(o, (np.ndarray, np.generic)):
        yield path, np.asarray(o)
    elif isinstance(o, tuple) and top:
        for i, x in enumerate(o):
            yield from arrays_of(x, f"{path}#{i}", False)
    elif isinstance(o, (list, tuple)):
        for x in o:
            yield from arrays_of(x, path, False)
    elif hasattr(o, "factors"):
        for k in ("weights", "core", "factors", "projections"):
            if hasattr(o, k):
                yield from arrays_of(getattr(o, k), f"{path}.{k}", False)
    elif isinstance(o, dict):
        for k, x in o.items():
            yield from arrays_of(x, f"{path}.{k}", False)


# ============================================================================= source-level extraction (py2dt)
# Translation of the Python source (ast) of every TensorLy function into a dtype program of Model/Dtype.v, regenerated on every run
# and checked inside Coq with the tolerant program check prog_ok2 (Theorem C18_prog2_precision_preserved).  Expressions on the Python
# side: None = opaque / not a value; ('leaf', L) | ('var', name) | ('op', a, b) | ('div', a, b) | ('tofloat', a) | ('real', a) |
# ('into', target, value) | ('dtypeof', a) | ('dtconst', D).
import ast as ast

BARE = ("leaf", "LBare"); PYI = ("leaf", "LPyI"); PYF = ("leaf", "LPyF"); PYC = ("leaf", "LPyC")
INTS = ("leaf", "(LConst I64)"); BOOLS = ("leaf", "(LConst B)"); LIN = ("leaf", "LIn"); LMASK = ("leaf", "LMask")
DTCONST = {"float64": "F64", "float32": "F32", "int64": "I64", "int32": "I64", "int": "I64", "bool": "B", "complex128": "C128", "complex64": "C64", "float": "F64"}
INT_PARAMS = {"rank", "n_samples", "mode", "modes", "n_iter_max", "n_iter_max_inner", "order", "n_const", "n_eigenvecs", "shape", "shapes", "n_repeat", "n_iteration", "n_iter",
              "skip_matrix", "skip", "axis", "k", "n_padding", "max_stagnation", "size", "n_dims", "n_components", "random_state", "seed", "verbose", "indices", "indices_list",
              "slice_idx", "n_iter_parafac", "svd_mask_repeats", "n_iter_mask_imputation", "max_fail", "iteration", "n_dim", "n_dimensions", "fixed_modes", "nn_modes", "fixed_factors",
              "tensor_shape", "n_oversamples", "n_power_iterations", "n_eigen", "n_unfoldings", "threshold_k", "weight_rank", "weight_ranks", "batched_modes", "row_modes", "column_modes",
              "n_modes", "n_matrices", "skip_factor", "start", "ranks", "tensorized_shape", "row_idx", "col_idx"}
FLOAT_PARAMS = {"threshold", "regularizer", "reg", "parameter", "tol", "lr", "alpha", "scale", "jump", "tol_outer", "tol_inner", "epsilon", "reg_W", "reg_E", "reg_J", "learning_rate",
                "mu_init", "mu_max", "sparsity_coef", "ridge_coef", "sparsity_coefficient", "ridge_coefficient", "l2_reg", "l1_reg", "acc_pow", "delta", "eps", "bound", "percent",
                "compression_threshold"}
# parameters that receive a real-valued quantity of the data's precision (a norm): modelled as RealOf(input), so that a function is certified exact
# without assuming that they are complex, and left out of the "every array argument is exact" condition at its call sites
REAL_PARAMS = {"norm_tensor", "tensor_norm"}
ARRAY_OPT = {"x", "V", "init", "weights", "U", "x_init", "dual", "projected_tensor", "norm_matrices", "mttkrp", "factors_last", "weights_last", "sparse_component", "y", "Y"}
MAINLOOP_TARGETS = {"iteration", "_", "it", "epoch", "n_iter_", "i_iter", "component"}
UNARY_FLOAT = {"sqrt", "mean", "exp", "log", "log2", "log10", "sin", "cos", "tan", "tanh", "sinh", "cosh", "arcsin", "arccos", "arctan", "arcsinh", "arccosh", "arctanh", "asin",
               "acos", "atan", "asinh", "acosh", "atanh", "digamma", "logsumexp", "std", "var"}
ALLOC = {"zeros", "ones", "eye", "empty", "full", "identity"}
LIKE = {"zeros_like", "ones_like", "copy", "empty_like", "full_like", "to_numpy"}
PYINT = {"shape", "ndim", "len", "range", "int", "round", "index", "tolist", "count", "find", "ord", "hash", "get_backend"}   # Python ints: weak
TOINT = {"arange", "argmax", "argmin", "argsort", "randint", "permutation", "choice", "nonzero", "unique", "prod", "ceil", "floor",
         "count_nonzero", "searchsorted", "cumprod", "linear_sum_assignment", "digitize", "bincount", "lexsort"}               # int64 arrays / NumPy integer scalars: strong
TOBOOL = {"all", "any", "isnan", "isinf", "is_tensor", "isinstance", "callable", "hasattr", "isfinite", "issubclass", "allclose", "array_equal"}
RNG_FLOAT = {"random_sample", "rand", "randn", "normal", "uniform", "gamma", "standard_normal", "random", "beta", "exponential"}
RNG_NAMES = {"rng", "rns", "random_state", "random"}
OPAQUE_CALLS = {"check_random_state", "RandomState", "default_rng", "warn", "print", "DeprecationWarning", "ValueError", "TypeError", "get_backend", "format", "join", "str", "repr",
                "type", "validate_cp_rank", "validate_tucker_rank", "validate_tt_rank", "validate_tr_rank", "svd_checks", "validate_constraints", "id", "set", "dict", "getattr"}
SELECT_CALLS = {"reshape", "transpose", "moveaxis", "take", "sum", "max", "min", "cumsum", "sort", "flip", "roll", "swapaxes", "tile", "repeat", "squeeze", "expand_dims",
                "unfold", "fold", "partial_unfold", "partial_fold", "matricize", "tensor_to_vec", "vec_to_tensor", "partial_tensor_to_vec", "partial_vec_to_tensor", "ravel",
                "flatten", "diag", "trace", "delete", "compress", "permute", "copy", "conj", "sign"}
MODULES = {"tl", "T", "np", "tenalg", "math", "warnings", "scipy", "tensorly", "backend"}
# Exactness of call results ('complex stays complex' at source level).  A call that falls through to the default summary "promotion of the
# array arguments" is EXACT (returns exactly the promoted dtype) only for the NumPy / backend functions and containers listed here and
# for the library functions recorded as exact in the extraction baseline (EXACT_CALLEES, assume-guarantee: each of them is re-certified
# exact on every run).  Every other call is translated as RealOf(promotion): inside the precision class of its arguments (which is all the
# level-1 / level-2 check needs, its verdict does not change), never known to be exact.  Lists give exactness per position of a returned tuple.
EXACT_CALLS = {"dot", "matmul", "einsum", "kron", "solve", "qr", "clip", "multiply", "add", "subtract", "maximum", "minimum", "power", "square", "negative", "triu", "tril",
               "atleast_2d", "broadcast_to"}
CONTAINER_CALLS = {"list", "tuple", "reversed", "sorted", "iter", "next", "zip", "enumerate", "dict", "CPTensor", "TuckerTensor", "TTTensor", "TRTensor", "TTMatrix",
                   "Parafac2Tensor", "concatenate", "stack", "vstack", "hstack", "pad"}
PARTIAL_EXACT = {"lstsq": [True, False], "svd": [True, False, True], "truncated_svd": [True, False, True], "randomized_svd": [True, False, True],
                 "symeig_svd": [True, False, True], "eigh": [False, True], "svd_fun": [True, False, True]}
EXACT_CALLEES_DEFAULT = {}   # the same under the assumption that the callee (and its callees) run with their boolean / string options at the DEFAULT values
CALLEE_FLAGS = {}            # bare name -> {"flags": {option: default}, "first": position of the first such option among the parameters}
WANTED_VARIANTS = set()  # (callee bare name, option, value): call sites of the default-options translations that pass exactly ONE option with a known non-default
                         # value; extract_all(defaults_mode=True) translates the callee once more under that value ("<qual>@<option>=<value>") and the exact-dtype
                         # certification treats it like any other function (baseline fixpoint, re-certified on every run)
RET_INTS = {}           # qualified name -> (length of the returned tuple | None, index-valued positions) of the last extract_all
INT_POSITIONS = {}      # bare name of a library function returning a tuple -> [length of the tuple, positions that hold index / count values (Python ints, integer
                        # arrays, lists of index tuples) in EVERY return statement]; loaded from the baseline, re-derived and compared on every run
MODULE_OBJECTS = {}     # module path -> names bound at module level to a mutable container / the result of a call (a singleton): PERSISTENT state, filled by extract_functions
EXACT_CALLEES = {}      # bare name of a library function -> True (every array output exact) | [bool per tuple position]; loaded from the baseline


def weak_only(e):
    if e is None:
        return False
    if e[0] == "leaf":
        return e[1] in ("LPyI", "LPyF", "LPyC")
    if e[0] in ("op", "div", "alt"):
        return weak_only(e[1]) and weak_only(e[2])
    if e[0] in ("tofloat", "real"):
        return weak_only(e[1])
    return False


def has_pyf(e):
    if e is None:
        return False
    if e[0] == "leaf":
        return e[1] in ("LPyF", "LPyC")
    return any(has_pyf(x) for x in e[1:] if isinstance(x, tuple))


def weaklike(e, weakvars):
    if e is None:
        return False
    if e[0] == "leaf":
        return e[1] in ("LPyI", "LPyF", "LPyC")
    if e[0] == "var":
        return e[1] in weakvars
    if e[0] == "into":
        return weaklike(e[1], weakvars)
    return all(weaklike(y, weakvars) for y in e[1:] if isinstance(y, tuple))


def idxlike(e, intvars, weakvars=frozenset()):
    """an index / shape / boolean-mask valued expression: only integer / boolean constants, Python ints and variables known to hold such values"""
    if e is None:
        return False
    strong = [False]

    def go(x):
        if x[0] == "leaf":
            if x[1] in ("(LConst I64)", "(LConst B)"):
                strong[0] = True; return True
            return x[1] == "LPyI"
        if x[0] == "var":
            if x[1] in intvars:
                strong[0] = True; return True
            return x[1] in weakvars
        if x[0] == "into":
            return go(x[1])
        return all(go(y) for y in x[1:] if isinstance(y, tuple))
    return go(e) and strong[0]


def join(a, b):
    if a is None or a[0] in ("dtypeof", "dtconst"):
        return b if (b is None or b[0] not in ("dtypeof", "dtconst")) else None
    if b is None or b[0] in ("dtypeof", "dtconst"):
        return a
    if a == b:
        return a
    return ("alt", a, b)     # alternatives / elements of a container: dtype-wise the promotion, exact only if both are


def opjoin(xs):
    """promotion of all operands (arithmetic): exact as soon as one operand is"""
    r = None
    for x in xs:
        if x is None or x[0] in ("dtypeof", "dtconst"):
            continue
        r = x if r is None else ("op", r, x)
    return r


def joinlist(xs):
    r = None
    for x in xs:
        r = join(r, x)
    return r


class Unsupported(Exception):
    pass


class Translator:
    def __init__(self, fn, qual, defaults_mode=False, flag_override=None):
        self.flag_override = flag_override or {}
        self.fn, self.qual = fn, qual
        # defaults_mode: translate the function AS CALLED WITH ITS BOOLEAN / STRING OPTIONS AT THEIR DEFAULT VALUES (non_negative=False, init="svd", ...):
        # tests on these options are decided, only the alternative taken by default is translated.  Used for a second, weaker exact-dtype
        # certification ("complex stays complex with default options"); the precision-class check always uses the all-paths translation.
        self.defaults_mode = defaults_mode
        self.flags, self.flagvals, self.first_flag = {}, {}, None
        self.defined, self.empty = set(), set()
        self.subst = {}
        self.out = []          # emitted statements (name, expr)
        self.tmp = 0
        self.rets = []         # names of return variables
        self.rename = None     # post-loop renaming map (name -> post name) or None
        self.notes = []
        self.path, self.seen = [], {}
        self.intvars = set()
        self.weakvars = set()
        self.structs = {}        # name -> {"versions": [[temp variable per component], ...], "deps": names the components were built from}: a variable bound to a
                                 # literal tuple / CPTensor((w, f)) / TuckerTensor((c, f)) ... whose components are still the ones it was built from
        self.consts = {}         # loop counters with a statically known position: name -> "first" (== 0) | "later" (>= 1)
        self.retinfo = {}        # return variable -> (line of the return statement, position in the returned tuple, length of the tuple)
        self.arrayvars = set()   # names bound to an ndarray (allocation, element-wise result, slice of one): `x op= v` on them is IN PLACE
        self.retints = []        # per return statement: (length of the returned tuple, positions whose value is index-like)
        # PERSISTENT state (Model/DtypeHist.v): module-level containers / singletons of the function's module and names declared `global` / `nonlocal`.
        # A read of such a name before the function has assigned it is a read of the variable "$persist.<name>", which no statement of the program
        # assigns: its value is whatever an EARLIER call left there (unknown to the program checks, so nothing computed from it is certified), and the
        # program does not pass hist_free for G = the $persist variables (case CHist)
        q = qual
        self.persist = set()
        while "." in q:
            q = q.rsplit(".", 1)[0]
            if q in MODULE_OBJECTS:
                self.persist = set(MODULE_OBJECTS[q]); break
        for node in ast.walk(fn):
            if isinstance(node, (ast.Global, ast.Nonlocal)):
                self.persist.update(node.names)
        a_ = fn.args
        self.persist -= {x.arg for x in a_.posonlyargs + a_.args + a_.kwonlyargs}

    # ---- helpers
    def fresh(self, base, node=None, extra=""):
        pos = f"{getattr(node, 'lineno', 0)}:{getattr(node, 'col_offset', 0)}" if node is not None else "0"
        nm = f"%{base}@{pos}/{'.'.join(map(str, self.path))}{extra}"
        k = self.seen.get(nm, 0); self.seen[nm] = k + 1
        return nm if k == 0 else f"{nm}~{k}"

    def rd(self, name):
        if name in self.subst:
            return self.subst[name]
        if self.rename is not None and name in self.rename:
            return ("var", self.rename[name])
        if name in self.defined:
            return ("var", name)
        if name in self.persist:
            return ("var", "$persist." + name)
        return None

    def wr(self, name, e):
        self.consts.pop(name, None)
        self.flagvals.pop(name, None)
        for k in [k for k, v in self.structs.items() if name == k or name in v["deps"]]:
            del self.structs[k]      # the container or something it was built from is written again: its components are no longer known
        if self.rename is not None:
            self.rename[name] = pn = "post." + name
            name = pn
        if e is None or e[0] in ("dtypeof", "dtconst"):
            # opaque value: the variable no longer holds an array
            self.defined.discard(name)
            if self.rename is not None:
                # an opaque post value shadows the loop variable
                self.out.append((name, BOOLS)); self.defined.add(name)
            return
        self.out.append((name, e))
        self.defined.add(name)
        self.empty.discard(name)
        (self.intvars.add if idxlike(e, self.intvars, self.weakvars) else self.intvars.discard)(name)
        (self.weakvars.add if weaklike(e, self.weakvars) else self.weakvars.discard)(name)

    # ---- expressions
    def dotted(self, node):
        if isinstance(node, ast.Name):
            return [node.id]
        if isinstance(node, ast.Attribute):
            b = self.dotted(node.value)
            return None if b is None else b + [node.attr]
        return None

    def ex(self, n):
        if n is None:
            return None
        if isinstance(n, ast.Constant):
            v = n.value
            if isinstance(v, bool) or v is None or isinstance(v, (str, bytes)) or v is Ellipsis:
                return None
            return PYI if isinstance(v, int) else PYF if isinstance(v, float) else PYC
        if isinstance(n, ast.Name):
            return self.rd(n.id)
        if isinstance(n, ast.Attribute):
            d = self.dotted(n)
            if d and d[0] in MODULES and d[0] not in self.defined:
                if n.attr in DTCONST:
                    return ("dtconst", DTCONST[n.attr])
                if n.attr in ("inf", "pi", "e", "nan", "newaxis"):
                    return PYF if n.attr != "newaxis" else None
                return None
            if d and d[0] == "self":
                return self.rd(".".join(d))
            base = self.ex(n.value)
            if n.attr in ("shape", "ndim", "size", "rank"):
                return PYI
            if n.attr == "dtype":
                return ("dtypeof", base) if base is not None else None
            if n.attr in ("real", "imag"):
                return ("real", base) if base is not None else None
            return base      # .T, .factors, .weights, .core ...
        if isinstance(n, ast.Subscript):
            if isinstance(n.value, ast.Call) and isinstance(n.slice, ast.Constant) and isinstance(n.slice.value, int):
                spec = self.spec_of(self.call_name(n.value), n.value)
                if isinstance(spec, list):
                    r = self.call(n.value, raw=True)
                    k = n.slice.value
                    return r if (-len(spec) <= k < len(spec) and spec[k]) else self.inexact(r)
            return self.ex(n.value)
        if isinstance(n, ast.BinOp):
            if isinstance(n.left, (ast.List, ast.Tuple)):
                return self.ex(n.left)            # [x] * n: list replication
            if isinstance(n.right, (ast.List, ast.Tuple)):
                return self.ex(n.right)
            a, b = self.ex(n.left), self.ex(n.right)
            if a is None or b is None or a[0] in ("dtypeof", "dtconst") or b[0] in ("dtypeof", "dtconst"):
                return join(a, b)
            return ("div", a, b) if isinstance(n.op, ast.Div) else ("op", a, b)
        if isinstance(n, ast.UnaryOp):
            return BOOLS if isinstance(n.op, ast.Not) else self.ex(n.operand)
        if isinstance(n, ast.BoolOp):
            return joinlist([self.ex(v) for v in n.values])
        if isinstance(n, ast.Compare):
            self.ex(n.left)
            return BOOLS
        if isinstance(n, ast.IfExp):
            return join(self.ex(n.body), self.ex(n.orelse))
        if isinstance(n, (ast.Tuple, ast.List, ast.Set)):
            return joinlist([self.ex(e) for e in n.elts])
        if isinstance(n, ast.Dict):
            return joinlist([self.ex(e) for e in n.values])
        if isinstance(n, ast.Starred):
            return self.ex(n.value)
        if isinstance(n, (ast.ListComp, ast.GeneratorExp, ast.SetComp)):
            saved = dict(self.subst)
            for g in n.generators:
                self.bind_target(g.target, g.iter, symbolic=True)
            r = self.ex(n.elt)
            self.subst = saved
            return r
        if isinstance(n, ast.DictComp):
            saved = dict(self.subst)
            for g in n.generators:
                self.bind_target(g.target, g.iter, symbolic=True)
            r = self.ex(n.value)
            self.subst = saved
            return r
        if isinstance(n, ast.Call):
            return self.call(n)
        if isinstance(n, (ast.Lambda, ast.JoinedStr, ast.Slice, ast.FormattedValue)):
            return None
        if isinstance(n, ast.NamedExpr):
            v = self.ex(n.value); self.wr(n.target.id, v); return v
        raise Unsupported(type(n).__name__)

    def iter_elem(self, it):
        """expression of an element of the iterable `it` (ast); list of expressions for zip / enumerate"""
        if isinstance(it, ast.Call):
            d = self.dotted(it.func)
            nm = d[-1] if d else None
            if nm == "range":
                return PYI
            if nm == "enumerate":
                return [PYI, self.iter_elem(it.args[0])]
            if nm == "zip":
                return [self.iter_elem(a) for a in it.args]
            if nm in ("reversed", "sorted", "list", "tuple", "iter"):
                return self.iter_elem(it.args[0])
        return self.ex(it)

    def bind_target(self, tgt, it, symbolic):
        el = self.iter_elem(it)
        self.bind(tgt, el, symbolic)

    def bind(self, tgt, el, symbolic):
        if isinstance(tgt, ast.Name):
            self.arrayvars.discard(tgt.id)
            v = joinlist(self.flat(el)) if isinstance(el, list) else el
            if symbolic:
                self.subst[tgt.id] = v
            else:
                self.wr(tgt.id, v)
        elif isinstance(tgt, (ast.Tuple, ast.List)):
            if isinstance(el, list) and len(el) == len(tgt.elts):
                for t, e in zip(tgt.elts, el):
                    self.bind(t, e, symbolic)
            else:
                for t in tgt.elts:
                    self.bind(t, el, symbolic)
        elif isinstance(tgt, ast.Starred):
            self.bind(tgt.value, el, symbolic)
        else:
            self.assign(tgt, joinlist(self.flat(el)) if isinstance(el, list) else el)

    def flat(self, el):
        out = []
        for e in el:
            out += self.flat(e) if isinstance(e, list) else [e]
        return out

    def carrier(self, call):
        """the dtype carrier of **tl.context(x) / **context / dtype=x.dtype, a dtype constant, or None"""
        for kw in call.keywords:
            if kw.arg is None:
                v = kw.value
                if isinstance(v, ast.Call):
                    d = self.dotted(v.func)
                    if d and d[-1] == "context" and v.args:
                        return self.ex(v.args[0])
                e = self.ex(v)
                if e is not None:
                    return e
            elif kw.arg == "dtype":
                e = self.ex(kw.value)
                if e is None:
                    if isinstance(kw.value, ast.Name) and kw.value.id in DTCONST:
                        return ("dtconst", DTCONST[kw.value.id])
                    return None
                return e[1] if e[0] == "dtypeof" else e
        return None

    def spec_of(self, A, node=None):
        if A in EXACT_CALLS or A in CONTAINER_CALLS:
            return True
        if A in PARTIAL_EXACT:
            return PARTIAL_EXACT[A]
        if node is not None and isinstance(node.func, ast.Attribute):
            d = self.dotted(node.func)
            if d is None or d[0] not in MODULES or d[0] in self.defined:
                return None        # a method call on an object: not resolved to a library function by its bare name
        if self.defaults_mode and node is not None and A in CALLEE_FLAGS:
            dev = self.deviations(A, node)
            if dev == [] and A in EXACT_CALLEES_DEFAULT:
                return _best_spec(EXACT_CALLEES_DEFAULT[A], EXACT_CALLEES.get(A))
            if dev is not None and 1 <= len(dev) <= 3:
                # a few options at known non-default values (or at a value not known here): the callee's certificate under THESE values, if it has one;
                # the all-paths certificate holds for every value of every option, so whatever either of the two certifies is certified
                dev = tuple(sorted(dev, key=repr))
                WANTED_VARIANTS.add((A, dev))
                key = A + variant_suffix(dev)
                if key in EXACT_CALLEES_DEFAULT:
                    return _best_spec(EXACT_CALLEES_DEFAULT[key], EXACT_CALLEES.get(A))
        return EXACT_CALLEES.get(A)

    def int_positions_of(self, node):
        """[length, positions] of the index-valued tuple positions of the library function called by `node`, or None (methods of objects are never
        resolved by their bare name)"""
        A = self.call_name(node)
        if A not in INT_POSITIONS:
            return None
        if isinstance(node.func, ast.Attribute):
            d = self.dotted(node.func)
            if d is None or d[0] not in MODULES or d[0] in self.defined:
                return None
        return INT_POSITIONS[A]

    def default_call(self, A, node):
        """the call leaves every boolean / string option of the callee at its default (not passed, passed as the same literal, or passed as an
        option of the caller that is itself at the same default)"""
        return self.deviations(A, node) == []

    def deviations(self, A, node):
        """[(option, value)] for the boolean / string / None-valued options of the callee that the call sets to a KNOWN value other than the default (a literal,
        or an option of the caller whose value is known in the default-options translation); None when the call cannot be analysed (an option passed
        positionally, **kwargs, a computed value)"""
        info = CALLEE_FLAGS.get(A)
        if info is None:
            return None
        if info["first"] is not None and len(node.args) > info["first"]:
            return None
        out = []
        for kw in node.keywords:
            if kw.arg is None:
                d = self.dotted(kw.value.func) if isinstance(kw.value, ast.Call) else None
                if d and d[-1] == "context":
                    continue          # **tl.context(x) passes dtype / device only
                return None
            if kw.arg in info["flags"]:
                v = kw.value
                if isinstance(v, ast.Constant):
                    val = v.value
                elif isinstance(v, ast.Name) and v.id in self.flagvals:
                    val = self.flagvals[v.id]
                else:
                    out.append((kw.arg, Ellipsis))      # a value not known here: the callee's certificate must hold for EVERY value of this option
                    continue
                dflt = info["flags"][kw.arg]
                same = type(val) is type(dflt) and val == dflt
                # None and False are interchangeable for an option when the callee translates to the same program under both (falsy_eq)
                if not same and not (val in (None, False) and dflt in (None, False) and kw.arg in info.get("falsy_eq", [])):
                    if not (val is None or isinstance(val, (bool, str))):
                        return None
                    out.append((kw.arg, val))
        return out

    def call_name(self, n):
        d = self.dotted(n.func)
        return d[-1] if d else (n.func.attr if isinstance(n.func, ast.Attribute) else None)

    def inexact(self, r):
        """value in the precision class of r, exactness unknown"""
        return r if (r is None or r[0] in ("dtypeof", "dtconst", "real")) else ("real", r)

    def call(self, n, raw=False):
        d = self.dotted(n.func)
        base_expr = None
        if d is None and isinstance(n.func, ast.Attribute):
            base_expr = self.ex(n.func.value); A = n.func.attr
        elif d is None:
            self.ex(n.func); A = None
        else:
            A = d[-1]
            if len(d) > 1 and d[0] not in MODULES and (d[0] in self.defined or d[0] in self.subst or (self.rename and d[0] in self.rename) or d[0] == "self" or d[0] in self.persist):
                base_expr = self.ex(n.func.value)
        args = [self.ex(a) for a in n.args]
        kws = {kw.arg: self.ex(kw.value) for kw in n.keywords if kw.arg is not None and kw.arg != "dtype"}
        car = self.carrier(n)
        a0 = args[0] if args else None
        isrng = bool(d) and len(d) > 1 and (d[-2] in RNG_NAMES) and not (A or "").startswith("random_")
        if isrng:
            return BARE if A in RNG_FLOAT else INTS if A in TOINT else None
        if A in OPAQUE_CALLS:
            return None
        if A == "context":
            return a0
        if A in ALLOC or (A is not None and (A.startswith("random_") or A in ("randn", "gamma")) and base_expr is None):
            # allocations and the library's random generators: the dtype comes from **context / dtype= alone
            if car is not None:
                return ("leaf", f"(LConst {car[1]})") if car[0] == "dtconst" else ("into", car, BARE)
            return BARE
        if A in LIKE and base_expr is None:
            if car is not None and car[0] != "dtconst":
                return ("into", car, a0 if a0 is not None else BARE)
            return a0
        if A in ("tensor", "array", "asarray", "as_tensor", "ascontiguousarray") and base_expr is None:
            if car is not None:
                return ("leaf", f"(LConst {car[1]})") if car[0] == "dtconst" else ("into", car, a0 if a0 is not None else BARE)
            if a0 is None:
                return BARE if n.args and isinstance(n.args[0], ast.Call) else None
            if weak_only(a0):
                return ("leaf", "(LConst F64)") if has_pyf(a0) else INTS
            if weaklike(a0, self.weakvars):
                return BARE          # np.array(python scalar): float64 (or int64), never the data's single precision
            return a0
        if A in ("float64", "float_"):
            return ("leaf", "(LConst F64)")
        if A == "float32":
            return ("leaf", "(LConst F32)")
        if A in ("int64", "int32", "intp"):
            return INTS
        if A == "float":
            return PYF
        if A == "complex":
            return PYC
        if A in ("eps", "finfo"):
            a = args[0] if args else None
            if a is not None and a[0] == "dtypeof":
                return ("real", ("into", a[1], PYF))      # np.finfo(dtype).eps: a NumPy scalar of the REAL type of that precision
            if a is not None and a[0] == "dtconst":
                return ("leaf", f"(LConst {a[1]})")
            return PYF
        if d and d[0] == "math":
            return PYF
        if A in PYINT and base_expr is None:
            return PYI
        if A in TOINT and base_expr is None:
            return INTS
        if A in TOBOOL:
            return BOOLS
        if A in ("abs", "norm"):
            x = a0 if base_expr is None else base_expr
            return ("real", x) if x is not None else None
        if A in UNARY_FLOAT:
            x = a0 if base_expr is None else base_expr
            if x is not None and A in ("std", "var"):
                return ("real", ("tofloat", x))      # real-valued also for complex input
            if x is not None and d and len(d) > 1 and d[0] in MODULES and d[0] != "math" and weaklike(x, self.weakvars):
                return ("leaf", "(LConst F64)")      # tl.sqrt(python float) is a NumPy float64 SCALAR: strong, widens single-precision arrays
            return ("tofloat", x) if x is not None else None
        if A == "index_update":
            tgt, val = (args + [None, None, None])[0], (args + [None, None, None])[2]
            return ("into", tgt, val if val is not None else PYI) if tgt is not None else None
        if A == "where":
            return opjoin([args[1], args[2]]) if len(args) == 3 else INTS
        if A == "astype" and base_expr is not None:
            a = a0 if args else None
            if a is None and n.args and isinstance(n.args[0], ast.Name) and n.args[0].id in DTCONST:
                a = ("dtconst", DTCONST[n.args[0].id])
            if a is not None and a[0] == "dtypeof":
                return ("into", a[1], base_expr)
            if a is not None and a[0] == "dtconst":
                return ("leaf", f"(LConst {a[1]})")
            return base_expr
        if A == "item":
            return PYF
        if A == "sum" and d == ["sum"]:
            return opjoin([PYI, joinlist(args)])
        # default: promotion of everything that goes in (modular summary of the callee / NumPy promotion); index / shape / boolean-mask
        # arguments select entries, they do not take part in the arithmetic
        allv = [x for x in [base_expr] + args + list(kws.values()) if x is not None]
        if A in SELECT_CALLS:
            # shape / axis / index arguments of selection and re-arrangement functions do not take part in the arithmetic
            arrs = [x for x in allv if not idxlike(x, self.intvars, self.weakvars) and not weaklike(x, self.weakvars)]
            if arrs:
                return opjoin(arrs + [x for x in allv if weaklike(x, self.weakvars)])
            return opjoin(allv)
        if A in ("concatenate", "stack", "vstack", "hstack") and n.args and isinstance(n.args[0], (ast.List, ast.Tuple)) and base_expr is None \
                and not any(isinstance(x, ast.Starred) for x in n.args[0].elts):
            return opjoin([self.ex(x) for x in n.args[0].elts])      # the arrays of a literal list are promoted: exact as soon as one of them is
        if A in EXACT_CALLS:
            return opjoin(allv)      # NumPy arithmetic: the promotion of everything that goes in, exact as soon as one operand is
        # container constructors and library functions (modular summary: the callee is certified separately under the assumption that ALL
        # its array arguments have the data's dtype): everything that goes in is promoted; exact only if every array argument is
        realargs = self.real_param_args(A, n) if base_expr is None else set()
        # an index-valued argument handed to a parameter that the callee's own translation treats as an index (INT_PARAMS: rank, mode, indices, row_idx ...)
        # selects entries inside the callee, it does not take part in its arithmetic: left out of the summary
        intargs = self.real_param_args(A, n, INT_PARAMS) if base_expr is None else set()
        intargs = {i for i in intargs if i < len(allv) and idxlike(allv[i], self.intvars, self.weakvars) and not weaklike(allv[i], self.weakvars)}
        arrs = [x for i, x in enumerate(allv) if not idxlike(x, self.intvars, self.weakvars) and not weaklike(x, self.weakvars) and i not in realargs]
        rest = [x for i, x in enumerate(allv) if (idxlike(x, self.intvars, self.weakvars) or weaklike(x, self.weakvars) or i in realargs) and i not in intargs]
        r = opjoin([joinlist(arrs)] + rest)
        return r if (raw or A in CONTAINER_CALLS or self.spec_of(A, n) is True) else self.inexact(r)

    def real_param_args(self, A, n, which=None):
        """positions in `[x for x in args + keyword values if x is not None]` of the arguments bound to a REAL_PARAMS parameter of the library function A"""
        info = CALLEE_FLAGS.get(A)
        if not info or not info.get("params"):
            return set()
        names = []
        for i, a in enumerate(n.args):
            names.append(info["params"][i] if i < len(info["params"]) and not isinstance(a, ast.Starred) else None)
        names += [kw.arg for kw in n.keywords if kw.arg is not None and kw.arg != "dtype"]
        vals = [self.ex(a) for a in n.args] + [self.ex(kw.value) for kw in n.keywords if kw.arg is not None and kw.arg != "dtype"]
        out, j = set(), 0
        for nm, v in zip(names, vals):
            if v is None:
                continue
            if nm in (REAL_PARAMS if which is None else which):
                out.add(j)
            j += 1
        return out

    STRUCT_CLASSES = ("CPTensor", "TuckerTensor", "TTTensor", "TRTensor", "TTMatrix", "Parafac2Tensor")

    def components(self, n):
        """the component nodes of a container-valued ast node (literal tuple / list, a factorised-tensor constructor around one, a variable still
        bound to such a container): a list of ast nodes / ('var', temp) expressions; [n] when n is not known to be a container"""
        if isinstance(n, (ast.Tuple, ast.List)) and n.elts and not any(isinstance(x, ast.Starred) for x in n.elts):
            return [c for x in n.elts for c in self.components(x)]
        if isinstance(n, ast.Call) and self.call_name(n) in self.STRUCT_CLASSES and len(n.args) == 1 and not n.keywords:
            return self.components(n.args[0])
        if isinstance(n, ast.Name) and n.id in self.structs:
            return [("var", t) for t in dict.fromkeys(t for v in self.structs[n.id]["versions"] for t in v)]
        return [n]

    def record_struct(self, name, value):
        """after `name = <container literal>`: keep its components in temporaries so that a later `return name` reports them one by one"""
        comps = self.components(value)
        if len(comps) < 2:
            return
        temps, deps = [], set()
        for k, c in enumerate(comps):
            e = c if isinstance(c, tuple) else self.ex(c)
            if not isinstance(c, tuple):
                deps |= {x.id for x in ast.walk(c) if isinstance(x, ast.Name)}
            if e is None or e[0] in ("dtypeof", "dtconst"):
                e = BOOLS        # not an array (None weights ...): a placeholder that is never reported
            t = self.fresh("comp", value, f":{name}:{k}")
            self.out.append((t, e)); self.defined.add(t)
            if idxlike(e, self.intvars, self.weakvars): self.intvars.add(t)
            if weaklike(e, self.weakvars): self.weakvars.add(t)
            temps.append(t)
        self.structs[name] = {"versions": [temps], "deps": deps}

    def loop_counter(self, loop):
        """(name, first value) of a counter that takes the values first, first+1, ... : `for i in range(n)` / `range(a, n)` with a literal a,
        `for i, x in enumerate(xs)` (optional literal start); None otherwise"""
        if not isinstance(loop, ast.For) or not isinstance(loop.iter, ast.Call):
            return None
        d = self.dotted(loop.iter.func)
        nm = d[-1] if d else None
        it, tg = loop.iter, loop.target
        if nm == "range" and isinstance(tg, ast.Name) and not it.keywords:
            if len(it.args) == 1:
                return tg.id, 0
            if len(it.args) == 2 and isinstance(it.args[0], ast.Constant) and isinstance(it.args[0].value, int) and it.args[0].value >= 0:
                return tg.id, it.args[0].value
        if nm == "enumerate" and isinstance(tg, ast.Tuple) and len(tg.elts) == 2 and isinstance(tg.elts[0], ast.Name):
            start = 0
            extra = it.args[1:] + [k.value for k in it.keywords if k.arg == "start"]
            if extra:
                if len(extra) == 1 and isinstance(extra[0], ast.Constant) and isinstance(extra[0].value, int) and extra[0].value >= 0:
                    start = extra[0].value
                else:
                    return None
            return tg.elts[0].id, start
        return None

    def set_counter(self, loop, u):
        """first (u = 0) / a later (u = 1) iteration of an unrolled loop: what is statically known about its counter"""
        c = self.loop_counter(loop)
        if c is not None:
            name, first = c
            self.consts[name] = "first" if (u == 0 and first == 0) else "later"      # "later" = some value >= 1

    def static_test(self, t):
        """True / False when the test is decided by what is known about a loop counter (i == 0 in the first unrolled iteration, i >= 1 afterwards);
        None otherwise.  This is the only path sensitivity of the translation besides `x is None` tests."""
        if isinstance(t, ast.UnaryOp) and isinstance(t.op, ast.Not):
            r = self.static_test(t.operand)
            return None if r is None else (not r)
        if isinstance(t, ast.BoolOp):
            rs = [self.static_test(v) for v in t.values]
            if isinstance(t.op, ast.And):
                return False if any(r is False for r in rs) else (True if all(r is True for r in rs) else None)
            return True if any(r is True for r in rs) else (False if all(r is False for r in rs) else None)
        if isinstance(t, ast.Name) and t.id in self.flagvals and (isinstance(self.flagvals[t.id], bool) or self.flagvals[t.id] is None):
            return bool(self.flagvals[t.id])                               # `if non_negative:` with the option at its default
        if isinstance(t, ast.Compare) and len(t.ops) == 1 and isinstance(t.left, ast.Name) and t.left.id in self.flagvals \
                and isinstance(t.comparators[0], ast.Constant) and (isinstance(t.comparators[0].value, (bool, str)) or t.comparators[0].value is None):
            a_, b_ = self.flagvals[t.left.id], t.comparators[0].value     # `init == "random"`, `flag is not False`, `flag is None` with the option at its default
            same = type(a_) is type(b_) and a_ == b_
            if isinstance(t.ops[0], (ast.Eq, ast.Is)):
                return same
            if isinstance(t.ops[0], (ast.NotEq, ast.IsNot)):
                return not same
        if isinstance(t, ast.Compare) and len(t.ops) == 1 and isinstance(t.left, ast.Name) and t.left.id in self.flagvals \
                and isinstance(t.ops[0], (ast.In, ast.NotIn)) and isinstance(t.comparators[0], (ast.Tuple, ast.List, ast.Set)) \
                and all(isinstance(x, ast.Constant) and (isinstance(x.value, (bool, str)) or x.value is None) for x in t.comparators[0].elts):
            a_ = self.flagvals[t.left.id]                                 # `non_negative not in (False, None)`, `init in ("svd", "random")`
            isin = any(type(a_) is type(x.value) and a_ == x.value for x in t.comparators[0].elts)
            return isin if isinstance(t.ops[0], ast.In) else (not isin)
        if isinstance(t, ast.Compare) and len(t.ops) == 1 and isinstance(t.left, ast.Name) and t.left.id in self.consts \
                and isinstance(t.comparators[0], ast.Constant) and isinstance(t.comparators[0].value, int) and not isinstance(t.comparators[0].value, bool):
            c, op, k = t.comparators[0].value, t.ops[0], self.consts[t.left.id]
            if k == "first":
                return {ast.Eq: 0 == c, ast.NotEq: 0 != c, ast.Lt: 0 < c, ast.LtE: 0 <= c, ast.Gt: 0 > c, ast.GtE: 0 >= c}.get(type(op))
            # the counter is some value >= 1
            if isinstance(op, ast.Eq):
                return False if c <= 0 else None
            if isinstance(op, ast.NotEq):
                return True if c <= 0 else None
            if isinstance(op, ast.Gt):
                return True if c <= 0 else None
            if isinstance(op, ast.GtE):
                return True if c <= 1 else None
            if isinstance(op, ast.Lt):
                return False if c <= 1 else None
            if isinstance(op, ast.LtE):
                return False if c <= 0 else None
        return None

    def node_is_array(self, n):
        """True only when the value of the ast node is certainly an ndarray (not a NumPy / Python scalar): allocations, tl.tensor, copies,
        element-wise functions / arithmetic / slices of such values.  Used for one purpose: an augmented assignment to such a name is an
        in-place NumPy operation (the dtype of the target is kept), to any other name it is a rebinding (promotion)."""
        if isinstance(n, ast.Name):
            return n.id in self.arrayvars
        if isinstance(n, ast.BinOp):
            return self.node_is_array(n.left) or self.node_is_array(n.right)
        if isinstance(n, ast.UnaryOp) and not isinstance(n.op, ast.Not):
            return self.node_is_array(n.operand)
        if isinstance(n, ast.IfExp):
            return self.node_is_array(n.body) and self.node_is_array(n.orelse)
        if isinstance(n, ast.Subscript):
            sl = n.slice
            parts = sl.elts if isinstance(sl, ast.Tuple) else [sl]
            if isinstance(n.value, ast.Call) and self.call_name(n.value) == "stack" and n.value.args and isinstance(n.value.args[0], (ast.List, ast.Tuple)) \
                    and n.value.args[0].elts and all(self.node_is_array(x) for x in n.value.args[0].elts) and len(parts) == 1:
                return True          # one index into a stack of arrays is still an array
            return self.node_is_array(n.value) and any(isinstance(x, ast.Slice) for x in parts)
        if isinstance(n, ast.Call):
            d = self.dotted(n.func)
            A = d[-1] if d else None
            if d and len(d) > 1 and d[-2] in RNG_NAMES:
                return False
            if A in ALLOC or A in ("tensor", "array", "asarray", "zeros_like", "ones_like", "empty_like", "full_like", "concatenate", "stack", "arange") \
                    or (A == "copy" and d and d[0] in MODULES):
                return True          # (np.copy returns an ndarray even for a scalar argument)
            if A in ("copy", "sqrt", "abs", "exp", "log", "sign", "clip", "transpose", "reshape", "conj", "flip", "sort", "cumsum", "index_update", "astype") and (n.args or isinstance(n.func, ast.Attribute)):
                base = n.args[0] if (n.args and (d is None or d[0] in MODULES)) else (n.func.value if isinstance(n.func, ast.Attribute) else None)
                return base is not None and self.node_is_array(base)
            if A == "where" and len(n.args) == 3:
                return self.node_is_array(n.args[1]) or self.node_is_array(n.args[2])
        return False

    # ---- statements
    def assign(self, tgt, e):
        if isinstance(tgt, ast.Name):
            self.wr(tgt.id, e)
        elif isinstance(tgt, ast.Subscript):
            b = tgt.value
            simple = isinstance(tgt.slice, (ast.Name, ast.Constant, ast.UnaryOp, ast.BinOp, ast.Attribute)) and not isinstance(b, ast.Subscript)
            while isinstance(b, ast.Subscript):
                b = b.value
            cur = self.ex(b)
            nm = ".".join(self.dotted(b)) if self.dotted(b) else None
            if nm is None:
                return
            if cur is None or nm in self.empty:
                self.wr(nm, e)       # first element of an untracked / empty list
            elif e is None:
                self.wr(nm, cur)
            elif simple or self.is_listvar(nm):
                # x[i] = v: an element of a list of arrays (or a row of an array): the variable stands for all elements -> promotion
                self.wr(nm, join(cur, e))
            else:
                # x[i, :] = v / x[mask] = v / x[a:b] = v: in-place write, the dtype of the target array is kept
                self.wr(nm, ("into", cur, e))
        elif isinstance(tgt, ast.Attribute):
            d = self.dotted(tgt)
            if d:
                self.wr(".".join(d), e)
        elif isinstance(tgt, (ast.Tuple, ast.List)):
            for t in tgt.elts:
                self.assign(t, e)
        elif isinstance(tgt, ast.Starred):
            self.assign(tgt.value, e)
        else:
            raise Unsupported("target " + type(tgt).__name__)

    def is_listvar(self, nm):
        return nm in self.listvars

    def assigned_names(self, stmts):
        out = set()
        for s in stmts:
            for node in ast.walk(s):
                if isinstance(node, (ast.Assign, ast.AugAssign, ast.AnnAssign)):
                    tg = node.targets if isinstance(node, ast.Assign) else [node.target]
                    for t in tg:
                        for x in ast.walk(t):
                            if isinstance(x, ast.Name) and isinstance(x.ctx, ast.Store):
                                out.add(x.id)
                            elif isinstance(x, ast.Subscript):
                                dd = self.dotted(x.value)
                                if dd:
                                    out.add(".".join(dd))
                            elif isinstance(x, ast.Attribute) and isinstance(x.ctx, ast.Store):
                                dd = self.dotted(x)
                                if dd:
                                    out.add(".".join(dd))
                elif isinstance(node, (ast.For, ast.comprehension)):
                    for x in ast.walk(node.target):
                        if isinstance(x, ast.Name):
                            out.add(x.id)
                elif isinstance(node, ast.Call) and isinstance(node.func, ast.Attribute) and node.func.attr in ("append", "insert", "extend", "pop", "remove"):
                    dd = self.dotted(node.func.value)
                    if dd:
                        out.add(".".join(dd))
        return out

    def cur(self, name):
        return self.rd(name)

    def branches(self, blocks, node=None, none_at=None):
        """join semantics for alternative blocks: every variable assigned in some block ends as the promotion of its values over
        all alternatives (an alternative that does not assign it contributes the value before)"""
        names = sorted(set().union(*[self.assigned_names(b) for b in blocks]) | {x for l in (none_at or []) for x in l})
        pre = {}
        for nm in names:
            c = self.cur(nm)
            if c is not None:
                t = self.fresh("pre", node, ":" + nm); self.out.append((t, c)); self.defined.add(t); pre[nm] = t
                if idxlike(c, self.intvars, self.weakvars): self.intvars.add(t)
                if weaklike(c, self.weakvars): self.weakvars.add(t)
        pre_empty = set(self.empty)
        pre_structs, struct_results = dict(self.structs), []
        results = []
        for bi, b in enumerate(blocks):
            # restore the state before the alternatives
            for nm in names:
                if nm in pre:
                    self.wr_raw(nm, ("var", pre[nm]))
                else:
                    self.undefine(nm)
            self.empty = set(pre_empty)
            self.structs = dict(pre_structs)
            for nm in (none_at[bi] if none_at else []):
                self.undefine(nm)
            self.block(b)
            struct_results.append(self.structs)
            res = {}
            for nm in names:
                c = self.cur(nm)
                if c is not None:
                    t = self.fresh("alt", node, f":{bi}:" + nm); self.out.append((t, c)); self.defined.add(t); res[nm] = t
                    if idxlike(c, self.intvars, self.weakvars): self.intvars.add(t)
                    if weaklike(c, self.weakvars): self.weakvars.add(t)
                if weaklike(c, self.weakvars): self.weakvars.add(t)
            results.append((res, set(self.empty)))
        for nm in names:
            vals = [("var", r[nm]) for r, _ in results if nm in r]
            if vals:
                self.wr_raw(nm, joinlist(vals))
            else:
                self.undefine(nm)
        self.empty = set.intersection(*[e for _, e in results]) if results else pre_empty
        # a container survives the alternatives when every alternative leaves it bound to known components (possibly different ones: then all
        # versions are kept and reported - each of them is an output that has to be in context)
        merged = {}
        for k in set().union(*[set(r) for r in struct_results]) if struct_results else ():
            if all(k in r for r in struct_results):
                vs, deps = [], set()
                for r in struct_results:
                    for v in r[k]["versions"]:
                        if v not in vs:
                            vs.append(v)
                    deps |= r[k]["deps"]
                merged[k] = {"versions": vs, "deps": deps}
        self.structs = merged

    def wr_raw(self, name, e):
        if self.rename is not None and name in self.rename:
            name = self.rename[name]
        elif self.rename is not None:
            self.rename[name] = "post." + name; name = "post." + name
        self.out.append((name, e)); self.defined.add(name)
        (self.intvars.add if idxlike(e, self.intvars, self.weakvars) else self.intvars.discard)(name)
        (self.weakvars.add if weaklike(e, self.weakvars) else self.weakvars.discard)(name)
        (self.weakvars.add if weaklike(e, self.weakvars) else self.weakvars.discard)(name)

    def undefine(self, name):
        if self.rename is not None and name in self.rename:
            self.defined.discard(self.rename[name]); del self.rename[name]
        elif self.rename is None:
            self.defined.discard(name)

    def stmt(self, s):
        if isinstance(s, ast.Expr):
            v = s.value
            if isinstance(v, ast.Call) and isinstance(v.func, ast.Attribute) and v.func.attr in ("append", "extend", "insert"):
                dd = self.dotted(v.func.value)
                if dd:
                    nm = ".".join(dd)
                    e = self.ex(v.args[-1]) if v.args else None
                    c = self.cur(nm)
                    self.listvars.add(nm)
                    if nm in self.empty or c is None:
                        self.wr(nm, e)
                    else:
                        self.wr(nm, join(c, e))
                    return
            if isinstance(v, ast.Call):
                self.ex(v)
            return
        if isinstance(s, ast.Assign):
            if isinstance(s.value, (ast.List, ast.Tuple)) and not s.value.elts and len(s.targets) == 1 and isinstance(s.targets[0], ast.Name):
                nm = s.targets[0].id
                self.undefine(nm) if self.rename is None else None
                self.defined.discard(nm); self.empty.add(nm); self.listvars.add(nm)
                return
            if (isinstance(s.value, (ast.ListComp, ast.List)) or (isinstance(s.value, ast.BinOp) and isinstance(s.value.left, (ast.List, ast.Tuple)))) \
                    and len(s.targets) == 1 and isinstance(s.targets[0], ast.Name):
                self.listvars.add(s.targets[0].id)
            if len(s.targets) == 1 and isinstance(s.targets[0], (ast.Tuple, ast.List)) and isinstance(s.value, (ast.Tuple, ast.List)) \
                    and len(s.targets[0].elts) == len(s.value.elts):
                vals = [self.ex(v) for v in s.value.elts]
                arrs = [self.node_is_array(v) for v in s.value.elts]
                for t, v, isarr in zip(s.targets[0].elts, vals, arrs):
                    self.assign(t, v)
                    if isinstance(t, ast.Name):
                        (self.arrayvars.add if isarr else self.arrayvars.discard)(t.id)
                return
            if len(s.targets) == 1 and isinstance(s.targets[0], (ast.Tuple, ast.List)) and isinstance(s.value, ast.Call):
                spec = self.spec_of(self.call_name(s.value), s.value)
                ip = self.int_positions_of(s.value)
                if ip is not None and ip[0] == len(s.targets[0].elts) and ip[1]:
                    # a library function known to return index / count values at some positions of its tuple (INT_POSITIONS): those targets are
                    # integer-valued, the others are handled as before
                    r = self.call(s.value, raw=True)
                    okr = r if spec is True else self.inexact(r)
                    for k, t in enumerate(s.targets[0].elts):
                        if k in ip[1]:
                            self.assign(t, INTS)
                        else:
                            self.assign(t, (r if spec[k] else self.inexact(r)) if (isinstance(spec, list) and len(spec) == ip[0]) else okr)
                        if isinstance(t, ast.Name):
                            self.arrayvars.discard(t.id)
                    return
                if isinstance(spec, list) and len(spec) == len(s.targets[0].elts):
                    r = self.call(s.value, raw=True)
                    for t, okk in zip(s.targets[0].elts, spec):
                        self.assign(t, r if okk else self.inexact(r))
                        if isinstance(t, ast.Name):
                            self.arrayvars.discard(t.id)
                    return
            e = self.ex(s.value)
            isarr = self.node_is_array(s.value)
            for t in s.targets:
                self.assign(t, e)
                if isinstance(t, ast.Name):
                    (self.arrayvars.add if isarr else self.arrayvars.discard)(t.id)
            if len(s.targets) == 1 and isinstance(s.targets[0], ast.Name):
                self.record_struct(s.targets[0].id, s.value)
            return
        if isinstance(s, ast.AnnAssign):
            if s.value is not None:
                self.assign(s.target, self.ex(s.value))
            return
        if isinstance(s, ast.AugAssign):
            cur = self.ex(s.target if not isinstance(s.target, ast.Name) else ast.Name(id=s.target.id, ctx=ast.Load()))
            e = self.ex(s.value)
            if cur is None or e is None:
                new = join(cur, e)
            elif isinstance(s.target, ast.Name) and s.target.id in self.arrayvars:
                new = ("into", cur, e)       # ndarray op= value: NumPy works in place, the dtype of the target is kept
            else:
                new = ("div", cur, e) if isinstance(s.op, ast.Div) else ("op", cur, e)
            self.assign(s.target, new)
            if isinstance(s.target, ast.Name) and s.target.id not in self.arrayvars and self.node_is_array(s.value):
                self.arrayvars.add(s.target.id)      # scalar op= ndarray re-binds the name to an ndarray
            return
        if isinstance(s, ast.Return):
            if s.value is None:
                return
            vals = [s.value] if not isinstance(s.value, ast.Tuple) else list(s.value.elts)
            ints = set()
            for pos, v in enumerate(vals):
                comps = [c if isinstance(c, tuple) else self.ex(c) for c in self.components(v)]
                if comps and all(c is not None and c[0] not in ("dtypeof", "dtconst") and idxlike(c, self.intvars, self.weakvars) and not weaklike(c, self.weakvars) for c in comps):
                    ints.add(pos)
            self.retints.append((len(vals), ints))
            for pos, v in enumerate(vals):
                # a returned container (tuple, CPTensor((weights, factors)), a variable still bound to one) is reported component by component:
                # each of weights / factors / core / errors is an output of its own (same position of the returned tuple for the callers)
                for k, c in enumerate(self.components(v)):
                    e = c if isinstance(c, tuple) else self.ex(c)
                    if e is None or e[0] in ("dtypeof", "dtconst") or idxlike(e, self.intvars, self.weakvars) or weaklike(e, self.weakvars):
                        continue          # not an array of the numeric context (None, index / count outputs, Python scalars)
                    r = self.fresh("ret", v, f":{k}")
                    self.out.append((r, e)); self.defined.add(r); self.rets.append(r)
                    self.retinfo[r] = (getattr(s, "lineno", 0), pos, len(vals))
            return
        if isinstance(s, ast.If):
            self.ex(s.test)
            decided = self.static_test(s.test)
            if decided is not None:
                self.block(s.body if decided else s.orelse)      # decided by the position of an unrolled loop: only that alternative
                return
            none_then, none_else = [], []
            t = s.test
            if isinstance(t, ast.Compare) and len(t.ops) == 1 and isinstance(t.comparators[0], ast.Constant) and t.comparators[0].value is None \
                    and isinstance(t.left, ast.Name):
                (none_then if isinstance(t.ops[0], (ast.Is, ast.Eq)) else none_else).append(t.left.id)
            self.branches([s.body, s.orelse], s, none_at=[none_then, none_else])
            return
        if isinstance(s, (ast.For, ast.While)):
            for u in range(2):
                self.path.append(u)
                if isinstance(s, ast.For):
                    self.bind_target(s.target, s.iter, symbolic=False)
                    self.set_counter(s, u)
                else:
                    self.ex(s.test)
                self.block(s.body)
                self.path.pop()
            c = self.loop_counter(s)
            if c is not None:
                self.consts.pop(c[0], None)
            self.block(s.orelse)
            return
        if isinstance(s, ast.Try):
            self.branches([s.body + s.orelse] + [s.body + h.body for h in s.handlers], s)
            self.block(s.finalbody)
            return
        if isinstance(s, ast.With):
            self.block(s.body)
            return
        if isinstance(s, (ast.Pass, ast.Break, ast.Continue, ast.Raise, ast.Assert, ast.Import, ast.ImportFrom, ast.Global, ast.Nonlocal, ast.Delete)):
            return
        if isinstance(s, (ast.FunctionDef, ast.ClassDef)):
            self.notes.append("nested definition " + s.name + " treated as opaque")
            return
        raise Unsupported(type(s).__name__)

    def block(self, stmts):
        for s in stmts:
            self.stmt(s)

    # ---- whole function
    def params(self):
        a = self.fn.args
        pos = a.posonlyargs + a.args
        defaults = [None] * (len(pos) - len(a.defaults)) + list(a.defaults)
        for idx, (p, dflt) in enumerate(list(zip(pos, defaults)) + list(zip(a.kwonlyargs, a.kw_defaults))):
            nm = p.arg
            if nm in ("self", "cls"):
                continue
            if isinstance(dflt, ast.Constant) and (isinstance(dflt.value, (bool, str)) or (dflt.value is None and nm not in ARRAY_OPT and nm != "mask" and (nm not in INT_PARAMS or nm in ("fixed_modes", "nn_modes", "fixed_factors")) and nm not in FLOAT_PARAMS)):
                self.flags[nm] = dflt.value
                if self.first_flag is None:
                    self.first_flag = idx - (1 if pos and pos[0].arg in ("self", "cls") else 0)
            if nm == "mask":
                e = LMASK
            elif nm in REAL_PARAMS:
                e = ("real", LIN)
            elif nm in INT_PARAMS:
                e = PYI
            elif nm in FLOAT_PARAMS:
                e = PYF
            elif dflt is None:
                e = LIN
            elif isinstance(dflt, ast.Constant):
                v = dflt.value
                if isinstance(v, bool) or isinstance(v, str):
                    e = None
                elif v is None:
                    e = LIN if nm in ARRAY_OPT else None
                elif isinstance(v, int):
                    e = PYI
                elif isinstance(v, float):
                    e = PYF
                else:
                    e = None
            else:
                e = None
            if e is not None:
                self.wr(nm, e)
                if e in (LIN, LMASK):
                    self.arrayvars.add(nm)
        if a.kwarg is not None and a.kwarg.arg in ("context", "ctx"):
            self.wr(a.kwarg.arg, LIN)
        if self.defaults_mode:
            self.flagvals = dict(self.flags)
            self.flagvals.update({k: v for k, v in self.flag_override.items() if k in self.flags})
            for k, v in self.flag_override.items():
                if v is Ellipsis:
                    self.flagvals.pop(k, None)      # every value of this option: tests on it stay undecided (alternatives joined)

    def run(self):
        self.listvars = set()
        body = list(self.fn.body)
        main = None
        for i, s in enumerate(body):
            if isinstance(s, ast.While) or (isinstance(s, ast.For) and isinstance(s.target, ast.Name) and s.target.id in MAINLOOP_TARGETS):
                main = i
        self.params()

        def attrs_as_outputs():
            # a method that stores arrays on the object (fit): the stored attributes are outputs as well
            names = {n for n in self.defined if n.startswith("self.")} | {n for n in (self.rename or {}) if n.startswith("self.")}
            for nm in sorted(names):
                c = self.rd(nm)
                if c is None or idxlike(c, self.intvars, self.weakvars) or weaklike(c, self.weakvars):
                    continue
                r = "%attr:" + nm
                self.out.append((r, c)); self.defined.add(r)
                if r not in self.rets:
                    self.rets.append(r)
        if main is None:
            self.block(body)
            attrs_as_outputs()
            init, loop = self.out, []
        else:
            pre, lp, post = body[:main], body[main], body[main + 1:]
            self.block(pre)

            def one_pass(u):
                if isinstance(lp, ast.For):
                    self.bind_target(lp.target, lp.iter, symbolic=False)
                    self.set_counter(lp, u)       # the peeled pass is iteration 0, the loop body stands for every later one
                else:
                    self.ex(lp.test)
                self.block(lp.body)
                c = self.loop_counter(lp)
                if c is not None:
                    self.consts.pop(c[0], None)
                self.rename = {}
                self.block(post)
                attrs_as_outputs()
                self.rename = None
            one_pass(0)
            init = self.out
            self.out = []
            self.seen = {k: v for k, v in self.seen.items() if False}
            one_pass(1)
            loop = self.out
        return init, loop, list(dict.fromkeys(self.rets))


def gallina(e, vid):
    k = e[0]
    if k == "leaf":
        return f"(Leaf {e[1]})"
    if k == "var":
        return f"(Var {vid(e[1])})"
    if k in ("op", "div", "into", "alt"):
        c = {"op": "Op", "div": "Div", "into": "Into", "alt": "Alt"}[k]
        b = e[2] if e[2] is not None and e[2][0] not in ("dtypeof", "dtconst") else PYI
        a = e[1] if e[1] is not None and e[1][0] not in ("dtypeof", "dtconst") else PYI
        return f"({c} {gallina(a, vid)} {gallina(b, vid)})"
    if k in ("tofloat", "real"):
        return f"({'ToFloat' if k == 'tofloat' else 'RealOf'} {gallina(e[1], vid)})"
    raise KeyError(k)


def translate(fn_node, qual, defaults_mode=False, flag_override=None):
    tr = Translator(fn_node, qual, defaults_mode, flag_override)
    init, loop, rets = tr.run()
    ids = {}

    def vid(name):
        if name not in ids:
            ids[name] = len(ids)
        return ids[name]
    gi = "[" + "; ".join(f"({vid(n)}, {gallina(e, vid)})" for n, e in init) + "]"
    gl = "[" + "; ".join(f"({vid(n)}, {gallina(e, vid)})" for n, e in loop) + "]"
    go = "[" + "; ".join(f'("*", (Var {vid(r)}))' for r in rets) + "]"
    persist = {n[len("$persist."):]: k for n, k in ids.items() if n.startswith("$persist.")}
    Ls = {L for L, _ in tr.retints}
    int_pos = sorted(set.intersection(*[i for _, i in tr.retints])) if len(Ls) == 1 and next(iter(Ls)) > 1 else []
    return dict(qual=qual, persist=persist, ret_len=(next(iter(Ls)) if len(Ls) == 1 else None), int_positions=int_pos, prog=f"(mkprog {gi} {gl} {go})", n_init=len(init), n_loop=len(loop), n_out=len(rets), n_vars=len(ids), notes=tr.notes,
                retinfo=[tr.retinfo.get(r) for r in rets], flags=dict(tr.flags), first_flag=tr.first_flag, params=[a.arg for a in fn_node.args.posonlyargs + fn_node.args.args],
                leaves=sorted({x for _, e in init + loop for x in leaves_of(e)}))


def leaves_of(e):
    if e is None:
        return []
    if e[0] == "leaf":
        return [e[1]]
    out = []
    for x in e[1:]:
        if isinstance(x, tuple):
            out += leaves_of(x)
    return out


EXTRACT_SKIP_DIRS = ("tests", "datasets", "plugins", "sparse", "utils", "__pycache__")
EXTRACT_SKIP_FILES = ("testing.py", "conftest.py", "_factorized_tensor.py", "base_tenalg.py", "backend_manager.py")
EXTRACT_BASELINE = "_extracted_levels.json"


def module_objects(tree):
    """names bound at module level to a mutable container (dict / list / set display or constructor) or to the result of a call (a singleton object):
    what a function of the module can use to hand a value from one call to the next"""
    from harness.props import C18_hist as H
    out, defined = set(), set()
    for n in tree.body:
        if isinstance(n, (ast.FunctionDef, ast.AsyncFunctionDef, ast.ClassDef)):
            defined.add(n.name)
        tg, val = [], None
        if isinstance(n, ast.Assign):
            tg, val = n.targets, n.value
        elif isinstance(n, ast.AnnAssign) and n.value is not None:
            tg, val = [n.target], n.value
        if val is not None and (H._is_mutable_value(val) or isinstance(val, ast.Call)):
            out.update(t.id for t in tg if isinstance(t, ast.Name))
    return out - defined


def extract_functions(repo):
    """(qualified name, ast.FunctionDef) for every module-level function and every method of the library (backend: core.py only)"""
    import os
    root = os.path.join(repo, "tensorly")
    for d, dirs, fs in sorted(os.walk(root)):
        if any(x in d.split(os.sep) for x in EXTRACT_SKIP_DIRS):
            continue
        rel = os.path.relpath(d, root)
        for f in sorted(fs):
            if not f.endswith(".py") or f in EXTRACT_SKIP_FILES:
                continue
            if rel.startswith("backend") and f != "core.py":
                continue
            pth = os.path.join(d, f)
            try:
                tree = ast.parse(open(pth).read())
            except SyntaxError:
                continue
            mod = os.path.relpath(pth, repo)[:-3].replace(os.sep, ".")
            MODULE_OBJECTS[mod] = module_objects(tree)
            for node in tree.body:
                if isinstance(node, ast.FunctionDef):
                    yield mod + "." + node.name, node
                elif isinstance(node, ast.ClassDef):
                    for m in node.body:
                        if isinstance(m, ast.FunctionDef) and not (m.name.startswith("__") and m.name != "__init__"):
                            yield mod + "." + node.name + "." + m.name, m


def variant_suffix(dev):
    """dev: ((option, value), ...) sorted; value Ellipsis = every value of the option (its tests stay undecided in the callee's translation)"""
    return "".join("@" + o + "=" + ("*" if v is Ellipsis else repr(v).replace(".", "_")) for o, v in dev)


def base_qual(q):
    """qualified name of the function a variant translation "<qual>@<option>=<value>" belongs to"""
    return q.split("@", 1)[0]


def extract_all(repo, defaults_mode=False):
    """{qual: translation dict | {'error': ...}} for every function that returns at least one array-valued expression; with defaults_mode also the variant
    translations "<qual>@<option>=<value>" that call sites ask for (WANTED_VARIANTS)"""
    import warnings
    out = {}
    nodes = {}
    if defaults_mode:
        WANTED_VARIANTS.clear()
    with warnings.catch_warnings():
        warnings.simplefilter("ignore")
        for q, node in extract_functions(repo):
            nodes[q] = node
            try:
                r = translate(node, q, defaults_mode)
            except Unsupported as e:
                out[q] = {"error": "unsupported construct: " + str(e)}
                continue
            except RecursionError:
                out[q] = {"error": "recursion limit"}
                continue
            RET_INTS[q] = (r.get("ret_len"), r.get("int_positions") or [])      # (also of the functions without array outputs: they may return only indices)
            if r["n_out"]:
                out[q] = r
        done = set()
        while defaults_mode:
            todo = sorted(WANTED_VARIANTS - done, key=repr)
            if not todo or len(done) > 200:
                break
            for A, dev in todo:
                done.add((A, dev))
                for q, node in nodes.items():
                    if q.rsplit(".", 1)[1] != A or q.rsplit(".", 2)[1][:1].isupper():
                        continue
                    try:
                        r = translate(node, q, True, dict(dev))
                    except (Unsupported, RecursionError):
                        continue
                    if r["n_out"]:
                        out[q + variant_suffix(dev)] = r
    return out


def extract_diagnose(repo, qual, mu="B"):
    """Python mirror of prog_ok2 for tau = float32: the statements whose value leaves the precision class (index-valued ones omitted)"""
    for q, node in extract_functions(repo):
        if q == qual:
            break
    else:
        return ["function not found"]
    tr = Translator(node, qual)
    init, loop, rets = tr.run()
    cls = {"LIn": "F32", "LMask": mu, "LBare": "F64", "LPyI": "WI", "LPyF": "WF", "LPyC": "WC", "(LConst I64)": "I64", "(LConst B)": "B",
           "(LConst F64)": "F64", "(LConst F32)": "F32", "(LConst C128)": "C128", "(LConst C64)": "C64"}

    def ok(e, D, S):
        k = e[0]
        if k == "leaf":
            d_ = cls.get(e[1], "?")
            return d_ in ("F32", "WI", "WF"), d_ == "F32"
        if k == "var":
            return e[1] in D, e[1] in S
        if k in ("op", "div", "alt"):
            a = ok(e[1], D, S)
            b = ok(e[2], D, S) if e[2] is not None and e[2][0] not in ("dtypeof", "dtconst") else (True, False)
            return a[0] and b[0], a[1] or b[1]
        return ok(e[1], D, S)
    D, S, bad = set(), set(), []
    for phase, blk in (("init", init), ("loop", loop)):
        for nm, e in blk:
            o, st = ok(e, D, S)
            (D.add if o else D.discard)(nm)
            (S.add if (o and st) else S.discard)(nm)
            if not o and not idxlike(e, tr.intvars, tr.weakvars) and not nm.startswith("%"):
                bad.append(f"{phase}: {nm} <- {str(e)[:160]}")
    for r in rets:
        if r not in D or r not in S:
            bad.append(f"output {r}: in class={r in D} strong={r in S}")
    return bad[:12]


def extract_cases(repo, levels_wanted):
    """cases for run_case_shards: levels_wanted(qual) -> list of levels to check; returns (cases, meta, info)"""
    ex = extract_all(repo)
    cases, meta, errors = [], [], {}
    for q in sorted(ex):
        r = ex[q]
        if "error" in r:
            errors[q] = r["error"]
            continue
        for lvl in levels_wanted(q):
            cid = len(cases)
            cases.append(f"(CExt {cid}%nat {lvl}%nat {r['prog']})")
            meta.append((q, lvl, r))
    return cases, meta, errors, ex


def load_extract_baseline(what="levels"):
    import json, os
    p = os.path.join(C.VERIF, "corpus", "C18", EXTRACT_BASELINE)
    return json.load(open(p)).get(what, {}) if os.path.exists(p) else {}


# the documented exceptions of C18 at source level: the ONLY functions that may stay uncertified (level 0) in the baseline
DOCUMENTED_F64 = {"tensorly.metrics.leverage_scores.leverage_score_dist"}


def _best_spec(a, b):
    """position-wise union of two certificates of the same function (True | [bool per tuple position] | None)"""
    if a is True or b is True:
        return True
    if isinstance(a, list) and isinstance(b, list) and len(a) == len(b):
        r = [x or y for x, y in zip(a, b)]
        return True if all(r) else r
    return a if a is not None else b


def _meet(a, b):
    if a == b:
        return a
    if a is None or b is None:
        return None
    if a is True:
        return b
    if b is True:
        return a
    return [x and y for x, y in zip(a, b)] if len(a) == len(b) else None


def callee_specs(ex, exact):
    """bare function name -> True | [bool per tuple position]: which results of a library function are certified exact (all functions of
    that name agreeing); derived from the per-output certification `exact` of the translations `ex`"""
    per = {}
    for q, r in ex.items():
        name = q.rsplit(".", 1)[1]
        if "error" in r or name.startswith("__") or q.rsplit(".", 2)[1][:1].isupper():
            continue          # methods are never resolved by their bare name (see Translator.spec_of)
        e = exact.get(q)
        outs = set(e["outs"]) if e else set()
        info = r["retinfo"]
        Ls = {i[2] for i in info if i is not None}
        if e is None:
            spec = None
        elif any(i is None for i in info) or len(Ls) != 1 or next(iter(Ls)) == 1:
            spec = True if len(outs) == r["n_out"] else None
        else:
            spec = [True] * next(iter(Ls))
            for k, i in enumerate(info):
                if k not in outs:
                    spec[i[1]] = False
            spec = True if all(spec) else spec
        per.setdefault(name, []).append(spec)
    merged = {}
    for name, specs in per.items():
        m = specs[0]
        for sp in specs[1:]:
            m = _meet(m, sp)
        if m is not None and m is not False and (m is True or any(m)):
            merged[name] = m
    return merged


def int_positions_table(ex):
    """bare function name -> [tuple length, positions index-valued in every return] (all functions of that name agreeing; methods excluded)"""
    per = {}
    for q, (L_, pos_) in RET_INTS.items():          # filled by the extract_all that produced `ex`
        name = q.rsplit(".", 1)[1]
        if name.startswith("__") or q.rsplit(".", 2)[1][:1].isupper():
            continue
        per.setdefault(name, []).append((L_, set(pos_)))
    out = {}
    for name, lst in per.items():
        Ls = {L for L, _ in lst}
        if len(Ls) == 1 and next(iter(Ls)):
            pos = set.intersection(*[p for _, p in lst])
            if pos:
                out[name] = [next(iter(Ls)), sorted(pos)]
    return out


def set_int_positions(tab):
    INT_POSITIONS.clear()
    INT_POSITIONS.update({k: [v[0], list(v[1])] for k, v in (tab or {}).items()})


def int_positions_fixpoint(repo):
    """least fixpoint: starts from no assumption, grows monotonically (a position found index-valued stays so when more callees are known)"""
    set_int_positions({})
    for _ in range(6):
        tab = int_positions_table(extract_all(repo))
        if tab == INT_POSITIONS:
            break
        set_int_positions(tab)
    return dict(INT_POSITIONS)


def set_exact_callees(specs, default_specs=None, flags=None):
    EXACT_CALLEES.clear()
    EXACT_CALLEES.update(specs)
    EXACT_CALLEES_DEFAULT.clear()
    EXACT_CALLEES_DEFAULT.update(default_specs or {})
    CALLEE_FLAGS.clear()
    CALLEE_FLAGS.update(flags or {})


def callee_flags(ex, repo):
    """bare function name -> its boolean / string / None-valued options with their defaults (all functions of that name agreeing; methods excluded);
    falsy_eq: the options with default None / False for which the function translates to the same program under the other of the two values"""
    nodes = dict(extract_functions(repo))
    per = {}
    for q, r in ex.items():
        name = q.rsplit(".", 1)[1]
        if "error" in r or name.startswith("__") or q.rsplit(".", 2)[1][:1].isupper():
            continue
        feq = []
        for f, dv in r["flags"].items():
            if dv is None or dv is False:
                try:
                    a = translate(nodes[q], q, True)["prog"]
                    b = translate(nodes[q], q, True, {f: (False if dv is None else None)})["prog"]
                    if a == b:
                        feq.append(f)
                except Exception:  # noqa
                    pass
        per.setdefault(name, []).append({"flags": r["flags"], "first": r["first_flag"], "falsy_eq": sorted(feq), "params": r["params"]})
    return {n: v[0] for n, v in per.items() if all(x == v[0] for x in v)}


def measure_exact(ex, levels, tag):
    """{qual: {"n_out", "outs"}}: which outputs of the translations `ex` pass the exact-dtype check at the function's level"""
    xcases, xmeta = [], []
    for q in sorted(ex):
        r = ex[q]
        if "error" in r or levels.get(base_qual(q), 0) < 1:
            continue
        for k in range(r["n_out"]):
            xcases.append(f"(CExtX {len(xcases)}%nat {levels[base_qual(q)]}%nat {r['prog']} [{k}%nat])")
            xmeta.append((q, k))
    xfailing, x_eval, xbroken = C.run_case_shards("C18", HEADER, "case", xcases, shard=60, tag=tag)
    assert not xbroken and x_eval == len(xcases), xbroken
    exact = {}
    for i, (q, k) in enumerate(xmeta):
        e = exact.setdefault(q, {"n_out": ex[q]["n_out"], "outs": []})
        if i not in xfailing:
            e["outs"].append(k)
    return exact


def write_extract_baseline(repo=None, out_path=None):
    """measures, on the given tree, at which level every extracted function is certified and stores it"""
    import json, os
    repo = repo or C.REPO
    set_exact_callees({})
    int_pos = int_positions_fixpoint(repo)
    print("index-valued tuple positions of library callees:", int_pos)
    flags = callee_flags(extract_all(repo), repo)
    set_exact_callees({}, {}, flags)
    cases, meta, errors, ex = extract_cases(repo, lambda q: [2, 1])
    failing, n_eval, broken = C.run_case_shards("C18", HEADER, "case", cases, shard=40, tag="extbase")
    assert not broken and n_eval == len(cases), broken
    levels = {}
    for i, (q, lvl, r) in enumerate(meta):
        if i not in failing:
            levels[q] = max(levels.get(q, 0), lvl)
        else:
            levels.setdefault(q, 0)
    # which outputs are certified to have EXACTLY the data's dtype ('complex stays complex'), at the function's level.  Least fixpoint over
    # the assumption "these library callees return exact results" (starts from none, grows monotonically)
    rounds = 0
    while True:
        rounds += 1
        ex = extract_all(repo)
        exact = measure_exact(ex, levels, "extbasex")
        specs = callee_specs(ex, exact)
        print(f"exactness round {rounds}: {sum(len(e['outs']) for e in exact.values())} exact outputs, {len(specs)} exact callees")
        if specs == dict(EXACT_CALLEES) or rounds >= 8:
            break
        set_exact_callees(specs, {}, flags)
    # the same for the translations with every boolean / string option at its default (non_negative=False, init="svd", ...): a second, weaker
    # certification for the outputs that the all-paths check cannot certify because some option makes them real-valued by design
    set_exact_callees(dict(EXACT_CALLEES), {}, flags)
    rounds = 0
    while True:
        rounds += 1
        exd = extract_all(repo, defaults_mode=True)
        exact_d = measure_exact(exd, levels, "extbasexd")
        specs = callee_specs(exd, exact_d)
        print(f"default-options exactness round {rounds}: {sum(len(e['outs']) for e in exact_d.values())} of {sum(e['n_out'] for e in exact_d.values())} exact outputs, {len(specs)} exact callees")
        if specs == dict(EXACT_CALLEES_DEFAULT) or rounds >= 8:
            break
        set_exact_callees(dict(EXACT_CALLEES), specs, flags)
    head, dirty = C.repo_head()
    json.dump({"repo_head": head, "int_positions": int_pos, "levels": levels, "exact": exact, "exact_callees": dict(EXACT_CALLEES), "untranslatable": errors,
               "exact_default": exact_d, "exact_callees_default": dict(EXACT_CALLEES_DEFAULT), "callee_flags": flags,
               "comment": "level 2: extracted dtype program certified for every mask dtype; 1: for a mask of the data's dtype; 0: not certified "
                          "(documented float64 output: must be exactly DOCUMENTED_F64); exact[q].outs: positions (in the order of the return "
                          "expressions) of the outputs certified to have EXACTLY the data's dtype at that level - the others are real-valued "
                          "(norms, errors, abs) or joined with such values"},
              open(out_path or os.path.join(C.VERIF, "corpus", "C18", EXTRACT_BASELINE), "w"), indent=1, sort_keys=True)
    return levels, errors, exact, exact_d

# ---- canaries of the history-independence instruments (translator + hist_free, static scanner)
CANARY_SRC = """
_CACHE = {}
_SEEN = []


def cached_solver(tensor, regularizer):
    key = (tl.shape(tensor)[0], regularizer)
    M = _CACHE.get(key)
    if M is None:
        M = tl.tensor(tl.diag(2 * regularizer * tl.ones(tl.shape(tensor)[0]) + 1), **tl.context(tensor))
        _CACHE[key] = M
    return tl.solve(M, tensor)


def cast_cached_solver(tensor, regularizer):
    key = (tl.shape(tensor)[0], regularizer)
    M = tl.tensor(_CACHE[key], **tl.context(tensor))      # a module-level table (filled elsewhere) read through a cast into the context of the data
    return tl.solve(M, tensor)


def fresh_solver(tensor, regularizer):
    M = tl.tensor(tl.diag(2 * regularizer * tl.ones(tl.shape(tensor)[0]) + 1), **tl.context(tensor))
    return tl.solve(M, tensor)


def last_scale(tensor):
    global _LAST_SCALE
    out = tensor * _LAST_SCALE
    _LAST_SCALE = tl.norm(tensor)
    return out


@functools.lru_cache(maxsize=None)
def memo_eye(n):
    return tl.eye(n)


def attr_cached(tensor):
    if not hasattr(attr_cached, "buf"):
        attr_cached.buf = tl.zeros(tl.shape(tensor), **tl.context(tensor))
    return attr_cached.buf + tensor


def default_cached(tensor, _memo={}):
    if "m" not in _memo:
        _memo["m"] = tl.copy(tensor)
    return _memo["m"] * tensor


def remember(tensor):
    _SEEN.append(tensor)
    return tensor


def make_counter():
    hits = []

    def bump(x):
        hits.append(x)
        return len(hits)
    return bump


def local_only(tensor):
    acc = []

    def push(x):
        acc.append(x)
    push(tensor)
    return acc[0]


def _eye_impl(n):
    return tl.eye(n)


_memo_eye = functools.lru_cache(maxsize=None)(_eye_impl)


def use_assigned_cache(tensor):
    return _memo_eye(tl.shape(tensor)[0]) * tensor


class Est:
    _shared = {}

    def fit(self, X):
        self._shared["X"] = X
        self.X_ = X
        return self
"""
CANARY_SCAN_EXPECTED = {("cached_solver", "module-state-store"), ("last_scale", "global"),
                        ("memo_eye", "cache-decorator"), ("attr_cached", "module-state-store"), ("default_cached", "mutable-default-store"),
                        ("remember", "module-state-mutation"), ("make_counter.<locals>.bump", "closure-mutation"), ("Est.fit", "class-level-mutable-store"),
                        ("use_assigned_cache", "module-object-call")}


# every estimator class of the library (a class with a fit... method, enumerated from the source on every run) -> the table row that fits ONE object of it twice,
# first with data of the other precision.  A class that is not listed is a broken tie (fail closed on a new estimator).
REFIT_ROWS = {"CP": "class_CP_refit", "Tucker": "class_Tucker_refit", "CP_NN_HALS": "class_CP_NN_HALS_refit", "ConstrainedCP": "class_ConstrainedCP_refit",
              "TensorTrain": "class_TensorTrain_Ring_refit", "TensorRing": "class_TensorTrain_Ring_refit", "Parafac2": "class_Parafac2_refit",
              "CPPower": "class_CPPower_refit", "CPRegressor": "cp_regressor_refit", "TuckerRegressor": "tucker_regressor_refit", "CP_PLSR": "cp_plsr_refit",
              "RandomizedCP": "class_RandomizedCP_refit", "CP_NN": "class_CP_NN_refit", "SymmetricCP": "class_SymmetricCP_refit",
              "TensorRingALS": "class_TensorRingALS_refit", "TensorRingALSSampled": "class_TensorRingALSSampled_refit",
              "TensorTrainMatrix": "class_TensorTrainMatrix_refit", "Tucker_NN": "class_Tucker_NN_refit", "Tucker_NN_HALS": "class_Tucker_NN_HALS_refit",
              "TensorTrain_OI": "class_TensorTrain_OI_refit"}
REFIT_ABSTRACT = {"DecompositionMixin"}      # no constructor, fit() delegates to the subclass's fit_transform: analysed in every subclass

INSTANCE_CANARY_SRC = """
class Base:
    def fit(self, X):
        self.fit_transform(X)
        return self


class WarmStart(Base):
    def __init__(self, rank):
        self.rank = rank

    def fit_transform(self, X):
        if hasattr(self, "decomposition_"):
            init = self.decomposition_
        else:
            init = "svd"
        self.decomposition_ = solve(X, init)
        return self.decomposition_


class Clean(Base):
    def __init__(self, rank, callback=None):
        self.rank = rank
        self.callback = callback

    def fit_transform(self, X):
        res = solve(X, self.rank)
        if self.callback is not None:
            self.callback(res)
        self.decomposition_ = res
        self.errors_ = []
        return self.decomposition_


class CachedGram:
    def fit(self, X, y):
        if self.gram_ is None:
            self.gram_ = X.T @ X
        self.coef_ = solve(self.gram_, X.T @ y)
        return self

    def predict(self, X):
        return X @ self.coef_


class OneBranch:
    def fit(self, X):
        if X.ndim == 2:
            self.w_ = X.sum(0)
        return self.w_ * X


class Delegating:
    def fit(self, X, y):
        self._prepare(X)
        self.coef_ = self.scale_ * y
        return self

    def _prepare(self, X):
        self.scale_ = X.mean()

    def fit_transform(self, X, y):
        self.fit(X, y)
        return self.transform(X)

    def transform(self, X):
        return X * self.coef_


class Counter:
    def fit(self, X):
        self.n_seen_ += X.shape[0]
        return self


class Fallback:
    def fit(self, X):
        try:
            self.a_ = risky(X)
        except ValueError:
            pass
        return self.a_
"""
INSTANCE_CANARY_EXPECTED = {("WarmStart", "fit", "decomposition_"), ("WarmStart", "fit_transform", "decomposition_"), ("CachedGram", "fit", "gram_"),
                            ("OneBranch", "fit", "w_"), ("Counter", "fit", "n_seen_"), ("Fallback", "fit", "a_")}


def instance_canaries():
    """error strings: the instance-state scanner must flag exactly the fit methods of the canary classes that read a fitted attribute before overwriting it
    (warm start, cached Gram matrix, store on one branch only, counter, store that an exception can skip) and none of the clean ones (store then read,
    delegation to a helper / to fit, a constructor-stored callback, fit -> fit_transform through a base class)"""
    from harness.props import C18_hist as H
    hits, classes = H.scan_instance_source(INSTANCE_CANARY_SRC, "<canary>")
    got = {(h["class"].split("<canary>.", 1)[1], h["method"], h["attribute"]) for h in hits}
    errs = []
    if got != INSTANCE_CANARY_EXPECTED:
        errs.append(f"instance-state scanner on the canary classes: missing {sorted(INSTANCE_CANARY_EXPECTED - got)}, unexpected {sorted(got - INSTANCE_CANARY_EXPECTED)}")
    if {c["class"].split(".")[-1] for c in classes} != {"Base", "WarmStart", "Clean", "CachedGram", "OneBranch", "Delegating", "Counter", "Fallback"}:
        errs.append("instance-state scanner on the canary classes: estimator classes found = " + str(sorted(c["class"] for c in classes)))
    return errs


def history_canaries():
    """([(name, translation, hist_free expected)], [error strings]): the translator must give the dtype-oblivious caches a persistent variable, the static
    scanner must flag exactly the stateful canary functions (and not fresh_solver / local_only / the instance attribute of Est.fit)"""
    from harness.props import C18_hist as H
    errs, out = [], []
    tree = ast.parse(CANARY_SRC)
    MODULE_OBJECTS["<canary>"] = module_objects(tree) | {"_LAST_SCALE"}
    want = {"cached_solver": False, "cast_cached_solver": True, "last_scale": False, "fresh_solver": None}
    for node in tree.body:
        if isinstance(node, ast.FunctionDef) and node.name in want:
            try:
                r = translate(node, "<canary>." + node.name)
            except Exception as e:  # noqa
                errs.append(f"canary {node.name} is not translatable: {type(e).__name__}: {e}")
                continue
            if want[node.name] is None:
                if r["persist"]:
                    errs.append(f"canary {node.name} has no persistent state but was translated with persistent variables {sorted(r['persist'])}")
            elif not r["persist"]:
                errs.append(f"canary {node.name} uses a module-level cache but was translated without a persistent variable")
            else:
                out.append((node.name, r, want[node.name]))
    hits = H.scan_source(CANARY_SRC, "<canary>")
    got = {(h["function"].split("<canary>.", 1)[1], h["kind"]) for h in hits}
    if got != CANARY_SCAN_EXPECTED:
        errs.append(f"static persistent-state scanner on the canary module: missing {sorted(CANARY_SCAN_EXPECTED - got)}, unexpected {sorted(got - CANARY_SCAN_EXPECTED)}")
    return out, errs


# ---- self-test of the translator: random straight-line functions, executed for real and translated
TR_TEMPLATES = [
    "{v} = tl.zeros((3,), **tl.context({a}))", "{v} = tl.zeros((3,))", "{v} = tl.ones((3,), **tl.context({a}))", "{v} = tl.ones(3)",
    "{v} = tl.tensor({a}, **tl.context({b}))", "{v} = tl.tensor([1.0, 2.0, 3.0])", "{v} = tl.tensor([1, 2, 3])", "{v} = tl.tensor([1.0, 2.0, 3.0], **tl.context({a}))",
    "{v} = tl.tensor({a})", "{v} = tl.zeros_like({a})", "{v} = tl.copy({a})",
    "{v} = {a} * {b}", "{v} = {a} + 2", "{v} = {a} / {b}", "{v} = {a} / 3", "{v} = 1.5 * {a}", "{v} = {a} - {b} * 0.5", "{v} = {a} ** 2",
    "{v} = tl.abs({a})", "{v} = tl.sqrt(tl.abs({a}))", "{v} = tl.norm({a}) * {b}", "{v} = tl.sum({a}) * {b}", "{v} = tl.mean({a}, axis=0) + {b}",
    "{v} = {a} * mask", "{v} = {a} * (1 - mask)", "{v} = {a} * mask + {b} * (1 - mask)", "{v} = {a} * tl.tensor(mask, **tl.context({b}))",
    "{v} = tl.where({a} > 0.5, {a}, {b})", "{v} = tl.where(mask > 0, {a}, 0)", "{v} = tl.index_update(tl.copy({a}), tl.index[0:2], {b}[0:2])",
    "{v} = tl.copy({a})\n    {v}[1:] = {b}[1:]", "{v} = {a} + np.float64(2.0)", "{v} = {a} * float(tl.sum({b}))", "{v} = tl.clip({a}, a_min=0)",
    "{v} = tl.clip({a}, a_min=tl.eps({b}.dtype))", "{v} = tl.dot({a}, {b}) * {a}", "{v} = tl.eps({a}.dtype) * {b}", "{v} = {a} * tl.argmax({b})",
    "{v} = tl.concatenate([{a}, {b}])[:3]", "{v} = tl.stack([{a}, {b}])[0]", "{v} = tl.sign({a}) * tl.clip(tl.abs({a}) - 0.1, a_min=0)",
    "{v} = {a}.astype({b}.dtype)", "{v} = tl.tensor(np.random.RandomState(0).random_sample(3), **tl.context({a}))", "{v} = tl.tensor(np.random.RandomState(0).random_sample(3))",
    "{v} = tl.cumsum({a}, axis=0) / tl.tensor(tl.arange(3) + 1, **tl.context({b}))", "{v} = tl.cumsum({a}, axis=0) / (tl.arange(3) + 1)",
    "{v} = tl.copy({a})\n    {v} *= {b}", "{v} = tl.copy({a})\n    {v} /= np.float64(2.0)", "{v} = tl.sqrt(tl.abs({a}) / 3) + tl.zeros((3,), **tl.context(X))\n    {v} += mask", "{v} = tl.sum({a})\n    {v} += tl.sum({b})",
    "{v} = tl.zeros((3,), **tl.context({a}))\n    {v} += tl.ones(3)", "{v} = 0.0\n    {v} += {a}", "{v} = tl.norm({a})\n    {v} *= np.float64(2.0)", "{v} = tl.copy({a})[0:3]\n    {v} -= {b} * np.float64(0.5)",
    "{v} = {a} * tl.sqrt(2.0)", "{v} = {a} + tl.exp(1) * {b}",
    "{v} = tl.transpose(tl.reshape({a}, (3, 1)))[0] + {b}", "{v} = tl.max({a}) * {b}", "{v} = tl.sort({a}, axis=0) + tl.flip({b}, axis=0)",
]


def translator_selftest_cases(rng, n):
    """n random straight-line functions f(X, W, mask) built from TR_TEMPLATES; each is executed with float32 / float64 data and
    bool / int64 / float32 / float64 masks, and translated by the ast translator; returns (cases, meta)"""
    import tensorly as tl
    cases, meta = [], []
    for k in range(n):
        names = ["X", "W"]
        lines = []
        for j in range(rng.randrange(3, 8)):
            v = f"v{j}"
            tpl = rng.choice(TR_TEMPLATES)
            lines.append("    " + tpl.format(v=v, a=rng.choice(names), b=rng.choice(names)))
            names.append(v)
        outs = rng.sample(names[2:], min(2, len(names) - 2))
        src = "def f(X, W, mask):\n" + "\n".join(lines) + "\n    return " + ", ".join(outs) + ("," if len(outs) == 1 else "") + "\n"
        node = ast.parse(src).body[0]
        try:
            tr = translate(node, f"selftest{k}")
        except Unsupported as e:
            meta.append(("untranslatable", src, str(e)))
            continue
        if tr["n_out"] != len(outs):
            continue      # an output the translator classifies as index / scalar valued: outside the self-test
        ns = {"tl": tl, "np": np}
        exec(compile(src, f"<selftest{k}>", "exec"), ns)
        for tdt in ("float32", "float64", "complex64"):
            for mdt in (("bool", "int64", "float32", "float64") if tdt != "complex64" else ("bool", "float64")):
                rs = np.random.RandomState(k)
                X, W = (rs.rand(3) + (1j * rs.rand(3) if tdt == "complex64" else 0)).astype(tdt), (rs.rand(3) + (1j * rs.rand(3) if tdt == "complex64" else 0)).astype(tdt)
                m = (rs.rand(3) > 0.4).astype(mdt)
                st, val = C.call_impl(ns["f"], X, W, m, timeout=20)
                if st != "ok":
                    continue
                obs = [classify_value(x) for x in val]
                ol = "[" + "; ".join(("Some " + o) if o in ALL_DT else "None" for o in obs) + "]"
                cid = len(cases)
                cases.append(f"(CTr {cid}%nat {COQ_DT[tdt]} {COQ_DT[mdt]} {tr['prog']} {ol})")
                meta.append(("case", src, tdt, mdt, obs))
    return cases, meta


# ============================================================================= the check
HEADER = """From Coq Require Import String Bool List. Import ListNotations. Open Scope string_scope.
From TLV Require Import Model.Dtype Corr.C18."""

COQ_DT = {"bool": "B", "int64": "I64", "float32": "F32", "float64": "F64", "complex64": "C64", "complex128": "C128"}
NP_OF = {"B": np.bool_, "I64": np.int64, "F32": np.float32, "F64": np.float64, "C64": np.complex64, "C128": np.complex128}
PY_OF = {"WI": 3, "WF": 1.5, "WC": 1.5 + 2j}
ALL_DT = ["B", "I64", "F32", "F64", "C64", "C128", "WI", "WF", "WC"]
PROX_COQ = {"none": "PNone", "nonneg": "PNonneg", "soft": "PL1", "l1": "PL1", "l2": "PL2", "l2sq": "PL2sq", "smooth": "PSmooth",
            "simplex": "PSimplex", "softsparse": "PSoftSparse", "monotone": "PMonotone", "monotone_dec": "PMonotone",
            "unimodal": "PUnimodal", "hardsparse": "PHardSparse", "normsparse": "PNormSparse", "normalize": "PNormalize",
            "svt": "PSvt", "procrustes": "PProcrustes"}
MASK_DT = {"same": None, "bool": "bool", "int": "int64", "f64": "float64", "f32": "float32"}


def classify_value(v):
    """dtype class of the result of a NumPy / Python operation"""
    if isinstance(v, (np.ndarray, np.generic)):
        return COQ_DT.get(str(v.dtype))
    if isinstance(v, bool):
        return None
    if isinstance(v, int):
        return "WI"
    if isinstance(v, float):
        return "WF"
    if isinstance(v, complex):
        return "WC"
    return None


def operands(k):
    """representatives of a dtype class: (array, 0-d array, NumPy scalar) for strong classes, a Python scalar for weak ones"""
    if k in PY_OF:
        return [PY_OF[k]]
    t = NP_OF[k]
    return [np.ones(3, dtype=t), np.ones((), dtype=t), t(1)]


def _py_absorbs(x, y):
    """CPython's own scalar type handles the operation before NumPy is asked: complex.__mul__ accepts any `float`
    instance, and np.float64 subclasses float, so (1.5+2j) * np.float64(1) is a *Python* complex (no NumPy promotion
    is involved).  Such pairs are measured through the NumPy ufunc only."""
    return isinstance(x, complex) and not isinstance(x, np.generic) and isinstance(y, np.generic) and isinstance(y, float)


def measure_tables():
    """(kind, a, b|None, measured class or '?' when the representatives disagree) for the 81 + 81 + 9 entries.
    Every pair of representatives is measured through the Python operators AND the NumPy ufuncs."""
    import operator
    out = []
    for a in ALL_DT:
        for b in ALL_DT:
            for kind, fns in (("CTab", ((operator.mul, np.multiply), (operator.add, np.add))), ("CDiv", ((operator.truediv, np.true_divide),))):
                seen = set()
                for x in operands(a):
                    for y in operands(b):
                        for op, uf in fns:
                            strong = isinstance(x, (np.ndarray, np.generic)) or isinstance(y, (np.ndarray, np.generic))
                            forms = ([] if _py_absorbs(x, y) else [op]) + ([uf] if strong else [])
                            for fn in forms:
                                try:
                                    seen.add(classify_value(fn(x, y)))
                                except Exception as e:  # noqa
                                    seen.add("!" + type(e).__name__)
                out.append((kind, a, b, seen.pop() if len(seen) == 1 else "?" + repr(sorted(map(str, seen)))))
        seen = set()
        for x in operands(a):
            seen.add(classify_value(abs(x)))
        out.append(("CAbs", a, None, seen.pop() if len(seen) == 1 else "?" + repr(sorted(map(str, seen)))))
    return out


def cfg_lit(t):
    o = t["opts"]
    b = C.boolc
    return ("(mkcfg {fam} {init} {mask} {errors} {normalize} {linesearch} {sparsity} {l2reg} {prox} {warm} {fallback} {alt})"
            .format(fam=t["fam"], init=o.get("init", "IRandom"), mask=b(t["mask"] is not None), errors=b(o.get("errors", False)),
                    normalize=b(o.get("normalize", False)), linesearch=b(o.get("linesearch", False)), sparsity=b(o.get("sparsity", False)),
                    l2reg=b(o.get("l2reg", False)), prox=PROX_COQ[o.get("prox", "none")], warm=b(o.get("warm", False)),
                    fallback=b(o.get("fallback", False)), alt=b(o.get("alg") == "active_set" or o.get("nonneg", False) or o.get("alt", False) or o.get("nn", False))))


def model_slot(t, raw):
    """name of the skeleton output an observed array belongs to"""
    if raw in t["slotmap"]:
        return t["slotmap"][raw]
    if raw == "#1" and t["opts"].get("errors"):
        return "errors"
    if raw == "#1" and t["opts"].get("sparsity"):
        return "sparse"
    if "." in raw:
        return raw.rsplit(".", 1)[1]
    if raw.startswith("#"):
        return "out" + raw[1:]
    return "out0"


def real_dtype(dt):
    return {"complex64": "float32", "complex128": "float64"}.get(dt, dt)


def expected_dtype(data_dt, mask_dt):
    """the floating dtype of the DATA.  A mask is an indicator of observed entries, not data: whatever its dtype (bool, int64,
    float of another precision) the result has the data's dtype (all masked entry points cast the mask into the data's
    context - robust_pca always did, parafac / non_negative_parafac / tucker / svd_interface since 45ef7df)."""
    return [data_dt]


def dtype_predicate(t, data_dt, mask_dt, obs):
    """C18 on the implementation's output: every array has the floating dtype of the input data.
    obs: list of (raw slot, dtype string).  Returns list of (slot, observed, expected) failures."""
    exp = expected_dtype(data_dt, mask_dt)
    bad = []
    for slot, dt in obs:
        if slot in t["exempt"]:
            # the documented exceptions are exact, not a free pass: leverage-score distributions are ALWAYS float64, index / count outputs are integers
            if "float64" in t["exempt"][slot]:
                if dt != "float64":
                    bad.append((slot, dt, "float64 (documented exception)"))
            elif np.dtype(dt).kind not in "iu":
                bad.append((slot, dt, "an integer dtype (documented exception: " + t["exempt"][slot] + ")"))
            continue
        if dt in exp:
            continue
        if slot in t["real"] and dt in [real_dtype(e) for e in exp]:
            continue
        bad.append((slot, dt, "/".join(exp)))
    return bad


def run_config(t, data_dt, seed=0, verbose_capture=False):
    """executes one configuration; returns (status, observations [(raw slot, dtype)], info)"""
    import io, contextlib
    d = D(data_dt, seed)
    C.reset_backends()
    np.random.seed(977 + seed)     # a few library functions draw from the global NumPy generator: the same call sees the same draws in every process / call order
    thunk = t["build"](d)
    info = {}
    defaults = thunk.__defaults__ or ()
    names = thunk.__code__.co_varnames[:len(defaults)]
    info["arg_dtypes"] = {n: sorted({str(a.dtype) for _, a in arrays_of(v)}) for n, v in zip(names, defaults)}
    if t["fam"] == "FActiveSet" and "x" in names:
        a = dict(zip(names, defaults))
        UtU = a["UtU"] if "UtU" in a else a["a"][1]
        x = np.asarray(a["x"]).reshape(-1)
        ps = x > 0
        blk = np.asarray(UtU, dtype=np.float64)[ps, :][:, ps]
        info["x_given"] = True
        info["passive_block_singular"] = bool(blk.size and np.linalg.matrix_rank(blk) < blk.shape[0])
    buf = io.StringIO()
    with contextlib.redirect_stdout(buf):
        st, v = C.call_impl(thunk, timeout=60)
    C.reset_backends()
    if st != "ok":
        if v == "timeout":
            return "timeout", [], dict(info, error=v)
        return st, [], dict(info, error=v)
    obs = sorted({(s, str(a.dtype)) for s, a in arrays_of(v)})
    info["n_arrays"] = sum(1 for _ in arrays_of(v))
    return "ok", obs, info


def linesearch_probe(dt):
    """non-vacuity of the line-search configuration: count the accepted jumps (parafac prints them when verbose)"""
    import io, contextlib
    from tensorly import decomposition as dec
    d = D(dt)
    X = d.collinear()
    buf = io.StringIO()
    with contextlib.redirect_stdout(buf):
        st, v = C.call_impl(lambda: dec.parafac(X, 3, n_iter_max=30, tol=0, linesearch=True, init="random", random_state=3, verbose=1, return_errors=True), timeout=120)
    if st != "ok":
        return None if v == "timeout" else -1
    return buf.getvalue().count("Accepted line search jump")


# ---- known-finding classifiers (predicates on the failing input)
def _double_of(dt):
    return {"float32": "float64", "complex64": "complex128"}.get(dt)


def clf_mask(f):
    """a caller-supplied boolean / integer mask together with single-precision data, every offending array being the
    double-precision type of the same kind (or its real type)"""
    i = f["inputs"]
    m = i.get("mask_dtype")
    dbl = _double_of(i.get("dtype"))
    return m is not None and np.dtype(m).kind in "biu" and dbl is not None and bool(i.get("failures")) \
        and all(o in (dbl, real_dtype(dbl)) for _, o, _ in i["failures"])


def clf_active_set(f):
    """a warm start whose passive block (rows/columns of UtU where x > 0) is singular, single-precision problem data"""
    i = f["inputs"]
    dbl = _double_of(i.get("dtype"))
    return bool(i.get("x_given")) and bool(i.get("passive_block_singular")) and dbl is not None and bool(i.get("failures")) \
        and all(o == dbl for _, o, _ in i["failures"])


def clf_mask_multiplier(f):
    """cp_to_tensor / khatri_rao / cp_lstsq_grad with a caller-supplied mask whose dtype the data's dtype does not absorb (NumPy
    promotion of data and mask differs from the data's dtype: an int64 or float64 mask with float32 / complex64 data), every
    offending array having exactly that promoted dtype (Theorem C18_mask_multiplier_is_promotion)"""
    i = f["inputs"]
    m, dt = i.get("mask_dtype"), i.get("dtype")
    if m is None or dt is None or not i.get("failures") or not any(k in str(i.get("config", "")) for k in ("cp_to_tensor_mask", "khatri_rao_mask", "cp_lstsq_grad_mask")):
        return False
    prom = str(np.result_type(np.dtype(dt), np.dtype(m)))
    return prom != dt and all(o == prom for _, o, _ in i["failures"])


# no known finding is open: the classes repaired by c906acd, 45ef7df and ba7a532 (plain mask multipliers) are closed; the predicates are
# kept for the replay messages and in case a class has to be registered again
CLASSIFIERS = {}


def _install_known_loader():
    """known_findings.json is assembled by the coordinator from known_findings.d/*.json; read this property's own snippet
    as well so that the check classifies identically before and after that merge (local helper, common.py untouched)"""
    import json, os
    orig = C.load_known
    if getattr(orig, "_c18", False):
        return

    def load(prop):
        known = list(orig(prop))
        p = os.path.join(C.VERIF, "known_findings.d", f"{prop}.json")
        if prop == "C18" and os.path.exists(p):
            ids = {k.get("id") for k in known}
            for k in json.load(open(p)).get("findings", []):
                if k.get("property") == prop and k.get("id") not in ids:
                    known.append(k)
        return known
    load._c18 = True
    C.load_known = load


# rows written for real data that the entry point also supports with complex data (measured once by running every real-only row with
# complex64 / complex128 input; non-negative methods and order-based constraints - simplex, monotone, unimodal, sparsity by sorting - are
# meaningless for complex data and stay real-only).  They carry the 'complex stays complex' clause across the table; a raise with complex
# data in one of THESE rows is counted as skipped (support for complex input is not what C18 states), never a verdict.
COMPLEX_ALSO = {
    "parafac_sparsity", "parafac_mask_same_random", "parafac_mask_same_svd", "parafac_mask_same_noerr", "parafac_mask_bool_random",
    "parafac_mask_bool_svd", "parafac_mask_bool_noerr", "parafac_mask_int_random", "parafac_mask_int_svd", "parafac_mask_int_noerr",
    "parafac_mask_f64_random", "parafac_mask_f64_svd", "parafac_mask_f64_noerr", "randomised_parafac", "randomised_parafac_svd", "sample_khatri_rao",
    "constrained_l1", "constrained_l2", "constrained_l2sq", "constrained_normalize", "constrained_smooth", "tucker_mask_same_svd",
    "tucker_mask_same_random", "tucker_mask_bool_svd", "tucker_mask_bool_random", "tucker_mask_int_svd", "tucker_mask_int_random",
    "tucker_mask_f64_svd", "tucker_mask_f64_random", "tensor_ring_als", "tt_cross", "cmtf", "robust_pca", "robust_pca_mask_same",
    "robust_pca_mask_bool", "robust_pca_mask_int", "robust_pca_mask_f64", "power_iteration", "symmetric_power_iteration", "prox_soft",
    "prox_soft_vec", "prox_l1", "prox_l1_vec", "prox_l2", "prox_l2_vec", "prox_l2sq", "prox_l2sq_vec", "prox_smooth", "prox_smooth_vec",
    "prox_normalize", "prox_normalize_vec", "prox_svt", "prox_procrustes", "fista_unconstrained", "admm_l1", "admm_l2", "admm_l2sq", "admm_normalize",
    "admm_smooth", "admm_unconstrained", "cp_regressor", "tucker_regressor", "cp_plsr", "cp_permute_factors", "cp_lstsq_grad", "higher_order_moment",
    "random_cp", "random_cp_orth_norm", "random_cp_full", "random_tucker", "random_tt", "random_tr", "random_tt_matrix", "random_parafac2",
    "random_tensor", "leverage", "compress", "svd_mask_plain_same", "svd_mask_plain_bool", "partial_tucker_mask_bool", "partial_tucker_mask_int",
    "parafac_mask_bool_linesearch", "class_CP_mask_bool", "class_ConstrainedCP", "class_CPPower", "tensor_ring_als_sampled_uniform",
    "tensor_ring_als_ls_solve", "parafac2_conversions", "parafac2_normalise_no_weights", "higher_order_moment_einsum", "cp_regressor_matrix_y",
    "tucker_regressor_reg", "cp_plsr_vector_y", "reflective_correlation", "backend_randn_gamma",
    "class_ConstrainedCP_refit", "class_CPPower_refit", "cp_regressor_refit", "tucker_regressor_refit", "cp_plsr_refit",
    # (round 8) parafac2 accepts complex slices (unitary projections, 0c112da): its factors / projections AS RETURNED are not certified exact at source level
    # (they pass through a nested closure and the line-search object's method), so 'complex stays complex' is carried for them by executions with complex data
    "parafac2", "parafac2_svd_norm", "parafac2_linesearch", "parafac2_svd_rank_gt_dim", "class_Parafac2", "class_Parafac2_refit", "svd_decompress_parafac2",
    "class_RandomizedCP_refit", "class_SymmetricCP_refit", "class_TensorRingALS_refit", "class_TensorTrain_OI_refit"}


def dtypes_for(t, tier):
    dts = list(t["dts"])
    if t.get("lenient"):
        return dts
    if "complex128" in dts:
        dts.append("complex64")
    elif t["name"] in COMPLEX_ALSO:
        dts += ["complex128", "complex64"]
    return dts


def run(chk):
    rng = random.Random(chk.seed)
    from harness.props import C18_hist as H
    # history independence (a): fresh processes run the whole table with the data dtypes in another order (float64 first, complex128 first); started now,
    # they run beside this process and are judged after its own (float32-first) pass
    hist_passes = H.start_passes(chk.tier, chk.seed) if os.environ.get("VERIF_C18_NO_HISTORY") != "1" else {}
    set_exact_callees(load_extract_baseline("exact_callees"), load_extract_baseline("exact_callees_default"), load_extract_baseline("callee_flags"))
    set_int_positions(load_extract_baseline("int_positions"))
    chk.build_proofs()
    C.reset_backends()
    cases, meta = [], []
    # ---- 1. the promotion tables, measured now
    tab = measure_tables()
    for kind, a, b, r in tab:
        cid = len(cases)
        rl = r if r in ALL_DT else None
        if rl is None:
            # NumPy returned something outside the model's domain: the table cannot be right
            chk.disagreement("corr:C18 promotion table (Model/Dtype.v vs installed NumPy)", {"kind": kind, "a": a, "b": b, "measured": r})
            continue
        cases.append(f"({kind} {cid}%nat {a} {b} {rl})" if b is not None else f"({kind} {cid}%nat {a} {rl})")
        meta.append(("table", kind, a, b, r))
        chk.count(key=("table", kind, a, b), nontrivial=True)
    chk.hist("stream", "promotion-table entries")
    # ---- 2. entry points
    T = table(chk.tier)
    # history independence (b): fingerprint of everything in the loaded library that can carry a value from one call to the next, before any call
    H.import_all()
    state_before = H.snapshot_state()
    parent_obs = {}
    # ---- 2a. corpus of past findings / disagreements (minimised regression inputs) runs first
    import glob, json
    byname = {t["name"]: t for t in T}
    for fn in sorted(glob.glob(os.path.join(C.VERIF, "corpus", "C18", "*.json"))):
        if os.path.basename(fn).startswith("_"):
            continue
        item = json.load(open(fn))
        if "table" in item:
            kind, a, b = item["table"]
            got = [r for k, x, y, r in tab if (k, x, y) == (kind, a, b)]
            chk.count(key=("corpus", os.path.basename(fn)), nontrivial=True); chk.hist("stream", "corpus")
            if not got or got[0] not in ALL_DT:
                chk.disagreement("corr:C18 promotion table (corpus " + os.path.basename(fn) + ")", {"table": item["table"], "measured": got})
            continue
        t = byname.get(item["config"])
        if t is None:
            chk.broken.append({"what": "C18 corpus entry names an unknown configuration", "detail": fn})
            continue
        st, obs, info = run_config(t, item["dtype"], item.get("seed", 0))
        chk.count(key=("corpus", os.path.basename(fn)), nontrivial=True); chk.hist("stream", "corpus")
        if st == "timeout":
            chk.hist("skipped", "per-case timeout"); continue
        if st != "ok" and any(w in str(info.get("error")) for w in H.RESOURCE_WORDS):
            chk.hist("skipped", "per-case resource exhaustion (memory / processes)"); continue
        mask_dt = None if t["mask"] is None else (MASK_DT[t["mask"]] or item["dtype"])
        inputs = {"config": t["name"], "dtype": item["dtype"], "seed": item.get("seed", 0), "mask_dtype": mask_dt, "corpus": os.path.basename(fn)}
        if st != "ok":
            chk.finding(t["ep"], inputs, f"corpus configuration raised: {info.get('error')}", "C18_runs", observed=info.get("error"))
            continue
        bad = dtype_predicate(t, item["dtype"], mask_dt, obs)
        if bad:
            inputs["failures"] = bad
            chk.finding(t["ep"], inputs, "corpus regression: returned arrays leave the numeric context of the input: " +
                        ", ".join(f"{s_ or 'result'}: {o} (expected {e})" for s_, o, e in bad), "C18_dtype_of_every_returned_array",
                        observed={s_: o for s_, o, _ in bad}, expected=expected_dtype(item["dtype"], mask_dt))
    seeds = [0] if chk.tier == "quick" else [0, 1 + rng.randrange(1000), 1 + rng.randrange(1000)]
    n_rand = 24 if chk.tier == "quick" else 150
    T = T + random_rows(random.Random(f"C18-rows-{chk.seed}"), n_rand)   # derived from the check seed; replayable by (seed, n)
    n_skipped = 0
    for t in T:
        for data_dt in dtypes_for(t, chk.tier):
            for seed in (seeds[:1] if t.get("lenient") else seeds):
                st, obs, info = run_config(t, data_dt, seed)
                mask_dt = None if t["mask"] is None else (MASK_DT[t["mask"]] or data_dt)
                key = (t["name"], data_dt, t["mask"])
                chk.count(key=key, nontrivial=True)
                chk.hist("family", t["fam"]); chk.hist("data dtype", data_dt); chk.hist("mask", str(t["mask"]))
                chk.hist("outcome", st)
                if seed == 0:
                    parent_obs[(t["name"], data_dt)] = (st, obs)
                inputs = {"config": t["name"], "dtype": data_dt, "seed": seed, "mask_dtype": mask_dt, "arg_dtypes": info.get("arg_dtypes")}
                if t.get("lenient"):
                    inputs["random_rows"] = [chk.seed, n_rand]
                for k in ("x_given", "passive_block_singular"):
                    if k in info:
                        inputs[k] = info[k]
                if st == "timeout":
                    # a loaded machine is not a property violation: counted and reported as skipped
                    chk.hist("skipped", "per-case timeout")
                    n_skipped += 1
                    continue
                if st != "ok" and any(w in str(info.get("error")) for w in H.RESOURCE_WORDS):
                    # the machine ran out of memory / processes during the call: counted and reported as skipped, not compared by the history passes
                    chk.hist("skipped", "per-case resource exhaustion (memory / processes)")
                    n_skipped += 1
                    if seed == 0:
                        parent_obs[(t["name"], data_dt)] = ("resources", [])
                    continue
                if st != "ok" and data_dt not in t["dts"] and "complex128" not in t["dts"]:
                    # a real-data row extended to complex input: support for complex data is not what C18 states
                    chk.hist("skipped", "complex input rejected by a row written for real data: " + t["name"])
                    continue
                if st != "ok" and t.get("lenient"):
                    # a random option combination the library rejects (for reasons unrelated to dtypes): counted, not a verdict
                    chk.hist("skipped", "random option combination rejected: " + str(info.get("error"))[:60])
                    continue
                if st != "ok":
                    # every configuration of the table is a supported call: a raise is reported, never dropped
                    chk.finding(t["ep"], inputs, f"configuration raised: {info.get('error')}", "C18_runs", observed=info.get("error"))
                    continue
                if len(chk.cov["samples"]) < 4 and (t["mask"] == "bool" or t["name"] in ("prox_simplex", "tucker")) and data_dt == "float32":
                    chk.sample({"config": t["name"], "entry_point": t["ep"], "data_dtype": data_dt, "mask_dtype": mask_dt, "observed": obs})
                bad = dtype_predicate(t, data_dt, mask_dt, obs)
                if bad:
                    inputs["failures"] = bad
                    chk.finding(t["ep"], inputs, "returned arrays leave the numeric context of the input: " +
                                ", ".join(f"{s or 'result'}: {o} (expected {e})" for s, o, e in bad), "C18_dtype_of_every_returned_array",
                                observed={s: o for s, o, _ in bad}, expected=expected_dtype(data_dt, mask_dt))
                if t["fam"]:
                    cid = len(cases)
                    ol = "[" + "; ".join(f'("{model_slot(t, s)}", {("Some " + COQ_DT[dt]) if dt in COQ_DT else "None"})' for s, dt in obs) + "]"
                    cases.append(f"(CEp {cid}%nat {cfg_lit(t)} {COQ_DT[data_dt]} {COQ_DT[mask_dt or data_dt]} {int(t['n'])}%nat {ol})")
                    meta.append(("ep", t, data_dt, mask_dt, seed, obs, bool(bad)))
    # ---- 2c. history independence: (b) the persistent state of the library after ~900 calls in four dtypes must be what it was before them
    for dif in H.diff_state(state_before, H.snapshot_state()):
        chk.broken.append({"what": "C18 history independence: persistent state of the library changed during the calls of the configuration table (a module-level "
                                   "container / function attribute / cache / closure cell / class-level container written by a call can carry a value - and its dtype - "
                                   "into a later call): " + dif["object"], "detail": dif})
    chk.notes.append(f"persistent-state snapshot: {len(state_before)} stateful objects of the loaded library fingerprinted before and after the table pass")
    # (a) the passes run by fresh processes in other dtype orders
    n_hist = H.judge_passes(chk, hist_passes, parent_obs, T, chk.tier, chk.seed, n_rand) if hist_passes else 0
    # (c) static: no function of the library writes state that outlives the call (outside the whitelist of state that has been looked at)
    open_hits, all_hits, n_scanned, stale = H.scan_persistent_state(C.REPO)
    for h in open_hits:
        chk.broken.append({"what": "C18 source-level tie: " + h["function"] + " keeps state that outlives the call (" + h["kind"] + " " + h["name"] + ", line " + str(h["line"]) +
                                   "): a value cached / stored there can reach a later call with data of another dtype; the dtype programs of Model/Dtype.v have no "
                                   "persistent variables, so the certification of this function and of its callers does not cover call sequences", "detail": h})
    chk.notes.append(f"persistent-state scan of the source: {n_scanned} functions, {len(all_hits)} state sites, {len(open_hits)} outside the whitelist of "
                     f"{H.WHITELISTED_SITES} sites under {len(H.SCAN_WHITELIST)} keys, each with its count and justification "
                     f"(backend selection / dispatch, import-time registration, einsum plugins' contraction-path caches); stale whitelist entries: {stale[:4]}")
    chk.hist("stream", "persistent-state scan")
    chk.cov["persistent_state_whitelist"] = [{"function": k[0], "kind": k[1], "name": k[2], "sites": n_, "why": why} for k, (n_, why) in sorted(H.SCAN_WHITELIST.items())]
    # (d) static, instance state: no fit method of an estimator class reads a fitted attribute before this call has overwritten it (hist_free with G = the
    # fitted attributes of the object, session = the same object fitted again); every estimator class found in the source has a refit row in the table
    inst_hits, est_classes = H.scan_instance_state(C.REPO)
    grp = {}
    for h in inst_hits:
        grp.setdefault((h["class"], h["attribute"]), []).append(h)
    for (cls_, attr_), hs_ in sorted(grp.items()):
        h = min(hs_, key=lambda x: (len(x["via"]), x["line"]))       # the read itself (the shortest chain of self.method() calls); reported once per attribute
        chk.broken.append({"what": "C18 source-level tie (instance state): " + cls_ + "." + h["method"] + " reads self." + attr_ + " (line " + str(h["line"]) +
                                   (", via " + h["via"] if h["via"] else "") + ") before this call has overwritten it: what an EARLIER fit of the same object left there - "
                                   "with the dtype of that fit's data - can reach the results of this fit (fit methods affected: " +
                                   ", ".join(sorted({x["method"] for x in hs_})) + "); the refit rows cover only the option sets of the table",
                           "detail": {"reads": hs_[:6]}})
    tnames = {t["name"] for t in T}
    for c_ in est_classes:
        cn = c_["class"].rsplit(".", 1)[1]
        chk.count(key=("estimator-class", c_["class"]), nontrivial=True); chk.hist("stream", "estimator classes (instance-state scan)")
        if cn in REFIT_ABSTRACT:
            continue
        if REFIT_ROWS.get(cn) not in tnames:
            chk.broken.append({"what": "C18 instance state: the estimator class " + c_["class"] + " (fit methods " + str(c_["fit_methods"]) + ") has no refit row in the "
                                       "configuration table (the same object fitted twice, data of the other precision first): add one and list it in REFIT_ROWS",
                               "detail": c_})
    for e_ in instance_canaries():
        chk.broken.append({"what": "C18 history-independence instrument self-test: " + e_, "detail": e_})
    chk.notes.append(f"instance-state scan of the source: {len(est_classes)} estimator classes, {sum(len(c_['fitted_attributes']) for c_ in est_classes)} fitted attributes, "
                     f"{len(inst_hits)} reads of a fitted attribute before it is overwritten in a fit method; every class has a refit row ({len(set(REFIT_ROWS.values()))} rows)")
    # ---- 3. non-vacuity of the line-search stream
    acc = {dt: linesearch_probe(dt) for dt in ("float32", "float64", "complex128")}
    chk.notes.append(f"parafac(linesearch=True) on near-collinear data, 30 sweeps: accepted line-search jumps per dtype = {acc}")
    if any(v is None for v in acc.values()):
        chk.hist("skipped", "line-search probe timeout")
    elif min(acc.values()) <= 0:
        chk.broken.append({"what": "C18 harness: the line-search configuration no longer accepts any jump (stream is vacuous)", "detail": acc})
    failing, n_eval, broken = C.run_case_shards("C18", HEADER, "case", cases, shard=300)
    chk.checker_cmds.append("coqc (vm_compute) on generated build/cases/C18/*.v: Corr.C18.failing")
    chk.cov["traces_validated_against_impl"] = n_eval
    chk.cov["exhaustive"] = False
    chk.cov["rule"] = ("(a) all 81 promotion + 81 true-division + 9 abs table entries over {bool,int64,f32,f64,c64,c128,weak int/float/complex}, each measured on "
                       "arrays, 0-d arrays and NumPy scalars (strong) / Python scalars (weak) with Python operators and NumPy ufuncs (exhaustive for the table); "
                       f"(b) the corpus of past findings, then every configuration of the {len(T) - n_rand}-row entry-point table x data dtype in {{float32,float64}} "
                       "(+complex64/complex128 where the entry point supports complex data) x mask dtype in {none, same, bool, int64, float64} where a mask is accepted "
                       "(quick: one data seed; thorough: three); (c) " + str(n_rand) + " random option combinations (init x mask dtype x normalise x line search x sparsity x l2 x "
                       "orthogonalise x errors x constraint kind x order/shape/rank x dtype) of the entry points with transcribed skeletons, generated from the check seed; "
                       "every array and NumPy scalar of the returned structure is inspected; distinct key = (configuration, data dtype, mask kind); all are non-trivial; "
                       "(d) every library function with an array-valued return (about 190: decomposition/, tenalg/, solvers/, regression/, metrics/, random/, *_tensor.py, backend/core.py, "
                       "contrib/decomposition) is translated from its source (ast) into a dtype program and checked inside Coq for 4 contexts x 6 mask dtypes (level 2) or 4 contexts (level 1); "
                       "(e) translator self-test: 20 (quick) / 150 (thorough) random straight-line functions over 50 statement templates, each executed with {float32,float64} data x "
                       "{bool,int64,float32,float64} masks and compared exactly with the dtypes its translation evaluates to inside Coq; "
                       "(f) complex64 / complex128 input for every row whose entry point accepts complex data (rows written for complex data + the COMPLEX_ALSO rows); "
                       "(g) exact-dtype tie: for every function with outputs recorded as exactly-the-data's-dtype in the baseline, the regenerated program is re-checked inside Coq "
                       "(ext_exact_any / ext_exact_same) and cross-checked against this run's complex-data executions of the certified entry points; "
                       "(h) the plain mask multipliers with every mask kind, the skeleton variant (mask as passed / cast) selected from the source of the checked tree; "
                       "(i) history independence: every row (random rows included) again in fresh processes with the data dtypes in another order (float64 first, complex128 first; "
                       "thorough: complex64 first) - all rows in one process - and compared call by call with this process's float32-first pass; fingerprint of the library's persistent "
                       "state before / after the table pass; ast scan of all functions of the library for state that outlives a call; hist_free (Model/DtypeHist.v) inside Coq on every "
                       "extracted program that refers to persistent state and on built-in canaries; 19 rows that fit the same estimator object twice with data of different precision (one for every estimator class found in the source) and a must-define analysis of every fit method (no fitted attribute read before it is overwritten)")
    # ---- 3b. self-test of the ast translator against real executions (random straight-line functions)
    tcases, tmeta = translator_selftest_cases(random.Random(f"C18-tr-{chk.seed}"), 20 if chk.tier == "quick" else 150)
    tfailing, t_eval, tbroken = C.run_case_shards("C18", HEADER, "case", tcases, shard=300, tag="trself")
    n_eval += t_eval
    tcm = [m for m in tmeta if m[0] == "case"]
    for b in tbroken:
        chk.broken.append({"what": "correspondence corr:C18 (translator self-test) shard not evaluated", "detail": b})
    for m in tcm:
        chk.count(key=("translator-selftest", m[1], m[2], m[3]), nontrivial=True); chk.hist("stream", "translator self-test")
    seen_src = set()
    for i in sorted(tfailing):
        _, src, tdt, mdt, obs = tcm[i]
        if src in seen_src:
            continue
        seen_src.add(src)
        chk.disagreement("corr:C18 translator self-test: the dtype program translated from a random straight-line function disagrees with its real execution",
                         {"source": src, "data_dtype": tdt, "mask_dtype": mdt, "observed": obs})
    n_untr = sum(1 for m in tmeta if m[0] == "untranslatable")
    if n_untr:
        chk.notes.append(f"translator self-test: {n_untr} generated functions were not translatable")
    # ---- 4. source-level tie: dtype programs regenerated from the Python source of this tree, checked inside Coq
    base = load_extract_baseline()
    xcases, xmeta, xerrors, ex = extract_cases(C.REPO, lambda q: [base[q]] if base.get(q, 0) >= 1 else ([1] if q not in base else []))
    xfailing, x_eval, xbroken = C.run_case_shards("C18", HEADER, "case", xcases, shard=40, tag="ext")
    chk.checker_cmds.append("coqc (vm_compute) on generated build/cases/C18/ext_*/*.v: Corr.C18.failing on CExt cases (ext_ok_any / ext_ok_same)")
    n_eval += x_eval
    chk.cov["traces_validated_against_impl"] = n_eval
    for b in xbroken:
        chk.broken.append({"what": "correspondence corr:C18 (extracted programs) shard not evaluated", "detail": b})
    # the index-valued tuple positions of library callees assumed by the translation (baseline) must be guaranteed by this run's translations
    ip_now = int_positions_table(ex)
    for name, (L_, pos_) in sorted(load_extract_baseline("int_positions").items()):
        got = ip_now.get(name)
        if got is None or got[0] != L_ or not set(pos_) <= set(got[1]):
            chk.broken.append({"what": "C18 source-level tie: " + name + " is assumed by its callers to return index / count values at the positions " + str(pos_) +
                                       " of its " + str(L_) + "-tuple, which this tree's source no longer guarantees; regenerate corpus/C18/_extracted_levels.json "
                                       "(write_extract_baseline)", "detail": {"assumed": [L_, pos_], "now": got}})
    n_new, n_cert = 0, 0
    for i, (q, lvl, r) in enumerate(xmeta):
        chk.count(key=("extracted", q), nontrivial=True)
        chk.hist("stream", "extracted function")
        if q not in base:
            n_new += 1
            chk.notes.append(f"function {q} is not in the extraction baseline: " + ("certified at level 1" if i not in xfailing else "NOT certified (information only)"))
            continue
        if i in xfailing:
            chk.disagreement("corr:C18 dtype program extracted from the source of " + q + " no longer passes the program check (Model/Dtype.v prog_ok2) at level "
                             + str(lvl) + " (2 = every mask dtype, 1 = mask of the data's dtype)",
                             {"function": q, "level": lvl, "leaves": r["leaves"], "statements": [r["n_init"], r["n_loop"]],
                              "offending_statements_for_float32": extract_diagnose(C.REPO, q, "B" if lvl == 2 else "F32")})
        else:
            n_cert += 1
    # ---- 4a'. history independence at source level (Model/DtypeHist.v): a function whose program refers to PERSISTENT state (module-level containers /
    # singletons of its module, names declared global / nonlocal) must pass hist_free for G = the variables standing for that state - no read of a
    # persistent variable before this call has overwritten it, the value side of a cast into a context excepted; every other program has G = [] and
    # is history independent by C18_stateless_history_independent.  Built-in canaries keep the instrument honest: a dtype-oblivious cache must be
    # translated with a persistent variable, REJECTED by hist_free and lose its precision-class certificate; the same cache read through a cast
    # into the context of the data must pass.
    hcases, hmeta = [], []
    for q in sorted(ex):
        r = ex[q]
        if "error" in r or not r.get("persist"):
            continue
        hcases.append(f"(CHist {len(hcases)}%nat {C.nat_list(sorted(r['persist'].values()))} {r['prog']} true)")
        hmeta.append(("fn", q, r["persist"]))
    can, can_err = history_canaries()
    for name, r, expect in can:
        hcases.append(f"(CHist {len(hcases)}%nat {C.nat_list(sorted(r['persist'].values()))} {r['prog']} {C.boolc(expect)})")
        hmeta.append(("canary-hist", name, expect))
        if not expect:
            hcases.append(f"(CExt {len(hcases)}%nat 2%nat {r['prog']})")
            hmeta.append(("canary-ext-must-fail", name, None))
    for e_ in can_err:
        chk.broken.append({"what": "C18 history-independence instrument self-test: " + e_, "detail": e_})
    hfailing, h_eval, hbroken = C.run_case_shards("C18", HEADER, "case", hcases, shard=40, tag="hist")
    chk.checker_cmds.append("coqc (vm_compute) on generated build/cases/C18/hist_*/*.v: Corr.C18.failing on CHist cases (Model.DtypeHist.hist_free)")
    n_eval += h_eval
    chk.cov["traces_validated_against_impl"] = n_eval
    for b in hbroken:
        chk.broken.append({"what": "correspondence corr:C18 (history freedom of extracted programs) shard not evaluated", "detail": b})
    for i, m in enumerate(hmeta):
        chk.count(key=("history-free", m[0], m[1]), nontrivial=True); chk.hist("stream", "history freedom of extracted programs / canaries")
        if m[0] == "fn" and i in hfailing:
            chk.disagreement("corr:C18 history independence: the dtype program extracted from the source of " + m[1] + " reads persistent state (" +
                             ", ".join(sorted(m[2])) + ") before overwriting it (Model/DtypeHist.v hist_free = false): what an earlier call left there - with the "
                             "dtype of THAT call's data - can reach the results of this call", {"function": m[1], "persistent_names": sorted(m[2])})
        elif m[0] == "canary-hist" and i in hfailing:
            chk.broken.append({"what": "C18 history-independence instrument self-test: canary " + m[1] + " was expected to " + ("pass" if m[2] else "be rejected by") +
                                       " hist_free", "detail": m[1]})
        elif m[0] == "canary-ext-must-fail" and i not in hfailing:
            chk.broken.append({"what": "C18 history-independence instrument self-test: the program of the dtype-oblivious cache canary " + m[1] +
                                       " still passes the precision-class check", "detail": m[1]})
    n_pers = sum(1 for m in hmeta if m[0] == "fn")
    chk.notes.append(f"history freedom at source level: {n_pers} of {len(ex)} extracted programs refer to persistent state (checked by hist_free inside Coq), the others have no "
                     f"persistent variable (history independent by C18_stateless_history_independent); {len(can)} canaries")
    # ---- 4b. 'complex stays complex' at source level: the outputs recorded as EXACT in the baseline must still be certified exact
    xbase = load_extract_baseline("exact")
    ecases, emeta = [], []
    n_shape = 0
    for q in sorted(ex):
        r = ex[q]
        b = xbase.get(q)
        if "error" in r or not b or not b["outs"] or base.get(q, 0) < 1 or ".metrics." in q:
            continue          # (metrics are real-valued by definition: a metric turning real for complex input is not a loss of context)
        if b["n_out"] != r["n_out"]:
            n_shape += 1      # the function returns a different number of arrays than at baseline: positions are not comparable
            chk.notes.append(f"function {q} now has {r['n_out']} array outputs (baseline {b['n_out']}): exact-dtype positions not judged")
            if q.rsplit(".", 1)[1] in EXACT_CALLEES:
                chk.broken.append({"what": "C18 source-level exact-dtype tie: " + q + " is assumed to return exact results by its callers but its outputs changed shape; "
                                           "regenerate corpus/C18/_extracted_levels.json (write_extract_baseline)", "detail": [b["n_out"], r["n_out"]]})
            continue
        outs = "[" + "; ".join(f"{k}%nat" for k in b["outs"]) + "]"
        ecases.append(f"(CExtX {len(ecases)}%nat {base[q]}%nat {r['prog']} {outs})")
        emeta.append((q, base[q], b["outs"], r))
    efailing, e_eval, ebroken = C.run_case_shards("C18", HEADER, "case", ecases, shard=40, tag="extx")
    chk.checker_cmds.append("coqc (vm_compute) on generated build/cases/C18/extx_*/*.v: Corr.C18.failing on CExtX cases (ext_exact_any / ext_exact_same)")
    n_eval += e_eval
    chk.cov["traces_validated_against_impl"] = n_eval
    for b in ebroken:
        chk.broken.append({"what": "correspondence corr:C18 (extracted programs, exact dtype) shard not evaluated", "detail": b})
    for i, (q, lvl, outs, r) in enumerate(emeta):
        chk.count(key=("extracted-exact", q), nontrivial=True)
        chk.hist("stream", "extracted function, exact outputs")
        if i in efailing:
            chk.disagreement("corr:C18 dtype program extracted from the source of " + q + ": an output that was certified to have EXACTLY the data's dtype "
                             "(complex stays complex; Model/Dtype.v all_exact2) no longer is, at level " + str(lvl),
                             {"function": q, "level": lvl, "exact_output_positions": outs, "leaves": r["leaves"], "statements": [r["n_init"], r["n_loop"]]})
    chk.notes.append(f"source-level exact-dtype tie: {len(emeta)} functions with {sum(len(m[2]) for m in emeta)} outputs certified to have exactly the data's dtype "
                     f"in all four contexts; {n_shape} not judged (number of outputs changed)")
    # ---- 4b''. the same for the translations with every boolean / string / None-valued option at its default ("complex stays complex with default
    # options"): only the functions for which this adds something to the all-paths certification (decompositions whose non-default options make
    # outputs real-valued by design: non_negative=True, normalisation, returned errors ...)
    xdbase = load_extract_baseline("exact_default")
    exd = extract_all(C.REPO, defaults_mode=True)
    dcases, dmeta = [], []
    for q in sorted(exd):
        r, b = exd[q], xdbase.get(q)
        if "error" in r or not b or not b["outs"] or base.get(base_qual(q), 0) < 1 or ".metrics." in q or b == xbase.get(q):
            continue
        if b["n_out"] != r["n_out"]:
            chk.notes.append(f"function {q} (default options) now has {r['n_out']} array outputs (baseline {b['n_out']}): exact-dtype positions not judged")
            if q.rsplit(".", 1)[1] in EXACT_CALLEES_DEFAULT:
                chk.broken.append({"what": "C18 source-level exact-dtype tie (default options): " + q + " is assumed to return exact results by its callers but its outputs "
                                           "changed shape; regenerate corpus/C18/_extracted_levels.json (write_extract_baseline)", "detail": [b["n_out"], r["n_out"]]})
            continue
        outs = "[" + "; ".join(f"{k}%nat" for k in b["outs"]) + "]"
        dcases.append(f"(CExtX {len(dcases)}%nat {base[base_qual(q)]}%nat {r['prog']} {outs})")
        dmeta.append((q, base[base_qual(q)], b["outs"], r))
    dfailing, d_eval, dbroken = C.run_case_shards("C18", HEADER, "case", dcases, shard=40, tag="extxd")
    n_eval += d_eval
    chk.cov["traces_validated_against_impl"] = n_eval
    for b in dbroken:
        chk.broken.append({"what": "correspondence corr:C18 (extracted programs, exact dtype, default options) shard not evaluated", "detail": b})
    for i, (q, lvl, outs, r) in enumerate(dmeta):
        chk.count(key=("extracted-exact-default", q), nontrivial=True)
        chk.hist("stream", "extracted function, exact outputs with default options")
        if i in dfailing:
            chk.disagreement("corr:C18 dtype program extracted from the source of " + q + " WITH ITS OPTIONS AT THEIR DEFAULTS: an output that was certified to have EXACTLY the "
                             "data's dtype (complex stays complex; Model/Dtype.v all_exact2) no longer is, at level " + str(lvl),
                             {"function": q, "level": lvl, "exact_output_positions": outs, "leaves": r["leaves"], "statements": [r["n_init"], r["n_loop"]]})
    chk.notes.append(f"source-level exact-dtype tie with default options: {len(dmeta)} further functions, {sum(len(m[2]) for m in dmeta)} outputs certified")
    # ---- 4b3. what stands behind the SHALLOW skeleton families (output = promotion of the inputs, nothing of the internals transcribed): for each of
    # their entry points, is the program extracted from its source certified to return exactly the data's dtype (which is what the shallow skeleton says)?
    # (round 7: FTTCross, FIndexed, FPermute, FFlipSign are transcribed now; they stay in this report because it shows what the source certification says about them)
    SHALLOW = {"FPure", "FTTCross", "FMetric", "FIndexed", "FPermute", "FFlipSign"}
    ok_all = {m[0] for i, m in enumerate(emeta) if i not in efailing}
    ok_def = {m[0] for i, m in enumerate(dmeta) if i not in dfailing}
    shallow = {}
    for t in T:
        if t["fam"] not in SHALLOW or t.get("lenient"):
            continue
        last = t["ep"].rsplit(".", 1)[1]
        qs = [q for q in ex if "error" not in ex[q] and (q.rsplit(".", 1)[1] == last or ("." + last + ".") in q) and not q.endswith("__init__")]
        for q in qs:
            b, bd = xbase.get(q), xdbase.get(q)
            if q in ok_all and b and len(b["outs"]) == b["n_out"]:
                st_ = "exact"
            elif (q in ok_def or (q in ok_all and bd == b)) and bd and len(bd["outs"]) == bd["n_out"]:
                st_ = "exact with default options"
            elif b and b["outs"] and (q in ok_all):
                st_ = f"exact for {len(b['outs'])} of {b['n_out']} outputs"
            else:
                st_ = "precision class only" if base.get(q, 0) >= 1 else "not certified"
            shallow.setdefault(t["fam"], {})[q.split("tensorly.", 1)[-1]] = st_
    chk.cov["shallow_families_source_certification"] = shallow
    n_sh = sum(len(v) for v in shallow.values())
    n_ex = sum(1 for v in shallow.values() for x in v.values() if x.startswith("exact") and " of " not in x)
    chk.notes.append(f"shallow skeleton families: {n_sh} functions behind their entry points, {n_ex} certified from the source to return exactly the data's dtype "
                     f"(= what the shallow skeleton states), the rest: " + "; ".join(sorted(f"{q}: {x}" for v in shallow.values() for q, x in v.items() if not (x.startswith("exact") and " of " not in x)))[:1500])
    # ---- 4b'. the exact certification against this run's executions: an entry point all of whose outputs are certified exact must have
    # returned only arrays of exactly the data's dtype in every complex-data run (mask absent or of the data's dtype)
    allex = {q.rsplit(".", 1)[1] for q, b in xbase.items() if b["outs"] and len(b["outs"]) == b["n_out"] and not q.rsplit(".", 2)[1][:1].isupper()
             and q in ex and (emeta and q in {m[0] for i, m in enumerate(emeta) if i not in efailing})}
    n_x = 0
    for m in meta:
        if m[0] != "ep":
            continue
        _, t, data_dt, mask_dt, seed, obs, bad = m
        if not data_dt.startswith("complex") or t["ep"].rsplit(".", 1)[1] not in allex or (mask_dt is not None and mask_dt != data_dt):
            continue
        n_x += 1
        off = [(s_, d_) for s_, d_ in obs if d_ != data_dt and s_ not in t["exempt"]]
        if off:
            chk.disagreement("corr:C18 source-level exact-dtype certification of " + t["ep"] + " contradicted by an execution with complex data",
                             {"config": t["name"], "dtype": data_dt, "mask_dtype": mask_dt, "observed": obs})
    chk.notes.append(f"exact-dtype certification cross-checked against {n_x} complex-data executions of certified entry points")
    # ---- 4c. the documented exceptions are exactly the uncertified functions
    lvl0 = {q for q, l in base.items() if l == 0}
    if lvl0 != DOCUMENTED_F64:
        chk.broken.append({"what": "C18 extraction baseline: the uncertified functions are not exactly the documented float64 exceptions",
                           "detail": {"uncertified": sorted(lvl0), "documented": sorted(DOCUMENTED_F64)}})
    gone = sorted(q for q, l in base.items() if l >= 1 and q not in ex)
    chk.hist("extraction", f"certified {n_cert}")
    chk.notes.append(f"source-level extraction: {len(ex)} functions with array outputs translated, {n_cert} certified at their baseline level, "
                     f"{sum(1 for q in ex if base.get(q) == 0)} uncertified at baseline (documented float64 output / translator imprecision), {n_new} new, "
                     f"{len(xerrors)} untranslatable {sorted(xerrors)[:5]}, {len(gone)} baseline functions no longer present {gone[:5]}")
    if n_skipped:
        chk.notes.append(f"{n_skipped} configuration runs hit the per-case timeout and were skipped (not a verdict)")
    for b in broken:
        chk.broken.append({"what": "correspondence corr:C18 shard not evaluated", "detail": b})
    for i in sorted(failing):
        m = meta[i]
        if m[0] == "table":
            chk.disagreement("corr:C18 promotion table (Model/Dtype.v vs installed NumPy)", {"kind": m[1], "a": m[2], "b": m[3], "measured": m[4]})
        else:
            _, t, data_dt, mask_dt, seed, obs, bad = m
            chk.disagreement("corr:C18 skeleton (Model/Dtype.v) vs " + t["ep"],
                             {"config": t["name"], "dtype": data_dt, "mask_dtype": mask_dt, "seed": seed, "observed": obs, "cfg": cfg_lit(t)})
    chk.assumptions = ["the skeletons abstract the data flow of the entry points (which value is combined with which); they are tied to the code only through the "
                       "observed output dtypes of this run's configurations",
                       "a mask is an indicator, not data: for every mask dtype (bool, int64, float of another precision) the expected dtype is the data's",
                       "real-valued-by-definition outputs (errors, norms, singular values, |weights|) of complex input are expected in the real type of the same precision"]
    chk.assumptions.append("call sequences: the per-call theorems extend to every session for programs without persistent variables (C18_stateless_history_independent); that the CODE "
                           "keeps no state between calls is checked by the fail-closed instruments of harness/props/C18_hist.py, state kept on estimator instances by the static must-define analysis of every fit method (no read of a fitted attribute before it is overwritten) and a refit row for every estimator class")
    chk.trusted = ["the ast -> dtype-program translator in harness/props/C18.py (call table, join of alternatives, loop unrolling, modular summaries of callees)",
                   "the persistent-state scanner and snapshot in harness/props/C18_hist.py (what counts as state, the whitelist of 25 sites read by hand, each with its justification in the evidence and the manifest note; the must-define analysis of fit methods), tested on every run by canaries",
                   "NumPy's dtype attribute of the returned arrays", "table of entry-point configurations (harness/props/C18.py) as the universe of 'public entry points'"]
    _install_known_loader()
    return chk.finish(CLASSIFIERS)


def replay(payload):
    """re-run a stored failing configuration against the current implementation; 1 = still failing"""
    if payload.get("kind") != "failing-input":
        fns = [(d["case"]["function"], d["case"].get("level", 2)) for d in payload.get("disagreeing_cases", []) if isinstance(d.get("case"), dict) and "function" in d["case"]]
        if fns:
            # broken source-level tie: re-extract the named functions from the current tree and re-check them inside Coq
            want = dict(fns)
            xcases, xmeta, xerrors, ex = extract_cases(C.REPO, lambda q: [want[q]] if q in want else [])
            failing, n_eval, broken = C.run_case_shards("C18", HEADER, "case", xcases, shard=40, tag="extreplay")
            for i, (q, lvl, r) in enumerate(xmeta):
                print("replay: extracted program of", q, "level", lvl, "->", "still NOT certified" if i in failing else "certified now",
                      extract_diagnose(C.REPO, q, "B" if lvl == 2 else "F32") if i in failing else "")
            return 1 if (failing or broken or len(xmeta) < len(want)) else 0
        print("replay file names a broken theorem/correspondence, not an input:", payload.get("theorem_or_correspondence"))
        return 1
    inp = payload["inputs"]
    rows = table("thorough")
    if inp.get("random_rows"):
        rows = rows + random_rows(random.Random(f"C18-rows-{inp['random_rows'][0]}"), inp["random_rows"][1])
    if inp.get("sequence"):
        # a call SEQUENCE (history dependence): this process is fresh; run the calls in the stored order and judge the last one
        from harness.props import C18_hist as H
        recs = H.run_sequence(rows, [tuple(x) for x in inp["sequence"]])
        name, dt, st, obs, err = recs[-1]
        t = [r for r in rows if r["name"] == name]
        if st != "ok" or not t:
            print("replay: sequence", inp["sequence"], "->", st, err)
            return 1
        obs = sorted((s_, d_) for s_, d_ in obs)
        bad = dtype_predicate(t[0], dt, inp.get("mask_dtype"), obs)
        iso = inp.get("isolated_result")
        differs = bool(iso) and [list(o) for o in obs] != iso[1]
        print("replay: call sequence", inp["sequence"], "-> last call", bad or ("differs from the isolated call " + str(iso[1]) if differs else "holds"), "| observed", obs)
        return 1 if (bad or differs) else 0
    for t in rows:
        if t["name"] == inp["config"]:
            st, obs, info = run_config(t, inp["dtype"], inp.get("seed", 0))
            if st != "ok":
                print("replay:", t["name"], inp["dtype"], "->", st, info.get("error"))
                return 1
            bad = dtype_predicate(t, inp["dtype"], inp.get("mask_dtype"), obs)
            print("replay:", t["name"], inp["dtype"], "mask", inp.get("mask_dtype"), "->", bad or "holds", "| observed", obs)
            return 1 if bad else 0
    print("replay: configuration not found in the table")
    return 1
