"""C18 -- history independence: the dtype of the n-th call's outputs depends only on that call's inputs.

A result can leave the numeric context of its input through PERSISTENT STATE: a module-level dict / list, a function attribute, an
lru_cache, a closure cell of a long-lived closure, a mutable default argument, a class-level container - e.g. a cache of a system matrix
keyed without the dtype, filled by a float64 call and reused by a float32 call.  A single call (or calls in one dtype only) never shows
it.  Three instruments, all fail-closed (Model/DtypeHist.v has the theorem they stand for: a program that reads no persistent variable
before overwriting it - in particular every program of the dtype language without persistent variables - returns in every session
exactly what it returns in isolation, C18_history_independent):

 (a) DYNAMIC, call sequences: fresh child processes run every row of the configuration table (harness/props/C18.py) with the data
     dtypes in ANOTHER ORDER than the parent (float64 first / complex128 first / thorough: complex64 first), all rows in one process;
     the dtypes of every returned array must be identical to the parent's (which runs float32 first) and satisfy the predicate.
     A discrepancy is minimised to a two-call sequence in a fresh process and reported with that failing input.
 (b) DYNAMIC, state snapshot: the module-level containers, function attributes, mutable defaults, closure cells, functools caches,
     class-level containers and module-level singletons of every loaded tensorly module are fingerprinted before and after the
     parent's table pass; any difference (outside a whitelist of modelled state) is a broken tie naming the object.
 (c) STATIC: an ast scan of EVERY function of the library (not only the ones with array outputs) for writes to module-level / global /
     nonlocal / function-attribute / class-level / escaping-closure state, mutable default arguments that are mutated, method calls
     on module-level singletons, setattr / globals(), functools caches and unknown decorators; every hit outside the whitelist of
     state that has been looked at (backend selection, import-time registration, the einsum plugins' contraction-path caches) is a
     broken tie.
"""
import ast
import json
import os
import subprocess
import sys
import time

F32, F64, C64, C128 = "float32", "float64", "complex64", "complex128"
ORDERS = {"f64first": [F64, F32, C128, C64], "c128first": [C128, C64, F64, F32], "c64first": [C64, C128, F32, F64],
          "f32first": [F32, F64, C128, C64]}


# ============================================================================= (a) call sequences in fresh processes
def row_dtypes(t, tier, order):
    """(dtype, compared?) in the order of this pass.  Table rows: the dtypes the parent runs them with.  Random (lenient) rows are written for one
    real dtype: the other dtypes of the order are run first as PRIMERS (their result is not compared, a raise is ignored)."""
    from harness.props import C18 as M
    mine = M.dtypes_for(t, tier)
    if t.get("lenient"):
        return [(dt, dt in mine) for dt in ORDERS[order] if dt in mine or dt in (F32, F64, C128)]
    return [(dt, True) for dt in ORDERS[order] if dt in mine]


def all_rows(tier, seed):
    import random
    from harness.props import C18 as M
    n_rand = 24 if tier == "quick" else 150
    return M.table(tier) + M.random_rows(random.Random(f"C18-rows-{seed}"), n_rand)


def run_sequence(rows, seq):
    """runs [(row name, dtype)] in this process, in order; returns [(name, dtype, status, obs, error)]"""
    from harness.props import C18 as M
    byname = {t["name"]: t for t in rows}
    out = []
    for name, dt in seq:
        t = byname.get(name)
        if t is None:
            out.append([name, dt, "missing", [], "unknown configuration"])
            continue
        st, obs, info = M.run_config(t, dt, 0)
        out.append([name, dt, st, [list(o) for o in obs], info.get("error")])
    return out


def child_main():
    """python -m harness.props.C18_hist <tier> <seed> <order> | --seq <tier> <seed> <json [[name, dtype], ...]>"""
    import io, contextlib
    real_stdout = sys.stdout
    buf = io.StringIO()
    with contextlib.redirect_stdout(buf):
        if sys.argv[1] == "--seq":
            tier, seed, seq = sys.argv[2], int(sys.argv[3]), json.loads(sys.argv[4])
            res = run_sequence(all_rows(tier, seed), seq)
        else:
            tier, seed, order = sys.argv[1], int(sys.argv[2]), sys.argv[3]
            rows = all_rows(tier, seed)
            seq = [(t["name"], dt) for t in rows for dt, _ in row_dtypes(t, tier, order)]
            res = run_sequence(rows, seq)
    real_stdout.write(json.dumps(res))
    real_stdout.flush()


# what the end of a child's stderr says when the MACHINE (not the library) ended it: memory / process / descriptor exhaustion
RESOURCE_WORDS = ("MemoryError", "Cannot allocate memory", "ArrayMemoryError", "Resource temporarily unavailable", "Too many open files", "No space left on device",
                  "can't start new thread", "BlockingIOError", "OpenBLAS blas_thread_init")


def skippable(err):
    """a child that hit its time limit, was killed by a signal or ran out of memory / processes is skipped and counted - never a verdict"""
    return bool(err) and (err == "timeout" or err.startswith("killed:") or err.startswith("resources:"))


def spawn(args, timeout):
    env = dict(os.environ)
    try:
        return _spawn(args, timeout, env)
    except OSError as e:          # fork / exec refused (process table full, out of memory): the pass cannot start; skipped, not a verdict
        return None, "resources: cannot start the child process: " + str(e)[:120]


def _spawn(args, timeout, env):
    return subprocess.Popen([sys.executable, "-m", "harness.props.C18_hist"] + [str(a) for a in args], stdout=subprocess.PIPE, stderr=subprocess.PIPE,
                            env=env, cwd=os.path.dirname(os.path.dirname(os.path.dirname(os.path.abspath(__file__))))), time.time() + timeout


def collect(proc_deadline):
    """(records | None, error string | None)"""
    proc, deadline = proc_deadline
    if proc is None:
        return None, deadline     # (spawn failed: the second component is the reason)
    try:
        out, err = proc.communicate(timeout=max(1.0, deadline - time.time()))
    except subprocess.TimeoutExpired:
        proc.kill()
        proc.communicate()
        return None, "timeout"
    if proc.returncode != 0:
        tail = err.decode(errors="replace")[-400:]
        if proc.returncode < 0:
            # ended by a signal (the kernel's out-of-memory killer, an operator's kill, a cgroup limit): says nothing about the library
            return None, f"killed: signal {-proc.returncode}"
        if any(w in tail for w in RESOURCE_WORDS):
            return None, "resources: " + tail[-200:].replace("\n", " ")
        return None, f"exit {proc.returncode}: " + tail
    try:
        return json.loads(out.decode()), None
    except Exception as e:  # noqa
        return None, f"unreadable output ({e})"


def start_passes(tier, seed):
    orders = ["f64first", "c128first"] + (["c64first"] if tier != "quick" else [])
    tmo = 400 if tier == "quick" else 1500
    return {o: spawn([tier, seed, o], tmo) for o in orders}


def judge_passes(chk, passes, parent, rows, tier, seed, n_rand):
    """parent: {(name, dtype): (status, obs)} of the parent's own pass (data seed 0).  Every compared call of every pass must return arrays of the same
    dtypes as the parent's call and satisfy the predicate."""
    from harness.props import C18 as M
    byname = {t["name"]: t for t in rows}
    n_cmp = 0
    for order, pd in passes.items():
        recs, err = collect(pd)
        if recs is None:
            if skippable(err):
                chk.hist("skipped", "history pass " + order + ": " + err.split(":")[0])
                chk.notes.append(f"history pass {order} did not finish for a reason outside the library ({err[:160]}) and was skipped (not a verdict)")
            else:
                chk.broken.append({"what": "C18 history pass " + order + " (fresh process, other dtype order) did not complete", "detail": err})
            continue
        done = []
        reported = set()
        n_min = 0
        for name, dt, st, obs, error in recs:
            done.append([name, dt])
            t = byname.get(name)
            ref = parent.get((name, dt))
            if t is None or ref is None or st == "timeout" or ref[0] in ("timeout", "resources"):
                continue          # primer call / not run by the parent / machine load
            if st != "ok" and error and any(w in str(error) for w in RESOURCE_WORDS):
                chk.hist("skipped", "history pass " + order + ": a call ran out of memory / processes")
                continue
            obs = sorted((s, d) for s, d in obs)
            n_cmp += 1
            chk.count(key=("history", order, name, dt), nontrivial=True)
            chk.hist("stream", "history pass " + order)
            if (st, obs) == (ref[0], sorted(ref[1])):
                continue
            if name in reported:
                continue
            reported.add(name)
            # minimise: the same row, the dtype that ran first in this pass and the failing dtype, in a fresh process
            first = [d for n_, d in done if n_ == name][0]
            seq = [[name, first], [name, dt]] if first != dt else [[name, dt]]
            minimal = False
            if n_min < 3:         # (a fresh process per minimisation: only for the first few discrepancies of a pass)
                n_min += 1
                mrecs, _ = collect(spawn(["--seq", tier, seed, json.dumps(seq)], 200))
                minimal = bool(mrecs) and (mrecs[-1][2], sorted((s, d) for s, d in mrecs[-1][3])) == (st, obs)
            if not minimal:
                seq = done[:]
            mask_dt = None if t["mask"] is None else (M.MASK_DT[t["mask"]] or dt)
            inputs = {"config": name, "dtype": dt, "seed": 0, "mask_dtype": mask_dt, "sequence": seq if len(seq) <= 12 else seq[-12:],
                      "sequence_is_minimal": minimal, "history_pass": order, "isolated_result": [ref[0], [list(o) for o in sorted(ref[1])]],
                      "result_after_history": [st, [list(o) for o in obs]]}
            if len(seq) > 12:
                inputs["sequence_prefix"] = f"every row of the table before it, dtypes in the order {ORDERS[order]} ({len(seq)} calls; the last 12 are listed)"
            if t.get("lenient"):
                inputs["random_rows"] = [seed, n_rand]
            bad = M.dtype_predicate(t, dt, mask_dt, obs) if st == "ok" else []
            if bad:
                inputs["failures"] = bad
                chk.finding(t["ep"], inputs, "HISTORY DEPENDENCE: after earlier calls with other dtypes in the same process the returned arrays leave the numeric "
                            "context of the input: " + ", ".join(f"{s or 'result'}: {o} (expected {e})" for s, o, e in bad) +
                            f"; call sequence {seq if len(seq) <= 4 else '(see inputs)'}", "C18_dtype_of_every_returned_array_in_any_call_sequence",
                            observed={s: o for s, o, _ in bad}, expected=[dt])
            else:
                chk.disagreement("corr:C18 history independence (Model/DtypeHist.v): the dtypes returned by " + t["ep"] + " depend on the calls made before it in the same process",
                                 inputs)
    chk.notes.append(f"history passes (fresh processes, dtype orders {sorted(passes)} vs the parent's float32-first order): {n_cmp} calls compared with the parent's")
    return n_cmp


# ============================================================================= (b) snapshot of the persistent state of the loaded library
def _fp(v, depth=0):
    import numpy as np
    if isinstance(v, np.ndarray):
        return ("ndarray", str(v.dtype), tuple(v.shape), id(v))
    if isinstance(v, np.generic):
        return ("npscalar", str(v.dtype), repr(v))
    if depth > 3:
        return ("...", type(v).__name__, id(v))
    if isinstance(v, dict):
        try:
            items = sorted(v.items(), key=lambda kv: repr(kv[0]))
        except Exception:  # noqa
            items = list(v.items())
        return ("dict", tuple((repr(k)[:80], _fp(x, depth + 1)) for k, x in items[:200]), len(v))
    if isinstance(v, (list, tuple)):
        return (type(v).__name__, tuple(_fp(x, depth + 1) for x in v[:200]), len(v))
    if isinstance(v, (set, frozenset)):
        return (type(v).__name__, tuple(sorted(repr(x)[:80] for x in v)[:200]), len(v))
    if isinstance(v, (int, float, complex, str, bytes, bool, type(None))):
        return (type(v).__name__, repr(v)[:80])
    return (type(v).__name__, id(v))


def import_all():
    """imports every module of the library (tests and the optional-dependency plugins / sparse backend aside) so that the first snapshot sees all of its
    module-level objects: an object that appears only in the second snapshot was created by a call"""
    import importlib, pkgutil, warnings
    import tensorly
    with warnings.catch_warnings():
        warnings.simplefilter("ignore")
        for m in pkgutil.walk_packages(tensorly.__path__, "tensorly."):
            if ".tests" in m.name or m.name.endswith(".conftest") or ".sparse" in m.name or m.name.startswith("tensorly.backend.") and m.name.split(".")[-1] not in ("core", "numpy_backend"):
                continue
            try:
                importlib.import_module(m.name)
            except Exception:  # noqa
                pass
        try:
            # the tenalg backends are loaded lazily into TenalgBackendManager._loaded_backends: load both now
            from tensorly import tenalg
            tenalg.set_backend("einsum")
            tenalg.set_backend("core")
        except Exception:  # noqa
            pass


def _is_container(v):
    import collections
    return isinstance(v, (dict, list, set, collections.deque))


def snapshot_state():
    """{object path: fingerprint} for everything in the loaded tensorly modules that can carry a value from one call to the next"""
    import types, threading
    snap = {}
    seen_fn = set()

    def fn_state(path, f):
        if id(f) in seen_fn:
            return
        seen_fn.add(id(f))
        if hasattr(f, "cache_info"):
            try:
                snap[path + "#functools-cache"] = ("cache", f.cache_info().currsize)
            except Exception:  # noqa
                snap[path + "#functools-cache"] = ("cache", "?")
            f = getattr(f, "__wrapped__", f)
        if not isinstance(f, types.FunctionType):
            return
        if f.__dict__:
            snap[path + "#attributes"] = _fp({k: v for k, v in f.__dict__.items() if k != "__wrapped__"})
        for i, dv in enumerate(f.__defaults__ or ()):
            if _is_container(dv):
                snap[f"{path}#default{i}"] = _fp(dv)
        for k, dv in (f.__kwdefaults__ or {}).items():
            if _is_container(dv):
                snap[f"{path}#kwdefault:{k}"] = _fp(dv)
        for i, c in enumerate(f.__closure__ or ()):
            try:
                cv = c.cell_contents
            except ValueError:
                continue
            if _is_container(cv):
                snap[f"{path}#closure{i}"] = _fp(cv)
            elif isinstance(cv, types.FunctionType) and (cv.__module__ or "").startswith("tensorly"):
                fn_state(f"{path}#closure{i}", cv)

    for mname, mod in sorted(sys.modules.items()):
        if not (mname == "tensorly" or mname.startswith("tensorly.")) or mod is None or ".tests" in mname:
            continue
        for name, v in sorted(vars(mod).items()):
            if name.startswith("__") and name.endswith("__"):
                continue
            path = f"{mname}.{name}"
            if isinstance(v, types.ModuleType):
                continue
            if _is_container(v):
                snap[path] = _fp(v)
            elif isinstance(v, types.FunctionType) or hasattr(v, "cache_info"):
                if (getattr(v, "__module__", "") or "").startswith("tensorly"):
                    fn_state(path, v)
            elif isinstance(v, type):
                if not (v.__module__ or "").startswith("tensorly") or v.__module__ != mname:
                    continue
                snap[path + "#n_attributes"] = ("n", len(vars(v)))
                for an, av in sorted(vars(v).items()):
                    if an.startswith("__") and an.endswith("__"):
                        continue
                    raw = av.__func__ if isinstance(av, (staticmethod, classmethod)) else av
                    if _is_container(raw):
                        snap[f"{path}.{an}"] = _fp(raw)
                    elif isinstance(raw, types.FunctionType) or hasattr(raw, "cache_info"):
                        if (getattr(raw, "__module__", "") or "").startswith("tensorly"):
                            fn_state(f"{path}.{an}", raw)
                    elif isinstance(raw, threading.local):
                        snap[f"{path}.{an}#thread-local"] = _fp(dict(vars(raw)))
            elif isinstance(v, threading.local):
                snap[path + "#thread-local"] = _fp(dict(vars(v)))
            elif (type(v).__module__ or "").startswith("tensorly") and hasattr(v, "__dict__"):
                snap[path + "#instance"] = _fp(dict(vars(v)))          # a module-level singleton of a library class
    return snap


def _strip_ids(fp):
    """fingerprint without object identities (for the message)"""
    if isinstance(fp, tuple):
        if fp and fp[0] == "ndarray":
            return fp[:3]
        return tuple(_strip_ids(x) for x in fp)
    return fp


# state that has been looked at: the backend selection (tl.set_backend / tenalg.set_backend; the rows that switch the tenalg backend restore it)
# (the registries of loaded backend singletons: backend objects, no arrays; filled on the first set_backend of a name)
STATE_WHITELIST = ("tensorly.tenalg.TenalgBackendManager._loaded_backends", "tensorly.backend.BackendManager._loaded_backends")


def diff_state(before, after):
    out = []
    for k in sorted(set(before) | set(after)):
        if before.get(k) != after.get(k) and not any(k.startswith(w) for w in STATE_WHITELIST):
            out.append({"object": k, "before": repr(_strip_ids(before.get(k)))[:300], "after": repr(_strip_ids(after.get(k)))[:300]})
    return out


# ============================================================================= (c) static scan of the source for persistent state
SCAN_SKIP_DIRS = ("tests", "datasets", "__pycache__")
MUTATORS = {"append", "extend", "insert", "update", "setdefault", "pop", "popitem", "clear", "add", "remove", "discard", "__setitem__",
            "sort", "reverse", "appendleft", "extendleft", "__setattr__", "__delitem__", "move_to_end"}
READONLY_METHODS = {"get", "keys", "values", "items", "copy", "index", "count", "format", "join", "startswith", "endswith", "split", "lower", "upper",
                    "strip", "replace", "__contains__", "__getitem__", "__len__", "__iter__"}
CACHE_DECORATORS = {"lru_cache", "cache", "cached_property", "memoize", "memoized", "cached", "memo", "singledispatch"}
OK_DECORATORS = {"staticmethod", "classmethod", "property", "setter", "getter", "deleter", "wraps", "contextmanager", "abstractmethod",
                 "overload", "dataclass", "total_ordering"}
MUTABLE_CTORS = {"dict", "list", "set", "defaultdict", "OrderedDict", "deque", "Counter", "WeakValueDictionary", "WeakKeyDictionary", "local"}

# (function, kind, name) of the persistent state that has been looked at and is not a path for array data of one call into another:
#  - backend selection and dispatch (tl.set_backend, tenalg.set_backend, use_dynamic_dispatch / use_static_dispatch): global by design and documented;
#    what is stored are backend objects and method bindings, no arrays; only the NumPy backend is installed
#  - import-time registration of backends and backend methods (__init_subclass__, register_method, register_sparse_backend)
#  - the einsum plugins (optional dependencies opt_einsum / cuquantum, not installed): they cache CONTRACTION PATHS (expression objects) per
#    equation and shapes, never arrays, and swap the backend's einsum
# key -> (number of sites with this key in the source as read, why the site is not a path for array data of one call into another).  FAIL CLOSED: a site
# with a key that is not listed, or one site MORE than the listed number under a listed key (a second store into the same registry from the same
# function), is a broken tie.  tools/manifest.d/C18.json (note) repeats the justification of every entry.
_J_PLUGIN_SWAP = ("einsum plugin (optional dependency, not installed): remembers the backend's ORIGINAL einsum function object so that use_default_einsum can "
                  "restore it; a function, never an array")
_J_PLUGIN_PATH = ("einsum plugin (optional dependency, not installed): cache of CONTRACTION PATHS / expression objects keyed by equation and operand SHAPES; "
                  "the operands themselves are passed on every call, no array is stored")
_J_DISPATCH = ("backend dispatch (tl.* / tenalg.* names re-bound to the current backend's functions): stores function bindings and attribute descriptors, "
               "global by design and documented; no array")
_J_SELECT = ("backend selection (set_backend / initialize_backend): stores the selected backend OBJECT / its name, global or thread-local by design and "
             "documented; only the NumPy backend is installed; no array")
_J_REGISTRY = ("registry of instantiated backend objects keyed by backend name, filled on the first selection of a name; backend objects hold no arrays")
_J_IMPORT = ("import-time registration of a backend class / of a backend method (runs when a subclass is defined or a method is registered, not inside a "
             "numerical call); classes and functions, no array")
SCAN_WHITELIST = {
    ("tensorly.plugins.use_default_einsum", "global", "PREVIOUS_EINSUM"): (1, _J_PLUGIN_SWAP),
    ("tensorly.plugins.use_opt_einsum", "global", "PREVIOUS_EINSUM"): (1, _J_PLUGIN_SWAP),
    ("tensorly.plugins.use_opt_einsum.<locals>.cached_einsum", "module-state-store", "OPT_EINSUM_PATH_CACHE"): (1, _J_PLUGIN_PATH),
    ("tensorly.plugins.use_cuquantum", "global", "CUQUANTUM_HANDLE"): (1, "einsum plugin (cuquantum, not installed): the library handle of cuTensorNet; an opaque handle, no array"),
    ("tensorly.plugins.use_cuquantum", "global", "PREVIOUS_EINSUM"): (1, _J_PLUGIN_SWAP),
    ("tensorly.plugins.use_cuquantum.<locals>.cached_einsum", "module-state-store", "CUQUANTUM_PATH_CACHE"): (1, _J_PLUGIN_PATH),
    ("tensorly.backend.__init__.BackendManager.use_dynamic_dispatch", "setattr", "cls"): (2, _J_DISPATCH),
    ("tensorly.backend.__init__.BackendManager.use_static_dispatch", "setattr", "cls"): (2, _J_DISPATCH),
    ("tensorly.backend.__init__.BackendManager.initialize_backend", "class-attribute-store", "cls._default_backend"): (1, _J_SELECT),
    ("tensorly.backend.__init__.BackendManager.load_backend", "class-attribute-store", "cls._loaded_backends"): (1, _J_REGISTRY),
    ("tensorly.backend.__init__.BackendManager.set_backend", "class-attribute-store", "cls._backend"): (1, _J_SELECT),
    ("tensorly.backend.__init__.BackendManager.set_backend", "class-attribute-store", "cls._default_backend"): (1, _J_SELECT),
    ("tensorly.backend.__init__.BackendManager.set_backend", "class-attribute-store", "cls._THREAD_LOCAL_DATA.backend"): (1, _J_SELECT),
    ("tensorly.backend.core.Backend.__init_subclass__", "class-attribute-store", "cls.backend_name"): (1, _J_IMPORT),
    ("tensorly.backend.core.Backend.__init_subclass__", "class-attribute-store", "cls._available_backends"): (1, _J_IMPORT),
    ("tensorly.backend.core.Backend.register_method", "setattr", "cls"): (1, _J_IMPORT),
    ("tensorly.contrib.sparse.backend.__init__.register_sparse_backend", "module-state-store", "_LOADED_BACKENDS"): (1, _J_REGISTRY + " (sparse contrib backend, needs the optional `sparse` package)"),
    ("tensorly.tenalg.__init__.TenalgBackendManager.use_dynamic_dispatch", "setattr", "cls"): (2, _J_DISPATCH),
    ("tensorly.tenalg.__init__.TenalgBackendManager.load_backend", "class-attribute-store", "cls._loaded_backends"): (1, _J_REGISTRY),
    ("tensorly.tenalg.base_tenalg.TenalgBackend.__init_subclass__", "class-attribute-store", "cls.backend_name"): (1, _J_IMPORT),
    ("tensorly.tenalg.base_tenalg.TenalgBackend.__init_subclass__", "class-attribute-store", "cls._available_tenalg_backends"): (1, _J_IMPORT),
    ("tensorly.tenalg.base_tenalg.TenalgBackend.register_method", "setattr", "cls"): (1, _J_IMPORT),
}
WHITELISTED_SITES = sum(n for n, _ in SCAN_WHITELIST.values())      # 25


def _dotted(n):
    if isinstance(n, ast.Name):
        return [n.id]
    if isinstance(n, ast.Attribute):
        b = _dotted(n.value)
        return None if b is None else b + [n.attr]
    if isinstance(n, ast.Subscript):
        return _dotted(n.value)
    return None


def _is_mutable_value(v):
    if isinstance(v, (ast.Dict, ast.List, ast.Set, ast.ListComp, ast.DictComp, ast.SetComp)):
        return True
    if isinstance(v, ast.Call):
        d = _dotted(v.func)
        return bool(d) and d[-1] in MUTABLE_CTORS
    return False


def _own_nodes(fn):
    """nodes of the function body, not descending into nested function / class definitions"""
    stack = list(fn.body)
    while stack:
        n = stack.pop()
        yield n
        if isinstance(n, (ast.FunctionDef, ast.AsyncFunctionDef, ast.ClassDef, ast.Lambda)):
            continue
        stack.extend(ast.iter_child_nodes(n))


def _local_names(fn):
    a = fn.args
    names = {x.arg for x in a.posonlyargs + a.args + a.kwonlyargs}
    if a.vararg:
        names.add(a.vararg.arg)
    if a.kwarg:
        names.add(a.kwarg.arg)
    declared = set()
    for n in _own_nodes(fn):
        if isinstance(n, ast.Name) and isinstance(n.ctx, (ast.Store, ast.Del)):
            names.add(n.id)
        elif isinstance(n, (ast.FunctionDef, ast.AsyncFunctionDef, ast.ClassDef)):
            names.add(n.name)
        elif isinstance(n, (ast.Import, ast.ImportFrom)):
            for al in n.names:
                names.add((al.asname or al.name).split(".")[0])
        elif isinstance(n, ast.ExceptHandler) and n.name:
            names.add(n.name)
        elif isinstance(n, (ast.Global, ast.Nonlocal)):
            declared.update(n.names)
    return names - declared


def _mutable_default_params(fn):
    a = fn.args
    pos = a.posonlyargs + a.args
    out = set()
    for p, dflt in zip(pos[len(pos) - len(a.defaults):], a.defaults):
        if _is_mutable_value(dflt):
            out.add(p.arg)
    for p, dflt in zip(a.kwonlyargs, a.kw_defaults):
        if dflt is not None and _is_mutable_value(dflt):
            out.add(p.arg)
    return out


def _escaping(fn):
    """names of the nested functions of fn that outlive the call: used other than as the callee of a direct call (returned, stored, passed on,
    registered), or decorated"""
    nested = {n.name: n for n in _own_nodes(fn) if isinstance(n, (ast.FunctionDef, ast.AsyncFunctionDef))}
    called = set()
    for n in _own_nodes(fn):
        if isinstance(n, ast.Call) and isinstance(n.func, ast.Name):
            called.add(id(n.func))
    esc = {nm for nm, nd in nested.items() if nd.decorator_list}
    for n in _own_nodes(fn):
        if isinstance(n, ast.Name) and isinstance(n.ctx, ast.Load) and n.id in nested and id(n) not in called:
            esc.add(n.id)
    # a lambda defined here is anonymous: treat every closure write inside the function as escaping if a lambda is returned (rare; conservative)
    return esc


def _scan_function(fn, qual, module_imports, module_objects, class_mutables, enclosing, hits):
    """enclosing: {name: persistent?} for the local variables of the enclosing functions (persistent = the nested function escapes)"""
    loc = _local_names(fn)
    mdp = _mutable_default_params(fn)

    def hit(kind, name, node):
        hits.append({"function": qual, "kind": kind, "name": name, "line": getattr(node, "lineno", 0)})

    for dec in fn.decorator_list:
        d = _dotted(dec.func if isinstance(dec, ast.Call) else dec)
        last = d[-1] if d else "?"
        if last in CACHE_DECORATORS:
            hit("cache-decorator", ".".join(d or ["?"]), dec)
        elif last not in OK_DECORATORS:
            hit("unknown-decorator", ".".join(d or ["?"]), dec)
    for n in _own_nodes(fn):
        if isinstance(n, (ast.Global, ast.Nonlocal)):
            for nm in n.names:
                if isinstance(n, ast.Global) or enclosing.get(nm, True):
                    hit("global" if isinstance(n, ast.Global) else "nonlocal", nm, n)
        targets = []
        if isinstance(n, ast.Assign):
            targets = list(n.targets)
        elif isinstance(n, (ast.AugAssign, ast.AnnAssign)):
            targets = [n.target]
        elif isinstance(n, ast.Delete):
            targets = list(n.targets)
        elif isinstance(n, (ast.For, ast.AsyncFor)):
            targets = [n.target]
        elif isinstance(n, (ast.With, ast.AsyncWith)):
            targets = [i.optional_vars for i in n.items if i.optional_vars is not None]
        flat = []
        while targets:
            t = targets.pop()
            if isinstance(t, (ast.Tuple, ast.List)):
                targets.extend(t.elts)
            elif isinstance(t, ast.Starred):
                targets.append(t.value)
            else:
                flat.append(t)
        for t in flat:
            if not isinstance(t, (ast.Subscript, ast.Attribute)):
                continue
            d = _dotted(t)
            if d is None:
                hit("store-through-call", ast.unparse(t)[:60], t)      # f(x)[i] = v / f(x).a = v: the owner of the object is unknown
                continue
            root = d[0]
            if root in ("self", "cls") and root in loc:
                if root == "cls":
                    hit("class-attribute-store", ".".join(d), t)
                elif len(d) >= 2 and d[1] in class_mutables and (isinstance(t, ast.Subscript) or len(d) > 2):
                    hit("class-level-mutable-store", ".".join(d), t)
                continue          # self.x = v: instance state (the estimator families model fit -> predict / transform)
            if root in mdp:
                hit("mutable-default-store", ".".join(d), t)
            elif root not in loc:
                if root in enclosing:
                    if enclosing[root]:
                        hit("closure-store", ".".join(d), t)
                else:
                    hit("module-state-store", ".".join(d), t)
        if isinstance(n, ast.Call):
            d = _dotted(n.func)
            if d and len(d) >= 2 and d[-1] in MUTATORS:
                root = d[0]
                if root in mdp:
                    hit("mutable-default-mutation", ".".join(d), n)
                elif root == "self" and root in loc:
                    if len(d) >= 3 and d[1] in class_mutables:
                        hit("class-level-mutable-mutation", ".".join(d), n)
                elif root == "cls" and root in loc:
                    hit("class-attribute-mutation", ".".join(d), n)
                elif root not in loc:
                    if root in enclosing:
                        if enclosing[root]:
                            hit("closure-mutation", ".".join(d), n)
                    elif not (root in module_imports and len(d) == 2):       # np.add(...), np.sort(...): a function of an imported module
                        hit("module-state-mutation", ".".join(d), n)
            elif d and len(d) >= 2 and d[0] in module_objects and d[0] not in loc and d[0] not in enclosing and d[-1] not in READONLY_METHODS:
                hit("module-object-method-call", ".".join(d), n)               # a method of a module-level container / singleton: may store its arguments
            elif d and len(d) == 1 and d[0] in module_objects and d[0] not in loc and d[0] not in enclosing:
                hit("module-object-call", d[0], n)       # NAME = functools.lru_cache(...)(f) / NAME = memoize(f) / NAME = Class(): a callable object that may keep state
            if d and d[-1] in ("setattr", "delattr") and n.args:
                r = _dotted(n.args[0])
                if r is None or r[0] not in loc or r[0] == "cls":
                    hit("setattr", (r or ["?"])[0], n)
            if d and d[-1] in ("globals", "vars") and not n.args:
                hit("globals()", d[-1], n)
    esc = _escaping(fn)
    for n in _own_nodes(fn):
        if isinstance(n, (ast.FunctionDef, ast.AsyncFunctionDef)):
            # the variables of this frame are persistent state for the nested function only if the nested function outlives the call
            inner = dict(enclosing)
            for nm in loc:
                inner[nm] = (n.name in esc)
            _scan_function(n, qual + ".<locals>." + n.name, module_imports, module_objects, class_mutables, inner, hits)


def _scan_tree(tree, mod, hits, n_fn):
    imports, objects, defined = set(), set(), set()
    for n in ast.walk(tree):
        if isinstance(n, (ast.Import, ast.ImportFrom)):
            for al in n.names:
                imports.add((al.asname or al.name).split(".")[0])
    for n in tree.body:
        if isinstance(n, (ast.FunctionDef, ast.AsyncFunctionDef, ast.ClassDef)):
            defined.add(n.name)
        tg, val = [], None
        if isinstance(n, ast.Assign):
            tg, val = n.targets, n.value
        elif isinstance(n, ast.AnnAssign) and n.value is not None:
            tg, val = [n.target], n.value
        if val is not None and (_is_mutable_value(val) or isinstance(val, ast.Call)):
            objects.update(t.id for t in tg if isinstance(t, ast.Name))

    def visit(body, prefix, class_mut):
        for node in body:
            if isinstance(node, (ast.FunctionDef, ast.AsyncFunctionDef)):
                n_fn[0] += 1
                _scan_function(node, prefix + node.name, imports, objects - defined, class_mut, {}, hits)
            elif isinstance(node, ast.ClassDef):
                cm = set()
                for m in node.body:
                    if isinstance(m, ast.Assign) and (_is_mutable_value(m.value) or isinstance(m.value, ast.Call)):
                        cm.update(t.id for t in m.targets if isinstance(t, ast.Name))
                    elif isinstance(m, ast.AnnAssign) and m.value is not None and isinstance(m.target, ast.Name) and \
                            (_is_mutable_value(m.value) or isinstance(m.value, ast.Call)):
                        cm.add(m.target.id)
                for dec in node.decorator_list:
                    dd = _dotted(dec.func if isinstance(dec, ast.Call) else dec)
                    if not dd or dd[-1] not in OK_DECORATORS:
                        hits.append({"function": prefix + node.name, "kind": "unknown-decorator", "name": ".".join(dd or ["?"]), "line": node.lineno})
                visit(node.body, prefix + node.name + ".", cm)
            elif isinstance(node, (ast.If, ast.Try, ast.With)):
                for fld in ("body", "orelse", "finalbody"):
                    visit(getattr(node, fld, []) or [], prefix, class_mut)
                for h in getattr(node, "handlers", []) or []:
                    visit(h.body, prefix, class_mut)
    visit(tree.body, mod + ".", set())


def scan_source(src, mod):
    hits = []
    _scan_tree(ast.parse(src), mod, hits, [0])
    return hits


def scan_persistent_state(repo):
    """(hits outside the whitelist, all hits, number of functions scanned, whitelist entries that no longer match)"""
    hits, n_fn = [], [0]
    root = os.path.join(repo, "tensorly")
    for d, dirs, fs in sorted(os.walk(root)):
        if any(x in d.split(os.sep) for x in SCAN_SKIP_DIRS):
            continue
        for f in sorted(fs):
            if not f.endswith(".py") or f == "conftest.py":
                continue
            pth = os.path.join(d, f)
            import warnings
            try:
                with warnings.catch_warnings():
                    warnings.simplefilter("ignore")
                    tree = ast.parse(open(pth).read())
            except SyntaxError:
                hits.append({"function": os.path.relpath(pth, repo), "kind": "syntax-error", "name": "", "line": 0})
                continue
            mod = os.path.relpath(pth, repo)[:-3].replace(os.sep, ".")
            _scan_tree(tree, mod, hits, n_fn)
    import collections
    cnt = collections.Counter((h["function"], h["kind"], h["name"]) for h in hits)
    open_hits = []
    for h in hits:
        k = (h["function"], h["kind"], h["name"])
        if k not in SCAN_WHITELIST:
            open_hits.append(h)
        elif cnt[k] > SCAN_WHITELIST[k][0]:
            # more sites under a whitelisted key than were read by hand: which of them is the new one cannot be told, all are reported
            open_hits.append(dict(h, kind=h["kind"] + f" ({cnt[k]} sites, {SCAN_WHITELIST[k][0]} whitelisted)"))
    stale = sorted(k for k, (n, _) in SCAN_WHITELIST.items() if cnt.get(k, 0) < n)
    return open_hits, hits, n_fn[0], stale


# ============================================================================= (d) static: state kept on ESTIMATOR INSTANCES
# `self.x = v` is exempt in (c): an estimator object is meant to remember its fit.  What must not happen is that a FIT reads what an EARLIER fit of the same
# object left there (a warm start, a cached Gram matrix, `if not hasattr(self, "coef_")`): then the second fit's results carry the first fit's dtype.  In the
# terms of Model/DtypeHist.v the fitted attributes of the object are the persistent variables G of the session "the same object fitted again and again" and
# a fit method must be hist_free: no read of a fitted attribute that this call has not yet overwritten (must-define analysis over the statements: both
# branches of an `if`, zero iterations of a loop, every handler of a `try`).  Methods called on self are followed (fit -> fit_transform -> transform).
FIT_PREFIX = "fit"


def _self_attr(n):
    """'A' for the expression self.A, else None"""
    if isinstance(n, ast.Attribute) and isinstance(n.value, ast.Name) and n.value.id == "self":
        return n.attr
    return None


class _InstScan:
    def __init__(self, cls_node, qual, inherited=None):
        self.qual = qual
        self.methods = dict(inherited or {})        # methods of the library base classes (by simple name), overridden by the class's own
        self.methods.update({m.name: m for m in cls_node.body if isinstance(m, (ast.FunctionDef, ast.AsyncFunctionDef))})
        self.fitted = set()
        self.init_attrs = set()
        if "__init__" in self.methods:
            for n in ast.walk(self.methods["__init__"]):
                a = _self_attr(n)
                if a is not None and isinstance(n.ctx, ast.Store):
                    self.init_attrs.add(a)          # options stored by the constructor (a callback stored there may be called as self.callback(...))
        for name, m in self.methods.items():
            if name == "__init__":
                continue
            for n in ast.walk(m):
                a = _self_attr(n)
                if a is not None and isinstance(n.ctx, (ast.Store, ast.Del)):
                    self.fitted.add(a)
                # self.A[i] = v / self.A.b = v / self.A.append(v) / self.A += v: writes INTO a fitted object
                if isinstance(n, (ast.Subscript, ast.Attribute)) and isinstance(n.ctx, ast.Store):
                    d = _dotted(n)
                    if d and d[0] == "self" and len(d) >= 2:
                        self.fitted.add(d[1])
                if isinstance(n, ast.Call):
                    d = _dotted(n.func)
                    if d and d[0] == "self" and len(d) >= 3 and d[-1] in MUTATORS:
                        self.fitted.add(d[1])
                    if d and d[-1] == "setattr" and n.args and isinstance(n.args[0], ast.Name) and n.args[0].id == "self":
                        if len(n.args) > 1 and isinstance(n.args[1], ast.Constant) and isinstance(n.args[1].value, str):
                            self.fitted.add(n.args[1].value)
        self.fitted -= set(self.methods)
        self.summaries = {}     # method -> (exposed reads [(attr, line, via)], attributes certainly written at exit | None)
        self.active = set()

    # ---- expressions: reads of fitted attributes that are not yet defined
    def reads(self, node, defined, out, via):
        if node is None:
            return
        for n in ast.walk(node):
            a = _self_attr(n)
            if a is not None and isinstance(n.ctx, ast.Load):
                if a in self.fitted and a not in defined:
                    out.append((a, getattr(n, "lineno", 0), via))
            if isinstance(n, ast.Call):
                d = _dotted(n.func)
                if d and d[-1] in ("hasattr", "getattr") and len(d) == 1 and n.args and isinstance(n.args[0], ast.Name) and n.args[0].id == "self":
                    if len(n.args) > 1 and isinstance(n.args[1], ast.Constant) and isinstance(n.args[1].value, str):
                        a = n.args[1].value
                        if a in self.fitted and a not in defined:
                            out.append((a, n.lineno, via + d[-1] + "()"))
                    else:
                        out.append(("<computed attribute name>", n.lineno, via + d[-1] + "()"))
                if d and d[-1] == "vars" and len(d) == 1 and n.args and isinstance(n.args[0], ast.Name) and n.args[0].id == "self":
                    out.append(("<vars(self)>", n.lineno, via))
                if d and len(d) == 2 and d[0] == "self" and d[1] in self.methods:
                    ex, _ = self.summary(d[1])
                    for a, line, v2 in ex:
                        if a not in defined:
                            out.append((a, line, via + "self." + d[1] + "() -> " + v2))
                elif d and len(d) == 2 and d[0] == "self" and d[1] not in self.fitted and d[1] not in self.init_attrs and d[1] not in getattr(self, "abstract", ()):
                    out.append(("<self." + d[1] + "(): a method defined outside the library's classes, not followed>", n.lineno, via))
            if isinstance(n, ast.Attribute) and isinstance(n.value, ast.Name) and n.value.id == "self" and n.attr == "__dict__":
                out.append(("<self.__dict__>", n.lineno, via))

    def calls_defining(self, node):
        """attributes certainly written by the self.method() calls inside this expression / statement"""
        got = set()
        for n in ast.walk(node):
            if isinstance(n, ast.Call):
                d = _dotted(n.func)
                if d and len(d) == 2 and d[0] == "self" and d[1] in self.methods:
                    _, w = self.summary(d[1])
                    got |= (w or set())
        return got

    def store(self, target, defined, out, via):
        if isinstance(target, (ast.Tuple, ast.List)):
            for e in target.elts:
                self.store(e, defined, out, via)
        elif isinstance(target, ast.Starred):
            self.store(target.value, defined, out, via)
        else:
            a = _self_attr(target)
            if a is not None:
                defined.add(a)
            else:
                # self.A[i] = v / self.A.b = v: needs the old object (a read); x[self.k] = v: reads in the index
                for ch in ast.iter_child_nodes(target):
                    self.reads(ch, defined, out, via)

    # ---- statements: must-define analysis; `defined` None = unreachable (after return / raise)
    def block(self, stmts, defined, out, via):
        for st in stmts:
            if defined is None:
                return None
            defined = self.stmt(st, defined, out, via)
        return defined

    @staticmethod
    def meet(a, b):
        if a is None:
            return b
        if b is None:
            return a
        return a & b

    def stmt(self, st, defined, out, via):
        if isinstance(st, ast.Assign):
            self.reads(st.value, defined, out, via)
            defined = defined | self.calls_defining(st.value)
            for t in st.targets:
                self.store(t, defined, out, via)
            return defined
        if isinstance(st, ast.AnnAssign):
            self.reads(st.value, defined, out, via)
            if st.value is not None:
                defined = defined | self.calls_defining(st.value)
                self.store(st.target, defined, out, via)
            return defined
        if isinstance(st, ast.AugAssign):
            self.reads(st.value, defined, out, via)
            a = _self_attr(st.target)
            if a is not None:
                if a in self.fitted and a not in defined:
                    out.append((a, st.lineno, via + "augmented assignment"))
                defined = defined | {a}
            else:
                self.reads(st.target, defined, out, via)
            return defined
        if isinstance(st, (ast.Return, ast.Raise)):
            for ch in ast.iter_child_nodes(st):
                self.reads(ch, defined, out, via)
            return None
        if isinstance(st, ast.If):
            self.reads(st.test, defined, out, via)
            d0 = defined | self.calls_defining(st.test)
            return self.meet(self.block(st.body, set(d0), out, via), self.block(st.orelse, set(d0), out, via))
        if isinstance(st, (ast.For, ast.AsyncFor)):
            self.reads(st.iter, defined, out, via)
            d0 = defined | self.calls_defining(st.iter)
            self.store(st.target, d0, out, via)
            self.block(st.body, set(d0), out, via)
            r = self.block(st.orelse, set(d0), out, via)
            return d0 if r is None else self.meet(d0, r)
        if isinstance(st, ast.While):
            self.reads(st.test, defined, out, via)
            self.block(st.body, set(defined), out, via)
            r = self.block(st.orelse, set(defined), out, via)
            return defined if r is None else self.meet(defined, r)
        if isinstance(st, (ast.With, ast.AsyncWith)):
            for it in st.items:
                self.reads(it.context_expr, defined, out, via)
                if it.optional_vars is not None:
                    self.store(it.optional_vars, defined, out, via)
            return self.block(st.body, defined, out, via)
        if isinstance(st, ast.Try):
            b = self.block(st.body, set(defined), out, via)
            if b is not None:
                b = self.block(st.orelse, b, out, via)
            res = b
            for h in st.handlers:
                res_h = self.block(h.body, set(defined), out, via)      # the body may have failed before any of its stores
                res = res_h if res is None else self.meet(res, res_h)
            if st.finalbody:
                base = defined if res is None else res
                f = self.block(st.finalbody, set(base), out, via)
                return None if (res is None or f is None) else f
            return res
        if isinstance(st, (ast.FunctionDef, ast.AsyncFunctionDef, ast.ClassDef)):
            self.reads(st, defined, out, via + "nested " + st.name + ": ")      # a nested function may run at any later point: its reads count here
            return defined
        if isinstance(st, ast.Delete):
            for t in st.targets:
                a = _self_attr(t)
                if a is not None:
                    defined = defined - {a}
                else:
                    self.reads(t, defined, out, via)
            return defined
        # Expr, Assert, Pass, Global, Import, Match ...: every expression inside is read in place
        self.reads(st, defined, out, via)
        return defined | self.calls_defining(st)

    def summary(self, name):
        if name in self.summaries:
            return self.summaries[name]
        if name in self.active:
            return [], set()        # recursion: the outer activation reports
        self.active.add(name)
        out = []
        end = self.block(self.methods[name].body, set(), out, "")
        # what the method certainly writes: the stores on every path that reaches the end or a return (conservative: the fall-through / meet only)
        written = self._written_on_every_path(self.methods[name])
        self.active.discard(name)
        self.summaries[name] = (out, written)
        return self.summaries[name]

    def _written_on_every_path(self, m):
        """must-defined set at every exit (return or fall-through) of the method: the meet over all of them"""
        exits = []

        def walk(stmts, defined):
            for st in stmts:
                if defined is None:
                    return None
                if isinstance(st, ast.Return):
                    exits.append(set(defined) | self.calls_defining(st))
                    return None
                if isinstance(st, ast.Raise):
                    return None
                if isinstance(st, ast.If):
                    a, b = walk(st.body, set(defined)), walk(st.orelse, set(defined))
                    defined = self.meet(a, b) if not (a is None and b is None) else None
                    continue
                if isinstance(st, (ast.For, ast.AsyncFor, ast.While)):
                    walk(st.body, set(defined))
                    continue
                if isinstance(st, (ast.With, ast.AsyncWith)):
                    defined = walk(st.body, defined)
                    continue
                if isinstance(st, ast.Try):
                    walk(st.body, set(defined))
                    for h in st.handlers:
                        walk(h.body, set(defined))
                    if st.finalbody:
                        defined = walk(st.finalbody, defined)
                    continue
                dummy = []
                defined = self.stmt(st, defined, dummy, "")
            return defined
        end = walk(m.body, set())
        if end is not None:
            exits.append(end)
        if not exits:
            return set()
        r = exits[0]
        for e in exits[1:]:
            r = r & e
        return r


def _inherited_methods(c, by_name, depth=0):
    """methods of the base classes that are defined in the library (looked up by simple name), nearest base last-wins order reversed = MRO-like"""
    got = {}
    if depth > 6:
        return got
    for b in reversed(c.bases):
        d = _dotted(b)
        bc = by_name.get(d[-1]) if d else None
        if bc is not None and bc is not c:
            got.update(_inherited_methods(bc, by_name, depth + 1))
            got.update({m.name: m for m in bc.body if isinstance(m, (ast.FunctionDef, ast.AsyncFunctionDef))})
    return got


def scan_instance_tree(tree, mod, hits, classes, by_name=None):
    if by_name is None:
        by_name = {c.name: c for c in ast.walk(tree) if isinstance(c, ast.ClassDef)}
    for c in ast.walk(tree):
        if not isinstance(c, ast.ClassDef):
            continue
        sc = _InstScan(c, mod + "." + c.name, _inherited_methods(c, by_name))
        # an abstract protocol (DecompositionMixin.fit calls self.fit_transform): a method this class does not define but EVERY library subclass does is
        # analysed there, in the subclass, with this class's methods inherited
        subs = [c2 for c2 in by_name.values() if any((_dotted(b) or ["?"])[-1] == c.name for b in c2.bases)]
        sc.abstract = {m.name for c2 in subs for m in c2.body if isinstance(m, ast.FunctionDef)
                       if all(any(isinstance(m3, ast.FunctionDef) and m3.name == m.name for m3 in c3.body) for c3 in subs)} if subs else set()
        fits = sorted(n for n in sc.methods if n.startswith(FIT_PREFIX) or n.startswith("partial_fit"))
        if not fits:
            continue
        classes.append({"class": mod + "." + c.name, "fit_methods": fits, "fitted_attributes": sorted(sc.fitted),
                        "bases": [".".join(_dotted(b) or ["?"]) for b in c.bases]})
        seen = set()
        for f in fits:
            ex, _ = sc.summary(f)
            for a, line, via in ex:
                if (f, a, line) in seen:
                    continue
                seen.add((f, a, line))
                hits.append({"class": mod + "." + c.name, "method": f, "attribute": a, "line": line, "via": via})


def scan_instance_source(src, mod):
    hits, classes = [], []
    scan_instance_tree(ast.parse(src), mod, hits, classes)
    return hits, classes


def scan_instance_state(repo):
    """(hits: fit methods that read a fitted attribute before overwriting it, estimator classes found)"""
    hits, classes = [], []
    root = os.path.join(repo, "tensorly")
    trees = []
    for d, dirs, fs in sorted(os.walk(root)):
        if any(x in d.split(os.sep) for x in SCAN_SKIP_DIRS):
            continue
        for f in sorted(fs):
            if not f.endswith(".py") or f == "conftest.py":
                continue
            pth = os.path.join(d, f)
            import warnings
            try:
                with warnings.catch_warnings():
                    warnings.simplefilter("ignore")
                    trees.append((os.path.relpath(pth, repo)[:-3].replace(os.sep, "."), ast.parse(open(pth).read())))
            except SyntaxError:
                continue          # reported by scan_persistent_state
    by_name = {}
    for mod, tree in trees:
        for c in ast.walk(tree):
            if isinstance(c, ast.ClassDef):
                by_name.setdefault(c.name, c)
    for mod, tree in trees:
        scan_instance_tree(tree, mod, hits, classes, by_name)
    return hits, classes


if __name__ == "__main__":
    if len(sys.argv) > 1 and sys.argv[1] == "--scan":
        oh, hs, n, stale = scan_persistent_state(sys.argv[2] if len(sys.argv) > 2 else os.environ.get("VERIF_REPO", "/repo"))
        print(n, "functions scanned;", len(hs), "state sites;", len(oh), "outside the whitelist;", len(stale), "stale whitelist entries")
        for h in oh:
            print("OPEN ", h["kind"].ljust(28), h["function"], "|", h["name"], "| line", h["line"])
        for s in stale:
            print("STALE", s)
        ih, cl = scan_instance_state(sys.argv[2] if len(sys.argv) > 2 else os.environ.get("VERIF_REPO", "/repo"))
        print(len(cl), "estimator classes;", len(ih), "reads of fitted state before it is overwritten in a fit method")
        for c in cl:
            print("CLASS", c["class"], c["fit_methods"], c["fitted_attributes"])
        for h in ih:
            print("INST ", h)
    else:
        child_main()
