"""C19 -- tensor regressors predict with exactly the weights they expose.
Correspondence: Model/Regress.v vs tensorly/regression/{cp_regression,tucker_regression,cp_plsr}.py
  * predict on injected integer weights, bit-exact in Z (every per-sample order 1-3 / output shape, + rejected shapes)
  * after a real fit: the exposed float64 attributes are read as exact rationals; the model computes
    weight_tensor_ / vec_W_ from the factors and predict(X) from weight_tensor_ / vec_W_ in Q (1e-9);
    CP_PLSR X_mean_ / transform (X and Y branch) / predict from the fitted attributes in 70-bit fixed point (1e-9)
  * the whole of CP_PLSR.fit (inner power iteration, deflations, coefficients) with pinned pass counts and run to
    convergence with a margin-checked tolerance, the answers of initialize_cp and lstsq recorded from the
    implementation, in 70-bit fixed point (1e-8)
  * the fit loop of CPRegressor and TuckerRegressor (concrete ridge blocks, T.solve answers certified)
    on a tape of iterates: which iterate a run with a given (n_iter_max, tol) stores (1e-8)
Predicates (implementation only): the statements of the property, see reg_predicates / plsr_predicates /
plsr_sequences (multi-step sequences on ONE array object, compared with results from pristine copies; their last
results are the expected values of the Coq-evaluated transform / predict cases).
A per-call timeout (loaded machine) skips the case; a vacuity guard fails the check when most constructed
well-posed problems do not give a finite fit."""
import itertools, random
import numpy as np
from harness import common as C

HEADER = """From Coq Require Import List ZArith QArith Bool. Import ListNotations.
From TLV Require Import Base.Tensor Model.RegressObj Corr.C19.
Local Open Scope nat_scope."""

RT = 1e-9          # implementation vs exact arithmetic on the same stored numbers
RT2 = 1e-6         # two separate fits (shifted / permuted data): iterative algorithm stopped at tol 1e-9


# ----------------------------------------------------------------------------- implementation calls
class Skip(Exception):
    """a per-call timeout on a loaded machine: the case is skipped and counted, never a verdict"""


def call(fn, *args, **kw):
    out = C.call_impl(fn, *args, timeout=240, **kw)
    if out[0] == "crash" and out[1] == "timeout":
        raise Skip()
    return out


# ----------------------------------------------------------------------------- literals
def zt(a):
    a = np.asarray(a)
    return C.ztensor(a.shape, [int(v) for v in a.ravel().tolist()])


def qt(a):
    a = np.asarray(a, dtype=np.float64)
    return C.qtensor(a.shape, a.ravel().tolist())


def lst(xs):
    xs = list(xs)
    return "[" + "; ".join(xs) + "]" if xs else "[]"


def res_z(out):
    return f"(Ok {zt(out[1])})" if out[0] == "ok" else "Err"


def res_q(out):
    return f"(Ok {qt(out[1])})" if out[0] == "ok" else "Err"


def close(a, b, rt=RT):
    a = np.asarray(a, dtype=np.float64); b = np.asarray(b, dtype=np.float64)
    if a.shape != b.shape:
        return False
    if not (np.all(np.isfinite(a)) and np.all(np.isfinite(b))):
        return False
    scale = max(1.0, float(np.max(np.abs(a))) if a.size else 0.0, float(np.max(np.abs(b))) if b.size else 0.0)
    return bool(np.all(np.abs(a - b) <= rt * scale))


def finite_ok(*arrs):
    return all(np.all(np.isfinite(np.asarray(a))) and (np.asarray(a).size == 0 or np.max(np.abs(a)) < 1e6) for a in arrs)


def dyadic(rng, shape, denom=8, lo=-24, hi=24):
    n = int(np.prod(shape)) if len(shape) else 1
    return np.array([rng.randint(lo, hi) / denom for _ in range(n)], dtype=np.float64).reshape(shape)


def gauss(rng, shape, scale=1.0):
    n = int(np.prod(shape)) if len(shape) else 1
    return np.array([rng.gauss(0, scale) for _ in range(n)], dtype=np.float64).reshape(shape)


# ----------------------------------------------------------------------------- independent references
def contract(X, W):
    """sum over the non-sample modes of X with the leading modes of W (written with explicit loops over indices)"""
    X = np.asarray(X); W = np.asarray(W)
    k = X.ndim - 1
    sx = X.shape[1:]
    so = W.shape[k:]
    out = np.zeros((X.shape[0],) + tuple(so), dtype=np.result_type(X, W))
    for J in np.ndindex(*sx):
        out += X[(slice(None),) + J].reshape((-1,) + (1,) * len(so)) * W[J]
    return out


def cp_full(weights, factors):
    R = factors[0].shape[1]
    shape = tuple(f.shape[0] for f in factors)
    out = np.zeros(shape)
    for r in range(R):
        comp = np.array(1.0 if weights is None else weights[r])
        for f in factors:
            comp = np.multiply.outer(comp, f[:, r])
        out += comp
    return out


def tucker_full(core, factors):
    out = np.asarray(core)
    for k, f in enumerate(factors):
        out = np.moveaxis(np.tensordot(f, out, axes=(1, k)), 0, k)
    return out


# ----------------------------------------------------------------------------- exact predict cases (Z)
def z_predict_cases(tier, rng):
    """(kind, W or vecW, X) with integer entries; includes shapes both sides must reject"""
    dims = [1, 2, 3]
    sxs = [s for o in (1, 2, 3) for s in itertools.product(dims, repeat=o)]
    sos = [(), (1,), (2,), (3,), (2, 2), (1, 3), (3, 2)]
    ns = [1, 2, 3] if tier == "quick" else [1, 2, 3, 5, 8]
    out = []
    for sx in sxs:
        for so in sos:
            if tier == "quick" and len(sx) == 3 and (sum(sx) + len(so)) % 2:
                continue
            n = rng.choice(ns)
            W = np.array([rng.randint(-9, 9) for _ in range(int(np.prod(sx + so)))], dtype=np.int64).reshape(sx + so)
            X = np.array([rng.randint(-9, 9) for _ in range(n * int(np.prod(sx)))], dtype=np.int64).reshape((n,) + sx)
            out.append(("cp", W, X))
        n = rng.choice(ns)
        X = np.array([rng.randint(-9, 9) for _ in range(n * int(np.prod(sx)))], dtype=np.int64).reshape((n,) + sx)
        v = np.array([rng.randint(-9, 9) for _ in range(int(np.prod(sx)))], dtype=np.int64)
        out.append(("tucker", v, X))
        # weights flattened over the sample modes (ndim W <= ndim X - 1 takes the (-1,) branch)
        out.append(("cp", v.copy(), X))
        # mis-shaped requests
        out.append(("tucker", np.ones(int(np.prod(sx)) + 1, dtype=np.int64), X))
        out.append(("cp", np.ones(sx + (2,), dtype=np.int64)[..., :1].reshape(sx + (1,))[tuple(slice(0, max(1, d - 1)) for d in sx)], X))
        out.append(("cp", np.arange(int(np.prod(sx)) * 2 + 1, dtype=np.int64), X))
    # size-0 modes: zero samples, an empty per-sample mode, an empty output mode (both sides must agree on value or rejection)
    for sx, so in (((2,), ()), ((2, 3), (2,)), ((0,), (3,)), ((2, 0), ()), ((2,), (0,)), ((0, 2), (0,)), ((3,), (2, 0)), ((0,), ())):
        for n in (0, 2):
            W = np.array([rng.randint(-9, 9) for _ in range(int(np.prod(sx + so)))], dtype=np.int64).reshape(sx + so)
            X = np.array([rng.randint(-9, 9) for _ in range(n * int(np.prod(sx)))], dtype=np.int64).reshape((n,) + sx)
            out.append(("cp", W, X))
            if so == ():
                out.append(("tucker", W.reshape(-1), X))
    # sample vector without non-sample modes: partial_tensor_to_vec raises
    out.append(("cp", np.ones((2,), dtype=np.int64), np.arange(3, dtype=np.int64)))
    out.append(("tucker", np.ones((2,), dtype=np.int64), np.arange(3, dtype=np.int64)))
    return out


def impl_predict_cp(W, X):
    from tensorly.regression.cp_regression import CPRegressor
    r = CPRegressor(weight_rank=1, verbose=0)
    r.weight_tensor_ = W
    return r.predict(X)


def impl_predict_tucker(v, X):
    from tensorly.regression.tucker_regression import TuckerRegressor
    r = TuckerRegressor(weight_ranks=[1], verbose=0)
    r.vec_W_ = v
    return r.predict(X)


# ----------------------------------------------------------------------------- fitted regressors
def reg_problems(tier, rng):
    """CP / Tucker regression problems: sample counts 2-8, per-sample orders 1-3, scalar and tensor targets"""
    probs = []
    nfit = 24 if tier == "quick" else 200
    for k in range(nfit):
        kind = "cp" if k % 3 != 2 else "tucker"
        order = rng.choice([2, 2, 3]) if kind == "tucker" else rng.choice([1, 2, 2, 3])
        sx = tuple(rng.randint(1 if order > 1 else 2, 3) for _ in range(order))
        n = rng.randint(2, 8)
        if kind == "cp":
            so = rng.choice([(), (), (1,), (2,), (3,), (2, 2), (2, 1)])
            if order == 1 and so == ():
                so = (2,)        # CPRegressor.fit raises on matrix X with a scalar target (outside the statement)
            rank = rng.randint(1, 3)
        else:
            so = ()
            rank = [rng.randint(1, 2) for _ in sx]
        reg = rng.choice([0.01, 0.5, 1, 1, 3.0, 10])
        seed = rng.randint(0, 10 ** 6)
        n_iter = rng.choice([1, 2, 3, 5, 10, 25])
        X = gauss(rng, (n,) + sx)
        y = gauss(rng, (n,) + so) + 0.5
        Xn = dyadic(rng, (rng.randint(1, 4),) + sx)
        prob = dict(kind=kind, X=X, y=y, Xn=Xn, rank=rank, reg=reg, seed=seed, n_iter=n_iter)
        if k % 4 == 3:
            prob["tol"] = 1e-14          # never converges: n_iter_max is exhausted
        probs.append(prob)
    # fits that leave the loop through the convergence test (break), at several tolerances: the weight tensor the object exposes
    # must be the reconstruction of the factors it exposes whichever way the loop ends (compared at 1e-12, predicates only)
    tols = [1e-1, 1e-2, 1e-3, 1e-4, None]
    for k in range(10 if tier == "quick" else 40):
        kind = "cp" if k % 5 != 4 else "tucker"
        sx = (rng.randint(2, 3), rng.randint(2, 3))
        n = rng.randint(5, 8)
        so = rng.choice([(), (2,)]) if kind == "cp" else ()
        rank = rng.randint(1, 2) if kind == "cp" else [rng.randint(1, 2) for _ in sx]
        prob = dict(kind=kind, X=gauss(rng, (n,) + sx), y=gauss(rng, (n,) + so) + 0.5, Xn=dyadic(rng, (2,) + sx), rank=rank, reg=rng.choice([0.5, 1, 3.0]),
                    seed=rng.randint(0, 10 ** 6), n_iter=400, pred_only=True, want_stop="tolerance")
        if tols[(k // 5 + k) % 5] is not None:
            prob["tol"] = tols[(k // 5 + k) % 5]
        probs.append(prob)
    return probs


def tolkw(p):
    return {"tol": float(p["tol"])} if "tol" in p else {}


def fit_reg(p):
    from tensorly.regression.cp_regression import CPRegressor
    from tensorly.regression.tucker_regression import TuckerRegressor
    if p["kind"] == "cp":
        r = CPRegressor(weight_rank=p["rank"], reg_W=p["reg"], n_iter_max=p["n_iter"], random_state=p["seed"], verbose=0, **tolkw(p))
    else:
        r = TuckerRegressor(weight_ranks=list(p["rank"]), reg_W=p["reg"], n_iter_max=p["n_iter"], random_state=p["seed"], verbose=0, **tolkw(p))
    return r.fit(p["X"].copy(), p["y"].copy())


def reg_predicates(p, r):
    """statements of the property on the implementation's outputs; returns list of (predicate, message)"""
    bad = []
    W = np.asarray(r.weight_tensor_)
    if p["kind"] == "cp":
        weights, factors = r.cp_weight_
        full = cp_full(None if weights is None else np.asarray(weights), [np.asarray(f) for f in factors])
        mag = cp_full(None if weights is None else np.abs(np.asarray(weights)), [np.abs(np.asarray(f)) for f in factors])
        name = "cp_to_tensor(cp_weight_)"
    else:
        core, factors = r.tucker_weight_
        full = tucker_full(np.asarray(core), [np.asarray(f) for f in factors])
        mag = tucker_full(np.abs(np.asarray(core)), [np.abs(np.asarray(f)) for f in factors])
        name = "tucker_to_tensor(tucker_weight_)"
    # the same float64 factors evaluated in two orders: the rounding error of either evaluation is a few ulp of the sum of the
    # ABSOLUTE values of the terms (which can exceed |W| by orders of magnitude on a degenerate CP fit), so that sum is the scale
    tolW = 1e-12 * max(1.0, float(np.max(mag)) if mag.size and np.all(np.isfinite(mag)) else 1.0)
    if W.shape != full.shape or not np.all(np.isfinite(W)) or not np.all(np.abs(W - full) <= tolW):
        bad.append(("C19_weight_is_reconstruction", f"weight_tensor_ != {name}: max diff {np.max(np.abs(W - full)) if W.shape == full.shape else 'shape ' + str(W.shape) + ' vs ' + str(full.shape)}"))
    v = np.asarray(r.vec_W_)
    if v.shape != (W.size,) or not close(v, W.reshape(-1), 1e-12):
        bad.append(("C19_vec_is_vectorisation", f"vec_W_ != tensor_to_vec(weight_tensor_) (shape {v.shape})"))
    for nm, Xq in (("train", p["X"]), ("new", p["Xn"])):
        obj = Xq.copy()                      # ONE array object handed to predict twice; references from the pristine Xq
        st, pr = call(r.predict, obj)
        if st != "ok":
            bad.append(("C19_predict_is_contraction", f"predict({nm} X) raised after a successful fit: {pr}"))
            continue
        st2, pr2 = call(r.predict, obj)
        if st2 != "ok" or not close(pr2, contract(Xq, W)):
            bad.append(("C19_predict_is_contraction", f"second predict({nm} X) on the same array object != tensordot(X, weight_tensor_)"))
        ref = contract(Xq, W)
        if not close(pr, ref):
            bad.append(("C19_predict_is_contraction", f"predict({nm} X) != tensordot(X, weight_tensor_): shapes {np.shape(pr)} / {ref.shape}"))
        ref2 = contract(Xq, full)
        if not close(pr, ref2):
            bad.append(("C19_predict_is_contraction_of_factors", f"predict({nm} X) != tensordot(X, reconstruction of the exposed factors)"))
    return bad


def reg_cases(p, r, cid):
    """Coq cases for one fitted regressor"""
    cs = []
    W = np.asarray(r.weight_tensor_, dtype=np.float64)
    v = np.asarray(r.vec_W_, dtype=np.float64)
    Xn = p["Xn"]
    obj = Xn.copy()
    call(r.predict, obj)
    pr = call(r.predict, obj)               # the model (given the pristine Xn) is compared with the SECOND call on one object
    if p["kind"] == "cp":
        weights, factors = r.cp_weight_
        fl = lst(qt(f) for f in factors)
        cs.append(f"KFitCP {qt(weights)} {fl} {qt(W)} {qt(v)}")
        cs.append(f"KPredCPQ {qt(W)} {qt(Xn)} {res_q(pr)}")
        cs.append(f"KRegCP {qt(weights)} {fl} {qt(Xn)} {res_q(pr)}")
    else:
        core, factors = r.tucker_weight_
        fl = lst(qt(f) for f in factors)
        cs.append(f"KFitTK {qt(core)} {fl} {qt(W)} {qt(v)}")
        cs.append(f"KPredTKQ {qt(v)} {qt(Xn)} {res_q(pr)}")
        cs.append(f"KRegTK {qt(core)} {fl} {qt(Xn)} {res_q(pr)}")
    return cs


# ----------------------------------------------------------------------------- CP_PLSR
def plsr_problems(tier, rng):
    probs = []
    nfit = 20 if tier == "quick" else 150
    for k in range(nfit):
        order = rng.choice([1, 2, 2, 3])
        if k % 5 == 1:
            order = 1            # X is a matrix (the branch of fit that normalises Z itself): present for every seed
        sx = tuple(rng.randint(2, 3) for _ in range(order))
        n = rng.randint(3, 8) if k % 6 else 2
        m = rng.choice([0, 1, 2, 3])           # 0: vector-valued Y (1-D)
        cmax = max(1, min(3, n - 2, int(np.prod(sx)) - 1))
        ncomp = cmax if k % 2 else rng.randint(1, cmax)
        X = gauss(rng, (n,) + sx)
        # Y correlated with X so that the covariance direction is well separated
        B = gauss(rng, (int(np.prod(sx)), max(m, 1)))
        Y = X.reshape(n, -1) @ B + 0.3 * gauss(rng, (n, max(m, 1)))
        if m == 0:
            Y = Y[:, 0]
        Xn = dyadic(rng, (rng.randint(1, 4),) + sx)
        c = dyadic(rng, sx, denom=4, lo=-20, hi=20)
        d = dyadic(rng, (max(m, 1),), denom=4, lo=-20, hi=20)
        perm = list(range(n)); rng.shuffle(perm)
        # mostly converged fits (default n_iter_max = 100, tol = 1e-9); every fourth one is stopped after 1-3 passes
        # (tol = 0): the statements hold for every number of passes
        n_iter, tol = (rng.choice([1, 2, 3]), 0.0) if k % 4 == 1 else (100, 1e-9)
        probs.append(dict(kind="plsr", X=X, y=Y, Xn=Xn, ncomp=ncomp, c=c, d=d, perm=perm, n_iter=n_iter, tol=tol))
    return probs


def fit_plsr(X, Y, ncomp, n_iter=100, tol=1e-9):
    from tensorly.regression.cp_plsr import CP_PLSR
    return CP_PLSR(n_components=ncomp, tol=tol, n_iter_max=n_iter, random_state=0).fit(X.copy(), Y.copy())


def plsr_wellposed(r):
    """every component must carry signal: a deflated-to-zero X or Y makes the normalisations 0/0"""
    T = np.asarray(r.X_factors[0])
    arrs = list(r.X_factors) + list(r.Y_factors) + [r.coef_]
    if not finite_ok(*arrs):
        return False
    return bool(np.all(np.linalg.norm(T, axis=0) > 1e-3) and np.all(np.linalg.norm(np.asarray(r.Y_factors[0]), axis=0) > 1e-3))


def plsr_predicates(p, r):
    bad = []
    X, Y, Xn, c, d, perm = p["X"], p["y"], p["Xn"], p["c"], p["d"], p["perm"]
    T = np.asarray(r.X_factors[0])
    st, tr = call(r.transform, X.copy())
    if st != "ok" or not close(tr, T, 1e-8):
        bad.append(("C19_plsr_transform_train", f"transform(X_train) != fitted X scores ({st})"))
    for k, f in enumerate(list(r.X_factors[1:]) + [r.Y_factors[1]]):
        nr = np.linalg.norm(np.asarray(f), axis=0)
        if not np.all(np.abs(nr - 1) <= 1e-9):
            bad.append(("C19_plsr_unit_norm", f"loading matrix {k} has column norms {nr.tolist()}"))
    # transform(X_train, Y_train) also returns the fitted Y scores
    st, trxy = call(r.transform, X.copy(), Y.copy())
    if st == "ok" and isinstance(trxy, tuple) and len(trxy) == 2:
        if not close(trxy[0], T, 1e-8) or not close(trxy[1], np.asarray(r.Y_factors[0]), 1e-8):
            bad.append(("C19_plsr_transform_train", "transform(X_train, Y_train) != (fitted X scores, fitted Y scores)"))
    else:
        bad.append(("C19_plsr_transform_train", f"transform(X_train, Y_train) did not return a pair of score matrices after a successful fit ({st}: {str(trxy)[:120]})"))
    st, base = call(r.predict, Xn.copy())
    if st != "ok":
        bad.append(("C19_plsr_predict", f"predict raised after a successful fit: {base}"))
        return bad, False
    # predictions are made with the exposed weights: scores of the new data times coef_ times the Y loadings, plus the offset
    st, trn = call(r.transform, Xn.copy())
    if st == "ok":
        ref = np.asarray(trn) @ np.asarray(r.coef_) @ np.asarray(r.Y_factors[1]).T + np.asarray(r.Y_mean_)
        if not close(base, ref, 1e-8):
            bad.append(("C19_plsr_predict", "predict(X) != transform(X) @ coef_ @ Y_factors[1].T + Y_mean_"))
    # shift invariance
    dd = d if np.ndim(Y) == 2 else d[0]
    st2, r2 = call(fit_plsr, X + c, Y + dd, p["ncomp"], p.get("n_iter", 100), p.get("tol", 1e-9))
    comparable = True
    if st2 != "ok":
        bad.append(("C19_plsr_shift", f"fit on shifted data raised: {r2}"))
    elif not plsr_wellposed(r2):
        comparable = False
    else:
        for nm, a, b in [(f"X_factors[{k}]", r.X_factors[k], r2.X_factors[k]) for k in range(len(r.X_factors))] + \
                        [(f"Y_factors[{k}]", r.Y_factors[k], r2.Y_factors[k]) for k in range(2)] + [("coef_", r.coef_, r2.coef_)]:
            if not close(a, b, RT2):
                bad.append(("C19_plsr_shift", f"{nm} changed when a constant tensor was added to every sample of X and a constant to Y"))
        st3, p2 = call(r2.predict, Xn + c)
        if st3 != "ok" or not close(np.asarray(p2) - d, base, RT2):
            bad.append(("C19_plsr_shift", "predict(X + c) - d differs from predict(X) of the unshifted fit"))
    # sample permutation
    st4, r4 = call(fit_plsr, X[perm], Y[perm], p["ncomp"], p.get("n_iter", 100), p.get("tol", 1e-9))
    if st4 != "ok":
        bad.append(("C19_plsr_perm", f"fit on permuted samples raised: {r4}"))
    elif not plsr_wellposed(r4):
        comparable = False
    else:
        if not close(np.asarray(r.X_factors[0])[perm], r4.X_factors[0], RT2) or not close(np.asarray(r.Y_factors[0])[perm], r4.Y_factors[0], RT2):
            bad.append(("C19_plsr_perm", "scores are not permuted consistently with the samples"))
        for k in range(1, len(r.X_factors)):
            if not close(r.X_factors[k], r4.X_factors[k], RT2):
                bad.append(("C19_plsr_perm", f"X_factors[{k}] changed under a permutation of the samples"))
        if not close(r.Y_factors[1], r4.Y_factors[1], RT2) or not close(r.coef_, r4.coef_, RT2):
            bad.append(("C19_plsr_perm", "Y loadings / coef_ changed under a permutation of the samples"))
        st5, p4 = call(r4.predict, Xn.copy())
        if st5 != "ok" or not close(p4, base, RT2):
            bad.append(("C19_plsr_perm", "predictions changed under a permutation of the training samples"))
    return bad, comparable


def plsr_sequences(p, r):
    """multi-step sequences on ONE array object (the statements hold for every call, so a call must not depend on what
    earlier calls did to the caller's array); every result is compared with the one obtained from a pristine copy.
    -> (predicate failures, outputs of the LAST calls, used as expected values of the Coq cases)"""
    bad, out = [], {}
    X, Y, Xn = p["X"], p["y"], p["Xn"]
    T, U = np.asarray(r.X_factors[0]), np.asarray(r.Y_factors[0])
    ok = lambda o: o[0] == "ok"
    ref_pred_train = call(r.predict, X.copy()); ref_pred_new = call(r.predict, Xn.copy()); ref_tr_new = call(r.transform, Xn.copy())
    if not (ok(ref_pred_train) and ok(ref_pred_new) and ok(ref_tr_new)):
        return bad, out          # reported by the single-call predicates
    # 1. transform(X) twice, then transform(X, Y), then predict(X), all on the same objects
    A, Yo = X.copy(), np.array(Y, copy=True)
    t1 = call(r.transform, A); t2 = call(r.transform, A)
    if not (ok(t1) and close(t1[1], T, 1e-8)) or not (ok(t2) and close(t2[1], T, 1e-8)):
        bad.append(("C19_plsr_transform_train", "transform(X_train) called twice on the same array object does not return the fitted scores both times"))
    txy = call(r.transform, A, Yo)
    if ok(txy) and isinstance(txy[1], tuple) and len(txy[1]) == 2:
        if not close(txy[1][0], T, 1e-8) or not close(txy[1][1], U, 1e-8):
            bad.append(("C19_plsr_transform_train", "transform(X_train, Y_train) after two transform(X_train) calls on the same array object != fitted scores"))
        out["ty"] = txy[1][1]
    pa = call(r.predict, A)
    if not (ok(pa) and close(pa[1], ref_pred_train[1], 1e-8)):
        bad.append(("C19_plsr_predict", "predict(X) after transform(X) / transform(X, Y) on the same array object != predict of a pristine copy"))
    if ok(t2):
        out["t_train"] = t2[1]
    if ok(pa):
        out["p_train"] = pa[1]
    # 2. new data: transform, predict, transform on one object
    B = Xn.copy()
    b1 = call(r.transform, B); pb = call(r.predict, B); b2 = call(r.transform, B)
    if not (ok(b1) and ok(b2) and close(b1[1], ref_tr_new[1], 1e-8) and close(b2[1], ref_tr_new[1], 1e-8)):
        bad.append(("C19_plsr_transform_train", "transform(X_new) repeated on the same array object (with a predict in between) changes its result"))
    if not (ok(pb) and close(pb[1], ref_pred_new[1], 1e-8)):
        bad.append(("C19_plsr_predict", "predict(X_new) after transform(X_new) on the same array object != predict of a pristine copy"))
    if ok(b2):
        out["t_new"] = b2[1]
    if ok(pb):
        out["p_new"] = pb[1]
    # 3. fit_transform(X, Y), then predict(X) and transform(X) on the same objects
    from tensorly.regression.cp_plsr import CP_PLSR
    r2 = CP_PLSR(n_components=p["ncomp"], tol=p.get("tol", 1e-9), n_iter_max=p.get("n_iter", 100), random_state=0)
    A2, Y2o = X.copy(), np.array(Y, copy=True)
    ft = call(r2.fit_transform, A2, Y2o)
    if ok(ft) and isinstance(ft[1], tuple) and len(ft[1]) == 2:
        if not close(ft[1][0], T, 1e-8) or not close(ft[1][1], U, 1e-8):
            bad.append(("C19_plsr_transform_train", "fit_transform(X, Y) != fitted scores of fit(X, Y)"))
        p2 = call(r2.predict, A2); t3 = call(r2.transform, A2)
        if not (ok(p2) and close(p2[1], ref_pred_train[1], 1e-8)):
            bad.append(("C19_plsr_predict", "predict(X) after fit_transform(X, Y) on the same array object != predict of a pristine copy"))
        if not (ok(t3) and close(t3[1], T, 1e-8)):
            bad.append(("C19_plsr_transform_train", "transform(X) after fit_transform(X, Y) and predict(X) on the same array object != fitted scores"))
    return bad, out


def plsr_cases(p, r):
    """the expected values are the results of the LAST calls of the multi-step sequences on one array object (plsr_sequences);
    the model is given the pristine data"""
    cs = []
    X, Xn = p["X"], p["Xn"]
    ncomp = p["ncomp"]
    seq = p.get("_seq", {})
    loads = lst(lst(qt(np.asarray(f)[:, c]) for f in r.X_factors[1:]) for c in range(ncomp))
    xm, ym = np.asarray(r.X_mean_), np.asarray(r.Y_mean_)
    for Xq, key in ((X, "t_train"), (Xn, "t_new")):
        st, tr = ("ok", seq[key]) if key in seq else call(r.transform, Xq.copy())
        if st == "ok":
            cs.append(f"KPlsrTransform {qt(xm)} {loads} {qt(Xq)} {qt(tr)}")
    for Xq, key in ((Xn, "p_new"), (X, "p_train")):
        st, pr = ("ok", seq[key]) if key in seq else call(r.predict, Xq.copy())
        if st == "ok":
            cs.append(f"KPlsrPredict {qt(xm)} {qt(ym)} {loads} {qt(r.coef_)} {qt(r.Y_factors[1])} {qt(Xq)} {qt(pr)}")
    cs.append(f"KMean {qt(X)} {qt(xm)}")
    # score(X, Y) of a matrix-valued target: R2 of the predictions the model computes from the exposed attributes
    if np.ndim(p["y"]) == 2:
        st, sc = call(r.score, X.copy(), np.array(p["y"], dtype=np.float64))
        den = float(np.linalg.norm(np.asarray(p["y"]) - ym) ** 2)
        if st == "ok" and np.isfinite(sc) and den > 1e-6 and abs(sc) < 1e6:
            cs.append(f"KPlsrScore {qt(xm)} {qt(ym)} {loads} {qt(r.coef_)} {qt(r.Y_factors[1])} {qt(X)} {qt(p['y'])} {C.q(float(sc))}")
    # the Y branch of transform on the training data
    Y2 = np.asarray(p["y"], dtype=np.float64)
    Y2 = Y2.reshape(-1, 1) if Y2.ndim == 1 else Y2
    st, trxy = ("ok", (None, seq["ty"])) if "ty" in seq else call(r.transform, X.copy(), Y2.copy())
    if st == "ok" and isinstance(trxy, tuple) and len(trxy) == 2:
        coef = np.asarray(r.coef_, dtype=np.float64)
        yl = np.asarray(r.Y_factors[1], dtype=np.float64)
        ys = np.asarray(trxy[1], dtype=np.float64)
        bs = lst(C.q_list(coef[:, c].tolist()) for c in range(ncomp))
        qs = lst(qt(yl[:, c]) for c in range(ncomp))
        exp = lst(C.q_list(ys[:, c].tolist()) for c in range(ncomp))
        cs.append(f"KPlsrTransformY {qt(xm)} {qt(ym)} {loads} {bs} {qs} {qt(X)} {qt(Y2)} {exp}")
    return cs


# ----------------------------------------------------------------------------- CP_PLSR.fit, whole (fixed pass counts)
def plsr_fit_problems(tier, rng):
    """small problems on which the number of passes of the inner iteration is pinned: tol = 0 (never stops early,
    exactly n_iter_max passes) or tol = 1e300 (stops after the second pass)"""
    probs = []
    nfit = 12 if tier == "quick" else 72
    for k in range(nfit):
        order = rng.choice([1, 2, 2, 3])
        if k % 5 == 0:
            order = 1            # X is a matrix: the whole-fit correspondence sees that branch for every seed
        sx = tuple(rng.randint(2, 3) for _ in range(order))
        n = rng.randint(3, 7)
        m = rng.choice([0, 1, 2, 3])
        cmax = max(1, min(3, n - 2, int(np.prod(sx)) - 1))
        ncomp = cmax if k % 2 else rng.randint(1, cmax)
        X = dyadic(rng, (n,) + sx, denom=16, lo=-48, hi=48)
        B = dyadic(rng, (int(np.prod(sx)), max(m, 1)), denom=4, lo=-8, hi=8)
        Y = X.reshape(n, -1) @ B + 0.25 * dyadic(rng, (n, max(m, 1)), denom=8, lo=-16, hi=16)
        if m == 0:
            Y = Y[:, 0]
        if k % 4 == 3:
            tol, n_iter = 1e300, rng.choice([2, 5, 50])
        else:
            tol, n_iter = 0.0, rng.choice([1, 1, 2, 3, 4] if tier == "quick" else [1, 1, 2, 3, 4, 8, 30])
        probs.append(dict(kind="plsr_fit", X=X, y=Y, ncomp=ncomp, n_iter=n_iter, tol=tol))
    return probs


def plsr_conv_problems(tier, rng):
    """the same small problems run to convergence with a real tolerance (n_iter_max = 100): the model follows the
    stopping test; a case is compared only where the model's decisions have a factor-2 margin (decided in Coq)"""
    want = 6 if tier == "quick" else 48
    probs = []
    while len(probs) < want:       # a single-column Y converges in one pass: keep the problems with >= 2 columns
        probs += [p for p in plsr_fit_problems(tier, rng) if np.ndim(p["y"]) == 2 and p["y"].shape[1] >= 2]
    probs = probs[:want]
    for k, p in enumerate(probs):
        p["tol"] = None          # chosen from a pilot, see plsr_conv_tol
        p["n_iter"] = 100
        p["ctor"] = "KPlsrFitConv"
        p["kind"] = "plsr_conv"
        if k % 3:
            p["ncomp"] = 1
    return probs


PILOT = 9


def plsr_conv_tol(p):
    """pilot: the Y scores of the first component after 1..PILOT passes (tol = 0) give the distances the stopping
    test sees; pick a tolerance in the widest gap between two consecutive distances (>= 3 passes needed, factor >= 2; the model asks for a margin of 1.25 on both sides)"""
    us = []
    for k in range(1, PILOT + 1):
        st, r = call(fit_plsr_opts, p["X"], p["y"], 1, k, 0.0)
        if st != "ok" or not finite_ok(r.Y_factors[0]):
            return None
        us.append(np.asarray(r.Y_factors[0], dtype=np.float64)[:, 0])
    d = {k: float(np.linalg.norm(us[k - 1] - us[k - 2])) for k in range(2, PILOT + 1)}     # test made in pass k
    best = None
    for j in range(3, PILOT + 1):
        before = min(d[k] for k in range(2, j))
        if d[j] > 1e-13 and before > 2 * d[j] and (best is None or before / d[j] > best[0]):
            best = (before / d[j], float(np.sqrt(before * d[j])))
    return None if best is None else best[1]


def fit_plsr_opts(X, Y, ncomp, n_iter, tol):
    from tensorly.regression.cp_plsr import CP_PLSR
    return CP_PLSR(n_components=ncomp, tol=tol, n_iter_max=n_iter, random_state=0).fit(X.copy(), Y.copy())


def plsr_tapes(r, X, Y, ncomp):
    """the answers of the two black boxes of the model, recorded from a fitted object: lstsq's from coef_, initialize_cp's by
    calling it on the Z of every component (Z recomputed from the exposed factors with the deflation formula of the source).
    -> (list of itape entries, list of btape entries) or a status string"""
    from tensorly.decomposition._cp import initialize_cp
    Xf = [np.asarray(f, dtype=np.float64) for f in r.X_factors]
    Yf = [np.asarray(f, dtype=np.float64) for f in r.Y_factors]
    coef = np.asarray(r.coef_, dtype=np.float64)
    Y2 = Y.reshape(-1, 1) if Y.ndim == 1 else Y
    Xc = X - np.mean(X, axis=0)
    Yc = Y2 - np.mean(Y2, axis=0)
    itape = []
    for c in range(ncomp):
        Z = np.tensordot(Xc, Yc[:, 0], axes=((0,), (0,)))
        if np.linalg.norm(Z) < 1e-6:
            return "ill-conditioned"
        if Z.ndim >= 2:
            # the answer of the SVD initialisation is only well determined when the leading singular value of every
            # unfolding is separated
            for k in range(Z.ndim):
                sv = np.linalg.svd(np.moveaxis(Z, k, 0).reshape(Z.shape[k], -1), compute_uv=False)
                if len(sv) > 1 and (sv[0] - sv[1]) < 1e-3 * sv[0]:
                    return "ill-conditioned"
        st2, kt = call(initialize_cp, Z.copy(), 1, normalize_factors=True)
        if st2 != "ok":
            return "init-raised"
        ans = [np.asarray(f, dtype=np.float64).reshape(-1) for f in kt.factors]
        itape.append(f"({qt(Z)}, {lst(qt(a) for a in ans)})")
        t = Xf[0][:, c]
        outer = t
        for f in Xf[1:]:
            outer = np.multiply.outer(outer, f[:, c])
        Xc = Xc - outer
        Yc = Yc - np.outer(Xf[0][:, :c + 1] @ coef[:c + 1, c], Yf[1][:, c])
    btape = [C.q_list(coef[:c + 1, c].tolist()) for c in range(ncomp)]
    return itape, btape


def plsr_fit_case(p):
    """-> (status, coq case or None).  The answers of the two black boxes of the model are recorded from the
    implementation: lstsq's from coef_, initialize_cp's by calling it on the Z of every component (Z recomputed
    from the exposed factors with the deflation formula of the source)."""
    X, Y, ncomp = p["X"], p["y"], p["ncomp"]
    if p.get("ctor") == "KPlsrFitConv" and p["tol"] is None:
        p["tol"] = plsr_conv_tol(p)
        if p["tol"] is None:
            return "no-margin", None
    st, r = call(fit_plsr_opts, X, Y, ncomp, p["n_iter"], p["tol"])
    if st != "ok":
        return "fit-raised", None
    if not plsr_wellposed(r):
        return "ill-conditioned", None
    Xf = [np.asarray(f, dtype=np.float64) for f in r.X_factors]
    Yf = [np.asarray(f, dtype=np.float64) for f in r.Y_factors]
    Y2 = Y.reshape(-1, 1) if Y.ndim == 1 else Y
    tp = plsr_tapes(r, X, Y, ncomp)
    if isinstance(tp, str):
        return tp, None
    itape, btape = tp
    btape = lst(btape)
    e_loads = lst(lst(qt(f[:, c]) for f in Xf[1:]) for c in range(ncomp))
    e_scores = lst(C.q_list(Xf[0][:, c].tolist()) for c in range(ncomp))
    e_yloads = lst(qt(Yf[1][:, c]) for c in range(ncomp))
    e_yscores = lst(C.q_list(Yf[0][:, c].tolist()) for c in range(ncomp))
    case = (f"{p.get('ctor', 'KPlsrFit')} {C.nat(p['n_iter'])} {C.nat(ncomp)} {C.q(min(p['tol'], 1e30))} {lst(itape)} {btape} {qt(X)} {qt(Y2)} "
            f"{e_loads} {e_scores} {e_yloads} {e_yscores}")
    cases = [case]
    if p.get("ctor") is None:
        # the two-fit statements under the Coq-evaluated correspondence: the implementation is run on re-ordered / shifted data,
        # the model on the ORIGINAL data (answer tapes of the original run): shift -> same loadings and scores; permutation ->
        # same loadings, scores re-ordered by pick
        perm = list(range(X.shape[0])); random.Random(int(abs(float(X.ravel()[0])) * 1e6) + X.size).shuffle(perm)
        cshift = 0.25 * np.arange(1, int(np.prod(X.shape[1:])) + 1, dtype=np.float64).reshape(X.shape[1:]) - 1.0
        dshift = 0.5 * np.arange(1, Y2.shape[1] + 1, dtype=np.float64) - 2.0
        def expected(rr, cname, extra=""):
            Xg = [np.asarray(f, dtype=np.float64) for f in rr.X_factors]; Yg = [np.asarray(f, dtype=np.float64) for f in rr.Y_factors]
            return (f"{cname} {extra}{C.nat(p['n_iter'])} {C.nat(ncomp)} {C.q(min(p['tol'], 1e30))} {lst(itape)} {btape} {qt(X)} {qt(Y2)} "
                    f"{lst(lst(qt(f[:, c]) for f in Xg[1:]) for c in range(ncomp))} {lst(C.q_list(Xg[0][:, c].tolist()) for c in range(ncomp))} "
                    f"{lst(qt(Yg[1][:, c]) for c in range(ncomp))} {lst(C.q_list(Yg[0][:, c].tolist()) for c in range(ncomp))}")
        st3, r3 = call(fit_plsr_opts, X[perm], (Y2 if Y.ndim == 2 else Y)[perm], ncomp, p["n_iter"], p["tol"])
        if st3 == "ok" and plsr_wellposed(r3):
            cases.append(expected(r3, "KPlsrFitPerm", C.nat_list(perm) + " "))
        st4, r4 = call(fit_plsr_opts, X + cshift, (Y2 + dshift) if Y.ndim == 2 else (Y + dshift[0]), ncomp, p["n_iter"], p["tol"])
        if st4 == "ok" and plsr_wellposed(r4):
            cases.append(expected(r4, "KPlsrFit"))
    return "ok", cases


# ----------------------------------------------------------------------------- the regressors' fit loop
def loop_problems(tier, rng):
    probs = []
    nfit = 6 if tier == "quick" else 36
    for k in range(nfit):
        kind = "cp_loop" if k % 3 != 2 else "tucker_loop"
        order = rng.choice([2, 2, 3])
        if kind == "tucker_loop" and (k // 3) % 2 == 0:
            order = 3          # the blocks of the third mode see a genuinely two-dimensional rest of the core
        sx = tuple(rng.randint(2, 3) for _ in range(order))
        n = rng.randint(3, 6)
        if kind == "cp_loop":
            so = rng.choice([(), (), (2,), (3,), (2, 2)])
            rank = rng.randint(1, 2)
        else:
            so = ()
            rank = [rng.randint(1, 2) for _ in sx]
            if order == 3:
                rank = [2, 2, rng.randint(1, 2)]
                rng.shuffle(rank)
        reg = rng.choice([0.05, 0.5, 1, 3.0])
        X = dyadic(rng, (n,) + sx, denom=16, lo=-48, hi=48)
        y = dyadic(rng, (n,) + so, denom=16, lo=-48, hi=48)
        probs.append(dict(kind=kind, X=X, y=y, rank=rank, reg=reg, seed=rng.randint(0, 10 ** 6), mode=(k // 3 + k) % 3 if k % 4 else 2,
                          n_iter=rng.randint(1, LOOP_K)))
    return probs


def fit_loop(p, n_iter, tol):
    from tensorly.regression.cp_regression import CPRegressor
    from tensorly.regression.tucker_regression import TuckerRegressor
    if p["kind"] == "cp_loop":
        r = CPRegressor(weight_rank=p["rank"], tol=tol, reg_W=p["reg"], n_iter_max=n_iter, random_state=p["seed"], verbose=0)
    else:
        r = TuckerRegressor(weight_ranks=list(p["rank"]), tol=tol, reg_W=p["reg"], n_iter_max=n_iter, random_state=p["seed"], verbose=0)
    return r.fit(p["X"].copy(), p["y"].copy())


LOOP_K = 6


def loop_case(p):
    """tape of iterates from runs with n_iter_max = 1..K and a tolerance that never stops (-1); then one run with a
    stopping rule chosen with a margin from the observed norm evolution: never (mode 0), always from the third pass on
    (mode 1), or at a later pass when the evolution values leave room (mode 2)"""
    cp = p["kind"] == "cp_loop"
    its, norms = [], []
    for k in range(1, LOOP_K + 1):
        st, r = call(fit_loop, p, k, -1.0)
        if st != "ok":
            return "fit-raised", None
        blocks = r.cp_weight_ if cp else r.tucker_weight_
        arrs = [np.asarray(f, dtype=np.float64) for f in blocks[1]] + ([] if cp else [np.asarray(blocks[0], dtype=np.float64)])
        if not finite_ok(np.asarray(r.weight_tensor_), *arrs):
            return "non-finite", None
        its.append(blocks)
        norms.append(float(np.linalg.norm(np.asarray(r.weight_tensor_))))
    if min(norms) < 1e-6:
        return "ill-conditioned", None
    ev = {k: abs(norms[k - 1] - norms[k - 2]) / norms[k - 1] for k in range(3, LOOP_K + 1)}   # test made in pass k (1-based)
    N, tol = p["n_iter"], -1.0
    if p["mode"] == 1:
        N, tol = LOOP_K, 1e9
    elif p["mode"] == 2:
        N = LOOP_K
        tol = 1e9
        for j in range(4, LOOP_K + 1):
            before = min(ev[k] for k in range(3, j))
            if ev[j] > 0 and before > 2 * ev[j]:
                tol = float(np.sqrt(before * ev[j]))
                break
    p["chosen"] = {"n_iter_max": N, "tol": tol}
    st, r = call(fit_loop, p, N, tol)
    if st != "ok":
        return "fit-raised", None
    # the random initial factors, replayed from the seeded generator in the order the source draws them (CP: one (d, rank)
    # matrix per mode of X then of y; Tucker: the core, then one (d_i, g_i) matrix per mode): pass 1 can then be certified too
    import tensorly as tl
    g = tl.check_random_state(p["seed"])
    if cp:
        W0 = [g.randn(d, p["rank"]) for d in p["X"].shape[1:]] + [g.randn(d, p["rank"]) for d in p["y"].shape[1:]]
        G0 = None
    else:
        G0 = g.randn(*p["rank"])
        W0 = [g.randn(d, q) for d, q in zip(p["X"].shape[1:], p["rank"])]
    eW = np.asarray(r.weight_tensor_, dtype=np.float64)
    # the statements of the property on this run too (a run that stops by convergence is rare among the random fits)
    p["loop_bad"] = reg_predicates(dict(kind="cp" if cp else "tucker", X=p["X"], Xn=p["X"][:2]), r)
    # n_iterations_ / norm_W_: one norm per executed pass, the last one is the norm of the stored weight_tensor_
    nit, nW = int(r.n_iterations_), [float(v) for v in r.norm_W_]
    if nit != len(nW) or not (1 <= nit <= N):
        p["loop_bad"].append(("C19_fit_trace", f"n_iterations_ = {nit} but norm_W_ has {len(nW)} entries (n_iter_max = {N})"))
    elif not close(nW[-1], float(np.linalg.norm(eW)), 1e-9):
        p["loop_bad"].append(("C19_fit_trace", "norm_W_[-1] is not the norm of the stored weight_tensor_ (weight_tensor_ is not the last pass's)"))
    trace = f"{C.nat(nit)} {C.q_list(nW)}"
    qtol = C.q(max(min(tol, 1e30), -1.0))
    if cp:
        tape = lst(lst(qt(f) for f in b[1]) for b in its)
        so = tuple(p["y"].shape[1:])
        R = p["rank"]
        case = (f"KCpLoop {C.nat(N)} {qtol} {C.q(float(p['reg']))} {C.nat(R)} {C.nat_list(so)} {qt(p['X'])} {qt(p['y'])} {lst(qt(f) for f in W0)} {tape} "
                f"{qt(eW)} {lst(qt(f) for f in r.cp_weight_[1])} {trace}")
    else:
        tape = lst(f"({qt(b[0])}, {lst(qt(f) for f in b[1])})" for b in its)
        case = f"KTkLoop {C.nat(N)} {qtol} {C.q(float(p['reg']))} {qt(p['X'])} {qt(p['y'])} {qt(G0)} {lst(qt(f) for f in W0)} {tape} {qt(eW)} {trace}"
    return "ok", case


# ----------------------------------------------------------------------------- the ridge blocks on integer data, exactly
class IntRS(np.random.RandomState):
    """a RandomState whose randn draws small integers (as floats): integer initial factors for an exact comparison"""

    def randn(self, *size):
        return self.randint(-2, 3, size=size).astype(np.float64)


def ridge_case(rng, kind):
    """one pass of fit on integer X, y with integer initial factors, reg_W in {1, 2, 3, 5} and an instrumented T.solve that records its arguments
    (A, B) and answers with small integers: every (A, B) must be the model's phi'phi + reg_W I and phi'y of the current blocks, bit for bit"""
    import tensorly.backend as TB
    from tensorly.regression.cp_regression import CPRegressor
    from tensorly.regression.tucker_regression import TuckerRegressor
    cp = kind == "cp"
    order = rng.choice([1, 2, 2, 3]) if cp else rng.choice([2, 2, 3])
    sx = tuple(rng.randint(1 if order > 1 else 2, 3) for _ in range(order))
    so = rng.choice([(), (), (2,), (3,), (2, 2), (1, 2)]) if cp else ()
    if order == 1 and so == ():
        so = (2,)
    n = rng.randint(2, 4)
    X = np.array([rng.randint(-3, 3) for _ in range(n * int(np.prod(sx)))], dtype=np.float64).reshape((n,) + sx)
    y = np.array([rng.randint(-3, 3) for _ in range(n * int(np.prod(so, dtype=int)))], dtype=np.float64).reshape((n,) + so)
    seed = rng.randint(0, 10 ** 6)
    reg = rng.choice([1, 1, 2, 3, 5])
    ans = np.random.RandomState(seed + 1)
    rec = []
    orig = TB.solve

    def solve(A, B):
        rec.append((np.array(A, copy=True), np.array(B, copy=True)))
        return ans.randint(-2, 3, size=(np.shape(A)[1],) + tuple(np.shape(B)[1:])).astype(np.float64)
    if cp:
        R = rng.randint(1, 2)
        mk = lambda: CPRegressor(weight_rank=R, reg_W=reg, n_iter_max=1, random_state=IntRS(seed), verbose=0)
    else:
        ranks = [rng.randint(1, 2) for _ in sx]
        mk = lambda: TuckerRegressor(weight_ranks=list(ranks), reg_W=reg, n_iter_max=1, random_state=IntRS(seed), verbose=0)
    TB.solve = solve
    try:
        st, r = call(lambda: mk().fit(X.copy(), y.copy()))
    finally:
        TB.solve = orig
    if st != "ok":
        return "fit-raised", None
    g = IntRS(seed)
    eAB = lst(f"({zt(A)}, {zt(B)})" for A, B in rec)
    if cp:
        W0 = [g.randn(d, R) for d in sx] + [g.randn(d, R) for d in so]
        newW = [np.asarray(f) for f in r.cp_weight_[1]]
        return "ok", f"KRidgeCPZ {C.z(reg)} {C.nat(R)} {C.nat_list(so)} {zt(X)} {zt(y)} {lst(zt(f) for f in W0)} {lst(zt(f) for f in newW)} {eAB}"
    G0 = g.randn(*ranks)
    W0 = [g.randn(d, q) for d, q in zip(sx, ranks)]
    newW = [np.asarray(f) for f in r.tucker_weight_[1]]
    return "ok", f"KRidgeTKZ {C.z(reg)} {zt(X)} {zt(y)} {zt(G0)} {lst(zt(f) for f in W0)} {lst(zt(f) for f in newW)} {eAB}"


# ----------------------------------------------------------------------------- one object under a sequence of calls
def _raised(out):
    return out[0] != "ok"


class _Injected(np.linalg.LinAlgError):
    pass


def call_with_raising(name, k, fn, *args, module=None):
    """run fn(*args) with the backend function `name` (lstsq / solve) -- or the attribute `name` of `module` (initialize_cp as
    imported by tensorly.regression.cp_plsr) -- raising a LinAlgError at its k-th call (0-based)"""
    import tensorly.backend as TB
    if module is not None:
        import importlib
        TB = importlib.import_module(module)
    orig = getattr(TB, name)
    cnt = [0]

    def bad(*a, **kw):
        cnt[0] += 1
        if cnt[0] - 1 == k:
            raise _Injected(f"injected failure of {name} (call {k})")
        return orig(*a, **kw)
    setattr(TB, name, bad)
    try:
        return call(fn, *args)
    finally:
        setattr(TB, name, orig)


def rprm_lit(kind, params):
    """(n_iter_max, [the other constructor parameters as numbers]) -- the Prm of KRegSeq"""
    ranks = [params["weight_rank"]] if kind == "cp" else list(params["weight_ranks"])
    nums = [float(x) for x in ranks] + [float(params["tol"]), float(params["reg_W"]), float(params["random_state"])]
    return f"({C.nat(int(params['n_iter_max']))}, {C.q_list(nums)})"


def reg_seq_program(rng, kind, loop=False):
    """two data sets of different per-sample shape, initial constructor parameters, a list of operations
    (loop: the fits are re-computed by the model's own loop -- per-sample order >= 2 as in the loop cases, fewer extra calls)"""
    cp = kind == "cp"
    def mkdata(like=None):
        order = (rng.choice([1, 2, 3]) if not loop else rng.choice([2, 2, 3])) if cp else rng.choice([2, 3])
        sx = tuple(rng.randint(2, 3) for _ in range(order))
        so = rng.choice([(), (2,), (2, 2)]) if cp else ()
        if order == 1 and so == ():
            so = (2,)
        n = rng.randint(3, 6)
        if like is not None:
            sx, so, n = like["sx"], like["so"], like["X"].shape[0]
        return dict(X=dyadic(rng, (n,) + sx, denom=16, lo=-48, hi=48), y=dyadic(rng, (n,) + so, denom=16, lo=-48, hi=48),
                    Xn=dyadic(rng, (rng.randint(1, 3),) + sx), sx=sx, so=so)
    A, B = mkdata(), mkdata()
    Cd = mkdata(like=A)            # other values, the shapes of A: a refit that keeps anything of the earlier fit shows
    def rk(d):
        return {"weight_rank": rng.randint(1, 2)} if cp else {"weight_ranks": [rng.randint(1, 2) for _ in d["sx"]]}
    params = dict(tol=1e-14, reg_W=rng.choice([0.5, 1, 3.0]), n_iter_max=rng.randint(1, 3), random_state=rng.randint(0, 10 ** 6), verbose=0)
    params.update(rk(A))
    ops = [("predict", "A"), ("get",), ("fit", "A"), ("predict", "A"), ("predict_train", "A"),
           ("set", {"n_iter_max": 0}), ("fit", "B"), ("predict", "A"),
           ("set", dict(n_iter_max=rng.randint(1, 3), reg_W=rng.choice([0.25, 2.0]), **rk(B))), ("get",), ("fit", "B"), ("predict", "B"), ("predict", "A"),
           ("fit_bad", "B"), ("predict", "B"), ("set", rk(A)), ("fit", "A"), ("predict", "A"), ("fit_raise", "C", rng.randint(0, 3)), ("predict", "A"),
           ("fit", "C"), ("predict", "A"), ("predict_train", "C")]
    pool = [("fit", "A"), ("fit", "B"), ("fit", "C"), ("predict", "A"), ("predict", "B"), ("set", {"n_iter_max": 0}), ("set", {"n_iter_max": rng.randint(1, 3)}),
            ("set", {"random_state": rng.randint(0, 10 ** 6)}), ("get",), ("fit_bad", "A"), ("fit_raise", "A", rng.randint(0, 5))]
    for _ in range(rng.randint(3, 7) if not loop else rng.randint(0, 2)):
        op = rng.choice(pool)
        if op[0] == "fit" and not cp:
            ops.append(("set", rk(B if op[1] == "B" else A)))       # Tucker: the ranks must fit the order of the data
        ops.append(op)
    ops.append(("predict", rng.choice("AB")))
    return dict(A=A, B=B, C=Cd, params=params, ops=ops)


def fit_data_literal(Cls, cp, cur, d, y):
    """the data of one fit for the model's own loop (KRegSeqZ): tape of iterates from fresh runs with n_iter_max = 1..N and no
    stopping, the initial factors replayed from the seeded generator -> literal or None (non-finite)"""
    import tensorly as tl
    N = int(cur["n_iter_max"])
    its = []
    for k in range(1, N + 1):
        kw = dict(cur); kw.update(n_iter_max=k, tol=-1.0)
        st, r = call(lambda: Cls(**kw).fit(d["X"].copy(), y.copy()))
        if st != "ok":
            return None
        blocks = r.cp_weight_ if cp else r.tucker_weight_
        if not finite_ok(np.asarray(blocks[0]), *[np.asarray(f) for f in blocks[1]]):
            return None
        its.append(blocks)
    g = tl.check_random_state(cur["random_state"])
    tol, reg = C.q(float(cur["tol"])), C.q(float(cur["reg_W"]))
    if cp:
        R = cur["weight_rank"]
        W0 = [g.randn(dd, R) for dd in d["X"].shape[1:]] + [g.randn(dd, R) for dd in y.shape[1:]]
        tape = lst(lst(qt(f) for f in b[1]) for b in its)
        return f"FDcp {tol} {reg} {C.nat(R)} {C.nat_list(tuple(y.shape[1:]))} {qt(d['X'])} {qt(y)} {lst(qt(f) for f in W0)} {tape}"
    ranks = list(cur["weight_ranks"])
    G0 = g.randn(*ranks)
    W0 = [g.randn(dd, q) for dd, q in zip(d["X"].shape[1:], ranks)]
    tape = lst(f"({qt(b[0])}, {lst(qt(f) for f in b[1])})" for b in its)
    return f"FDtk {tol} {reg} {qt(d['X'])} {qt(y)} {qt(G0)} {lst(qt(f) for f in W0)} {tape}"


def reg_seq_case(prog, kind, loop=False):
    """run the program on ONE object; every fit is also run on a FRESH object with the parameters in force (its exposed
    blocks are the answer the model's fit returns).  -> (status, coq case, predicate failures)"""
    from tensorly.regression.cp_regression import CPRegressor
    from tensorly.regression.tucker_regression import TuckerRegressor
    cp = kind == "cp"
    Cls = CPRegressor if cp else TuckerRegressor
    cur = dict(prog["params"])
    r = Cls(**cur)
    fits, calls, exp, bad = [], [], [], []
    for op in prog["ops"]:
        if op[0] in ("fit", "fit_bad", "fit_raise"):
            d = prog[op[1]]
            y = d["y"] if op[0] != "fit_bad" else np.concatenate([d["y"], d["y"][:1]])     # fit_bad: one target too many
            before = getattr(r, "weight_tensor_", None)
            if op[0] == "fit_raise":              # T.solve raises (LinAlgError) at its op[2]-th call: nothing may be bound
                st_f, fresh = "raised", None
                out = call_with_raising("solve", op[2], r.fit, d["X"].copy(), y.copy())
                if not _raised(out):
                    st_f, fresh = call(lambda: Cls(**cur).fit(d["X"].copy(), y.copy()))      # the injected call was never reached
            else:
                st_f, fresh = call(lambda: Cls(**cur).fit(d["X"].copy(), y.copy()))
                out = call(r.fit, d["X"].copy(), y.copy())
            if st_f == "ok":
                blocks = fresh.cp_weight_ if cp else fresh.tucker_weight_
                if not finite_ok(np.asarray(blocks[0]), *[np.asarray(f) for f in blocks[1]]):
                    return "non-finite", None, []
                if loop:
                    fd = fit_data_literal(Cls, cp, cur, d, y)
                    if fd is None:
                        return "non-finite", None, []
                    fits.append(fd)
                else:
                    fits.append(f"(Some ({qt(blocks[0])}, {lst(qt(f) for f in blocks[1])}))")
            else:
                fits.append("FDraise" if loop else "None")
            calls.append(f"RFit {C.nat(len(fits) - 1)}")
            exp.append("ORaise" if _raised(out) else "OSelf")
            if _raised(out) and before is not None and getattr(r, "weight_tensor_", None) is not before:
                bad.append(("C19_object_state", f"a fit that raised ({out[1]}) re-bound weight_tensor_"))
        elif op[0] in ("predict", "predict_train"):
            d = prog[op[1]]
            Xq = d["Xn"] if op[0] == "predict" else d["X"]
            out = call(r.predict, Xq.copy())
            calls.append(f"RPredict {qt(Xq)}")
            exp.append("ORaise" if _raised(out) else f"OTensor {qt(out[1])}")
            if not hasattr(r, "weight_tensor_"):
                if not _raised(out):
                    bad.append(("C19_object_state", "predict on an object without weight_tensor_ returned a value"))
            else:
                W = np.asarray(r.weight_tensor_)
                if W.ndim >= Xq.ndim - 1 and W.shape[:Xq.ndim - 1] == Xq.shape[1:] and (cp or W.shape == Xq.shape[1:]):
                    if _raised(out) or not close(out[1], contract(Xq, W)):
                        bad.append(("C19_predict_is_contraction", f"call {len(calls)} of a sequence on one object: predict != tensordot(X, weight_tensor_ exposed at that moment)"))
                    blocks = r.cp_weight_ if cp else r.tucker_weight_
                    full = cp_full(np.asarray(blocks[0]), [np.asarray(f) for f in blocks[1]]) if cp else tucker_full(np.asarray(blocks[0]), [np.asarray(f) for f in blocks[1]])
                    if not close(W, full) or not close(np.asarray(r.vec_W_), W.reshape(-1), 1e-12):
                        bad.append(("C19_weight_is_reconstruction", f"call {len(calls)} of a sequence on one object: weight_tensor_ / vec_W_ / exposed blocks are not from one fit"))
        elif op[0] == "set":
            cur.update(op[1])
            out = call(r.set_params, **op[1])
            calls.append(f"RSetParams {rprm_lit(kind, cur)}")
            exp.append("ORaise" if _raised(out) else "OSelf")
        else:
            out = call(r.get_params)
            calls.append("RGetParams")
            exp.append("ORaise" if _raised(out) else f"OParams {rprm_lit(kind, out[1])}")
    if loop:
        case = f"KRegSeqZ {rprm_lit(kind, prog['params'])} {lst(fits)} {lst(calls)} {lst(exp)}"
    else:
        case = f"KRegSeq {C.boolc(cp)} {rprm_lit(kind, prog['params'])} {lst(fits)} {lst(calls)} {lst(exp)}"
    return "ok", case, bad


def plsr_seq_program(rng):
    def mkdata(like=None):
        order = rng.choice([1, 2, 2, 3])
        sx = tuple(rng.randint(2, 3) for _ in range(order))
        n = rng.randint(4, 6)
        m = rng.choice([0, 1, 2, 3])
        if like is not None:
            sx, n, m = like["sx"], like["X"].shape[0], like["m"]
        X = dyadic(rng, (n,) + sx, denom=16, lo=-48, hi=48)
        Bm = dyadic(rng, (int(np.prod(sx)), max(m, 1)), denom=4, lo=-8, hi=8)
        Y = X.reshape(n, -1) @ Bm + 0.25 * dyadic(rng, (n, max(m, 1)), denom=8, lo=-16, hi=16)
        if m == 0:
            Y = Y[:, 0]
        return dict(X=X, Y=Y, Xn=dyadic(rng, (rng.randint(1, 3),) + sx), Yn=None, sx=sx, m=m,
                    cmax=max(1, min(2, n - 2, int(np.prod(sx)) - 1)))
    A, B = mkdata(), mkdata()
    Cd = mkdata(like=A)            # other values, the shapes of A
    for d in (A, B, Cd):
        nn = d["Xn"].shape[0]
        d["Yn"] = dyadic(rng, (nn,) if d["m"] == 0 else (nn, d["m"]), denom=8)
    params = dict(n_components=rng.randint(1, A["cmax"]), n_iter_max=rng.randint(1, 3), tol=0.0)
    kA = params["n_components"]
    ops = [("predict", "A"), ("transform", "A"), ("fit", "A"), ("transform_train", "A"), ("predict", "A"), ("transform_xy", "A"), ("transform_xy_train", "A"),
           ("predict", "B"),
           ("set", {"n_components": kA - 1}), ("transform_train", "A"), ("predict", "A"), ("transform_xy", "A"),
           ("set", {"n_components": kA + 1}), ("transform", "A"), ("set", {"n_components": kA}), ("predict", "A"),
           ("fit_bad", "B", "Y3d"), ("predict", "A"), ("transform_xy", "A"), ("fit_bad", "B", "uncoupled"), ("predict", "A"),
           ("fit_bad", "B", "vectorX"), ("predict", "A"), ("transform_train", "A"),
           ("set", {"n_iter_max": 0}), ("fit", "B"), ("predict", "B"), ("transform", "B"), ("predict", "A"),
           ("set", {"n_iter_max": rng.randint(1, 3), "n_components": rng.randint(1, B["cmax"])}), ("fit_transform", "B"), ("predict", "B"), ("transform_xy", "B"),
           ("transform_bad_y", "B", rng.choice(["Y3d", "cols"])),
           ("set", {"n_components": kA}), ("fit", "A"), ("predict", "A"), ("transform_xy_one", "A"), ("transform_xy_mismatch", "A"),
           ("fit_raise", "C", rng.randint(0, max(0, kA - 1))), ("predict", "A"), ("transform", "A"), ("transform_xy", "A"),
           ("fit", "C"), ("predict", "A"), ("transform_train", "C"), ("transform_xy_train", "C"), ("score", "A"), ("score_train", "C"),
           ("fit_raise_init", "A", rng.randint(0, max(0, kA - 1))), ("predict", "A"), ("transform", "A"), ("score", "A"), ("transform_xy", "A"),
           ("fit", "A"), ("score_train", "A")]
    pool = [("score", "A"), ("score", "B"), ("fit_raise_init", "B", rng.randint(0, 1)), ("fit_raise_init", "C", 0),
            ("fit", "A"), ("fit", "B"), ("fit", "C"), ("fit_transform", "A"), ("predict", "A"), ("predict", "B"), ("transform", "A"), ("transform_xy", "B"),
            ("set", {"n_iter_max": 0}), ("set", {"n_iter_max": rng.randint(1, 2)}), ("set", {"n_components": rng.randint(0, min(A["cmax"], B["cmax"]))}),
            ("fit_bad", "B", rng.choice(["uncoupled", "vectorX", "Y3d"])), ("transform_train", "B"), ("fit_raise", "A", rng.randint(0, 1)),
            ("transform_xy_one", "B"), ("transform_xy_mismatch", "A")]
    for _ in range(rng.randint(2, 6)):
        ops.append(rng.choice(pool))
    ops.append(("predict", rng.choice("AB")))
    return dict(A=A, B=B, C=Cd, params=params, ops=ops)


def plsr_seq_case(prog):
    from tensorly.regression.cp_plsr import CP_PLSR
    cur = dict(prog["params"])
    r = CP_PLSR(cur["n_components"], tol=cur["tol"], n_iter_max=cur["n_iter_max"])
    calls, exp, bad = [], [], []
    fitted = None                 # (data key, fitted width) of the last successful fit
    def outlit(out):
        if _raised(out):
            return "PRaise"
        v = out[1]
        if isinstance(v, tuple):
            return f"PPair {qt(v[0])} {qt(v[1])}"
        return f"PTensor {qt(v)}"
    for op in prog["ops"]:
        d = prog[op[1]] if len(op) > 1 and isinstance(op[1], str) else None
        if op[0] in ("fit", "fit_transform", "fit_bad", "fit_raise", "fit_raise_init"):
            X, Y = d["X"], d["Y"]
            if op[0] == "fit_bad":
                if op[2] == "uncoupled":
                    Y = np.concatenate([Y, Y[:1]])
                elif op[2] == "vectorX":
                    X = X.reshape(X.shape[0], -1)[:, 0].copy()
                else:
                    Y = np.stack([np.atleast_2d(Y.T).T] * 2, axis=2)
            st_f, fresh = call(lambda: CP_PLSR(cur["n_components"], tol=cur["tol"], n_iter_max=cur["n_iter_max"]).fit(X.copy(), Y.copy()))
            if st_f == "ok" and cur["n_components"] > 0:
                if not plsr_wellposed(fresh):
                    return "ill-conditioned", None, []
                tp = plsr_tapes(fresh, X, Y, cur["n_components"])
                if isinstance(tp, str):
                    return tp, None, []
                it, bt = lst(tp[0]), lst(tp[1])
            else:
                it, bt = "[]", "[]"
            fn = r.fit_transform if op[0] == "fit_transform" else r.fit
            if op[0] in ("fit_raise", "fit_raise_init"):
                # lstsq raises (LinAlgError) at component op[2]: the columns written so far stay; initialize_cp raises in the first
                # pass of component op[2]: nothing of that component has been written
                if op[0] == "fit_raise":
                    out = call_with_raising("lstsq", op[2], fn, X.copy(), Y.copy())
                    calls.append(f"QFitRaise {C.nat(op[2])} {qt(X)} {qt(Y)} {it} {bt}")
                else:
                    out = call_with_raising("initialize_cp", op[2], fn, X.copy(), Y.copy(), module="tensorly.regression.cp_plsr")
                    calls.append(f"QFitInitRaise {C.nat(op[2])} {qt(X)} {qt(Y)} {it} {bt}")
                    if _raised(out) and cur["n_iter_max"] > 0 and hasattr(r, "X_factors"):
                        cols = [np.asarray(f)[:, op[2]:] for f in list(r.X_factors) + list(r.Y_factors)] + [np.asarray(r.coef_)[:, op[2]:]]
                        if any(np.any(cc != 0) for cc in cols):
                            bad.append(("C19_object_state", f"a fit interrupted by initialize_cp raising in component {op[2]} left non-zero columns from that component on"))
                exp.append("PSelf" if not _raised(out) else "PRaise")
                if _raised(out):
                    fitted = None
                    if hasattr(r, "coef_") and hasattr(r, "X_factors"):
                        st_p, pz = call(r.predict, d["Xn"].copy()); st_t, tz = call(r.transform, d["Xn"].copy())
                        if cur["n_iter_max"] > 0 and (st_p != "ok" or st_t != "ok" or not close(pz, np.asarray(tz) @ np.asarray(r.coef_) @ np.asarray(r.Y_factors[1]).T + np.asarray(r.Y_mean_), 1e-8)):
                            bad.append(("C19_plsr_predict", "after a fit interrupted by a raising lstsq predict != transform @ coef_ @ Y_factors[1].T + Y_mean_ of the exposed (partly filled) attributes"))
                    continue
            else:
                out = call(fn, X.copy(), Y.copy())
                calls.append(f"{'QFitTransform' if op[0] == 'fit_transform' else 'QFit'} {qt(X)} {qt(Y)} {it} {bt}")
                exp.append("PSelf" if (not _raised(out) and op[0] != "fit_transform") else outlit(out))
            if not _raised(out):
                fitted = (op[1], cur["n_components"])
                if op[0] == "fit_transform" and not (isinstance(out[1], tuple) and close(out[1][0], r.X_factors[0], 1e-8) and close(out[1][1], r.Y_factors[0], 1e-8)):
                    bad.append(("C19_plsr_transform_train", "fit_transform(X, Y) in a sequence on one object != the fitted scores"))
            elif op[0] != "fit_bad" and cur["n_iter_max"] == 0 and cur["n_components"] > 0:
                fitted = None
                st_p, pz = call(r.predict, d["Xn"].copy())
                if st_p != "ok" or not close(pz, np.broadcast_to(np.mean(np.atleast_2d(d["Y"].T).T, axis=0), np.shape(pz)), 1e-12):
                    bad.append(("C19_plsr_predict", "after a fit that raised in the component loop predict does not answer with the exposed (zero) weights"))
        elif op[0] == "set":
            cur.update(op[1])
            out = call(r.set_params, **op[1])
            calls.append(f"QSetParams {C.nat(cur['n_components'])} {C.nat(cur['n_iter_max'])} {C.q(cur['tol'])}")
            exp.append("PRaise" if _raised(out) else "PSelf")
        elif op[0] == "predict":
            out = call(r.predict, d["Xn"].copy())
            calls.append(f"QPredict {qt(d['Xn'])}")
            exp.append(outlit(out))
        elif op[0] in ("transform", "transform_train"):
            Xq = d["Xn"] if op[0] == "transform" else d["X"]
            out = call(r.transform, Xq.copy())
            calls.append(f"QTransform {qt(Xq)} None")
            exp.append(outlit(out))
            if op[0] == "transform_train" and fitted is not None and fitted[0] == op[1] and cur["n_components"] <= fitted[1]:
                if _raised(out) or not close(out[1], np.asarray(r.X_factors[0])[:, :cur["n_components"]], 1e-8):
                    bad.append(("C19_plsr_transform_train", f"transform(X_train) with n_components = {cur['n_components']} (fitted {fitted[1]}) != the leading fitted score columns"))
        elif op[0] in ("score", "score_train"):
            Xq, Yq = (d["X"], d["Y"]) if op[0] == "score_train" else (d["Xn"], d["Yn"])
            Yq = np.asarray(Yq).reshape(Xq.shape[0], -1)           # matrix targets (a vector Y is broadcast by score: reported)
            if hasattr(r, "Y_mean_") and Yq.shape[1] != np.shape(r.Y_mean_)[0]:
                continue          # another number of columns than the fitted targets: NumPy broadcasts Y - Y_mean_ (outside the model of score)
            out = call(r.score, Xq.copy(), Yq.copy())
            if not _raised(out) and not np.isfinite(out[1]):
                continue
            calls.append(f"QScore {qt(Xq)} {qt(Yq)}")
            exp.append("PRaise" if _raised(out) else f"PTensor {qt(np.asarray(float(out[1])))}")
            if not _raised(out):
                stp, pz = call(r.predict, Xq.copy())
                ref = 1.0 - float(np.sum((np.asarray(pz) - Yq) ** 2)) / float(np.sum((Yq - np.asarray(r.Y_mean_)) ** 2)) if stp == "ok" else None
                if ref is None or not close(out[1], ref, 1e-8):
                    bad.append(("C19_plsr_predict", "score(X, Y) != 1 - |predict(X) - Y|^2 / |Y - Y_mean_|^2 of the exposed attributes"))
        elif op[0] in ("transform_xy", "transform_xy_train", "transform_bad_y", "transform_xy_one", "transform_xy_mismatch"):
            Xq, Yq = (d["X"], d["Y"]) if op[0] == "transform_xy_train" else (d["Xn"], d["Yn"])
            if op[0] == "transform_xy_one":           # one X sample against all training targets: NumPy broadcasts the in-place update
                Xq, Yq = d["X"][:1], d["Y"]
            elif op[0] == "transform_xy_mismatch":    # 2 samples against >= 4 targets: no broadcast
                Xq, Yq = d["X"][:2], d["Y"]
            if op[0] == "transform_bad_y":
                Yq = np.stack([np.atleast_2d(Yq.T).T] * 2, axis=2) if op[2] == "Y3d" else np.concatenate([np.atleast_2d(Yq.T).T] * 2, axis=1)
            out = call(r.transform, Xq.copy(), Yq.copy())
            calls.append(f"QTransform {qt(Xq)} (Some {qt(Yq)})")
            exp.append(outlit(out))
    p0 = prog["params"]
    case = f"KPlsrSeq {C.nat(p0['n_components'])} {C.nat(p0['n_iter_max'])} {C.q(p0['tol'])} {lst(calls)} {lst(exp)}"
    return "ok", case, bad


def seq_problems(tier, rng):
    n = 1 if tier == "quick" else 14
    flip = rng.randint(0, 1)          # quick: one regressor sequence of each flavour, the kinds alternate with the seed
    out = []
    for k in range(n):
        out.append(dict(kind="reg_seq", which="cp" if (k + flip) % 2 == 0 else "tucker", gen_seed=rng.randint(0, 10 ** 9)))
    for k in range(1 if tier == "quick" else 6):     # every fit of the sequence re-computed by the model's own fit loop
        out.append(dict(kind="reg_seq", which="tucker" if (k + flip) % 2 == 0 else "cp", gen_seed=rng.randint(0, 10 ** 9), loop=True))
    for k in range(n):
        out.append(dict(kind="plsr_seq", gen_seed=rng.randint(0, 10 ** 9)))
    return out


def seq_eval(p):
    """-> (status, coq case, predicate failures, program)"""
    g = random.Random(p["gen_seed"])
    if p["kind"] == "reg_seq":
        prog = reg_seq_program(g, p["which"], bool(p.get("loop")))
        return reg_seq_case(prog, p["which"], bool(p.get("loop"))) + (prog,)
    prog = plsr_seq_program(g)
    return plsr_seq_case(prog) + (prog,)


# ----------------------------------------------------------------------------- source tie: Python source -> Gallina (ast)
import ast as _ast


class Untranslatable(Exception):
    pass


def _src_class(path, cls):
    tree = _ast.parse(open(path).read())
    for n in tree.body:
        if isinstance(n, _ast.ClassDef) and n.name == cls:
            return {f.name: f for f in n.body if isinstance(f, _ast.FunctionDef)}
    raise Untranslatable(f"class {cls} not found in {path}")


def _is_self_attr(e, name=None):
    return isinstance(e, _ast.Attribute) and isinstance(e.value, _ast.Name) and e.value.id == "self" and (name is None or e.attr == name)


def _doc_stripped(body):
    return [s for s in body if not (isinstance(s, _ast.Expr) and isinstance(s.value, _ast.Constant) and isinstance(s.value.value, str))]


def _is_raise_if(s):
    return isinstance(s, _ast.If) and not s.orelse and len(s.body) == 1 and isinstance(s.body[0], _ast.Raise)


def _tcall(e, fn):
    """T.fn(arg) / tl.fn(arg) -> arg name"""
    if isinstance(e, _ast.Call) and isinstance(e.func, _ast.Attribute) and e.func.attr == fn and isinstance(e.func.value, _ast.Name) \
            and e.func.value.id in ("T", "tl") and len(e.args) == 1 and isinstance(e.args[0], _ast.Name) and not e.keywords:
        return e.args[0].id
    return None


class ShapeExpr:
    """expressions over the shapes of named arrays: env maps an array name (or 'self.X_shape_') to a Gallina list-nat term;
    records which arrays are subscripted at [0] (a 0-d array raises there)"""

    def __init__(self, env):
        self.env, self.need_nonempty = env, []

    def shape_of(self, e):
        v = _tcall(e, "shape")
        if v is not None and v in self.env:
            return self.env[v]
        if _is_self_attr(e) and ("self." + e.attr) in self.env:
            return self.env["self." + e.attr]
        raise Untranslatable("shape expression " + _ast.dump(e)[:80])

    def nat(self, e):
        if isinstance(e, _ast.Constant) and isinstance(e.value, int) and not isinstance(e.value, bool) and e.value >= 0:
            return str(e.value)
        v = _tcall(e, "ndim")
        if v is not None and v in self.env:
            return f"(length {self.env[v]})"
        if isinstance(e, _ast.Subscript) and isinstance(e.slice, _ast.Constant) and e.slice.value == 0:
            sh = self.shape_of(e.value)
            self.need_nonempty.append(sh)
            return f"(nth 0 {sh} 0)"
        raise Untranslatable("number " + _ast.dump(e)[:80])

    def shp(self, e):
        if isinstance(e, _ast.Subscript) and isinstance(e.slice, _ast.Slice) and e.slice.upper is None and e.slice.step is None \
                and isinstance(e.slice.lower, _ast.Constant) and isinstance(e.slice.lower.value, int) and e.slice.lower.value >= 0:
            return f"(skipn {e.slice.lower.value} {self.shape_of(e.value)})"
        return self.shape_of(e)

    def boolean(self, e):
        if isinstance(e, _ast.BoolOp):
            op = "&&" if isinstance(e.op, _ast.And) else "||"
            return "(" + f" {op} ".join(self.boolean(v) for v in e.values) + ")"
        if isinstance(e, _ast.UnaryOp) and isinstance(e.op, _ast.Not):
            return f"(negb {self.boolean(e.operand)})"
        if isinstance(e, _ast.Compare) and len(e.ops) == 1:
            l, r, op = e.left, e.comparators[0], e.ops[0]
            if isinstance(op, (_ast.In, _ast.NotIn)) and isinstance(r, (_ast.Tuple, _ast.List)) and r.elts:
                a = self.nat(l)
                t = "(" + " || ".join(f"Nat.eqb {a} {self.nat(x)}" for x in r.elts) + ")"
                return t if isinstance(op, _ast.In) else f"(negb {t})"
            try:
                a, b = self.nat(l), self.nat(r)
                f = {_ast.Eq: "(Nat.eqb {a} {b})", _ast.NotEq: "(negb (Nat.eqb {a} {b}))", _ast.Lt: "(Nat.ltb {a} {b})", _ast.LtE: "(Nat.leb {a} {b})",
                     _ast.Gt: "(Nat.ltb {b} {a})", _ast.GtE: "(Nat.leb {b} {a})"}.get(type(op))
                if f is None:
                    raise Untranslatable("comparison " + _ast.dump(op))
                return f.format(a=a, b=b)
            except Untranslatable:
                if isinstance(op, (_ast.Eq, _ast.NotEq)):
                    t = f"(nl_eqb {self.shp(l)} {self.shp(r)})"
                    return t if isinstance(op, _ast.Eq) else f"(negb {t})"
                raise
        raise Untranslatable("condition " + _ast.dump(e)[:80])


def _vector_reshape(s, name):
    """if T.ndim(Y) == 1: Y = T.reshape(Y, (-1, 1))"""
    if not (isinstance(s, _ast.If) and not s.orelse and len(s.body) == 1 and isinstance(s.body[0], _ast.Assign)):
        return False
    t = s.test
    if not (isinstance(t, _ast.Compare) and len(t.ops) == 1 and isinstance(t.ops[0], _ast.Eq) and _tcall(t.left, "ndim") == name
            and isinstance(t.comparators[0], _ast.Constant) and t.comparators[0].value == 1):
        return False
    a = s.body[0]
    v = a.value
    return (len(a.targets) == 1 and isinstance(a.targets[0], _ast.Name) and a.targets[0].id == name and isinstance(v, _ast.Call)
            and isinstance(v.func, _ast.Attribute) and v.func.attr == "reshape" and len(v.args) == 2 and isinstance(v.args[0], _ast.Name)
            and v.args[0].id == name and isinstance(v.args[1], _ast.Tuple) and len(v.args[1].elts) == 2
            and isinstance(v.args[1].elts[0], _ast.UnaryOp) and isinstance(v.args[1].elts[0].op, _ast.USub)
            and isinstance(v.args[1].elts[1], _ast.Constant) and v.args[1].elts[1].value == 1)


def _self_stores(nodes):
    out = []
    for n in nodes:
        for m in _ast.walk(n):
            if isinstance(m, (_ast.Assign, _ast.AugAssign, _ast.AnnAssign)):
                for t in (m.targets if isinstance(m, _ast.Assign) else [m.target]):
                    for u in _ast.walk(t):
                        if _is_self_attr(u) and isinstance(u.ctx, _ast.Store):
                            out.append(u.attr)
    return out


def _ite(conds):
    out = "false"
    for c in reversed(conds):
        out = f"(if {c} then true else {out})"
    return out


def gen_plsr(path):
    """CP_PLSR: the raise-chain of fit (before any attribute is bound), the vector-Y reshape, the attributes bound before the
    component loop, the shape checks of predict / transform -> Gallina definitions"""
    fns = _src_class(path, "CP_PLSR")
    # ---- fit
    body = _doc_stripped(fns["fit"].body)
    args = [a.arg for a in fns["fit"].args.args]
    if args != ["self", "X", "Y"]:
        raise Untranslatable("signature of CP_PLSR.fit")
    loops = [i for i, s in enumerate(body) if isinstance(s, _ast.For)]
    if len(loops) != 1 or not (isinstance(body[loops[0]].iter, _ast.Call) and getattr(body[loops[0]].iter.func, "id", "") == "range"
                               and len(body[loops[0]].iter.args) == 1 and _is_self_attr(body[loops[0]].iter.args[0], "n_components")):
        raise Untranslatable("CP_PLSR.fit: expected exactly one top-level loop `for .. in range(self.n_components)`")
    pre, loop = body[:loops[0]], body[loops[0]]
    first_store = next((i for i, s in enumerate(pre) if _self_stores([s])), len(pre))
    ex = ShapeExpr({"X": "sx", "Y": "sy"})
    conds, reshaped = [], False
    for s in pre[:first_store]:
        if _is_raise_if(s):
            if reshaped:
                raise Untranslatable("CP_PLSR.fit: a validation after the vector-Y reshape")
            conds.append(ex.boolean(s.test))
        elif _vector_reshape(s, "Y"):
            reshaped = True
        elif isinstance(s, _ast.Assign) and all(isinstance(t, (_ast.Name, _ast.Tuple)) for t in s.targets) and \
                all(isinstance(c, _ast.Call) and isinstance(c.func, _ast.Attribute) and c.func.attr == "copy"
                    for c in (s.value.elts if isinstance(s.value, _ast.Tuple) else [s.value])):
            continue                                            # X, Y = T.copy(X), T.copy(Y)
        else:
            raise Untranslatable("CP_PLSR.fit prologue statement " + _ast.dump(s)[:80])
    if any(isinstance(m, _ast.Raise) for s in pre[first_store:] for m in _ast.walk(s)):
        raise Untranslatable("CP_PLSR.fit: a raise after the first attribute was bound (a rejected fit would modify the object)")
    if not reshaped:
        raise Untranslatable("CP_PLSR.fit: the vector-Y reshape was not found before the attributes are bound")
    guards = sorted(set(ex.need_nonempty))
    guard = " || ".join(f"(Nat.eqb (length {g}) 0)" for g in guards) or "false"
    pre_attrs = []
    for a in _self_stores(pre[first_store:]):
        if a not in pre_attrs:
            pre_attrs.append(a)
    zero_init = []
    for s in pre[first_store:]:
        if isinstance(s, _ast.Assign) and len(s.targets) == 1 and _is_self_attr(s.targets[0]):
            calls = [m for m in _ast.walk(s.value) if isinstance(m, _ast.Call) and isinstance(m.func, _ast.Attribute)]
            if any(c.func.attr == "zeros" for c in calls) and all(c.func.attr in ("zeros", "context", "shape") for c in calls):
                zero_init.append(s.targets[0].attr)
    out = [f"Definition fit_rejects_src (sx sy : list nat) : bool := if {guard} then true else {_ite(conds)}.",
           "Definition y_matrix_src (sy : list nat) : list nat := if Nat.eqb (length sy) 1 then [nth 0 sy 0; 1] else sy.",
           "Definition pre_loop_attrs_src : list String.string := [" + "; ".join(f'"{a}"%string' for a in pre_attrs) + "].",
           "Definition zero_init_attrs_src : list String.string := [" + "; ".join(f'"{a}"%string' for a in zero_init) + "]."]
    # ---- predict / transform: the per-sample shape check comes first and nothing is bound on self
    for name in ("predict", "transform"):
        b = _doc_stripped(fns[name].body)
        if _self_stores(b):
            raise Untranslatable(f"CP_PLSR.{name} binds an attribute of self")
        if not b or not _is_raise_if(b[0]):
            raise Untranslatable(f"CP_PLSR.{name}: the first statement is not the shape check")
        e2 = ShapeExpr({"X": "s", "self.X_shape_": "xshape"})
        out.append(f"Definition {name}_x_rejects_src (xshape s : list nat) : bool := {e2.boolean(b[0].test)}.")
        if e2.need_nonempty:
            raise Untranslatable(f"CP_PLSR.{name}: shape check subscripts a shape")
        loops_n = [s for s in _ast.walk(fns[name]) if isinstance(s, _ast.For)]
        via_transform = name == "predict" and any(isinstance(m, _ast.Call) and _is_self_attr(m.func, "transform") for m in _ast.walk(fns[name]))
        if (not loops_n and not via_transform) or not all(isinstance(l.iter, _ast.Call) and getattr(l.iter.func, "id", "") == "range" and len(l.iter.args) == 1
                                  and _is_self_attr(l.iter.args[0], "n_components") for l in loops_n):
            raise Untranslatable(f"CP_PLSR.{name}: the component loops do not run over range(self.n_components)")
    # ---- transform: the Y branch
    tb = _doc_stripped(fns["transform"].body)
    ybr = [s for s in tb if isinstance(s, _ast.If) and isinstance(s.test, _ast.Compare) and isinstance(s.test.left, _ast.Name) and s.test.left.id == "Y"
           and isinstance(s.test.ops[0], _ast.IsNot)]
    if len(ybr) != 1:
        raise Untranslatable("CP_PLSR.transform: the `if Y is not None` branch")
    e3 = ShapeExpr({"Y": "sy", "self.Y_shape_": "yshape"})
    conds_before, conds_after, reshaped = [], [], False
    for s in ybr[0].body:
        if _is_raise_if(s):
            (conds_after if reshaped else conds_before).append(s.test)
        elif _vector_reshape(s, "Y"):
            reshaped = True
        elif isinstance(s, _ast.For):
            break
    if not reshaped or e3.need_nonempty:
        raise Untranslatable("CP_PLSR.transform: Y validation")
    cb = [e3.boolean(t) for t in conds_before]
    e3.env["Y"] = "(y_matrix_src sy)"
    ca = [e3.boolean(t) for t in conds_after]
    out.append(f"Definition transform_y_rejects_src (yshape sy : list nat) : bool := {_ite(cb + ca)}.")
    return "\n".join(out)


PLSR_LEMMAS = r'''
Ltac cases_nat := repeat match goal with
  | |- context [Nat.eqb ?a ?b] => destruct (Nat.eqb_spec a b)
  | |- context [Nat.ltb ?a ?b] => destruct (Nat.ltb_spec a b)
  | |- context [Nat.leb ?a ?b] => destruct (Nat.leb_spec a b)
  end.
Lemma fit_rejects_src_ok : forall sx sy, fit_rejects_src sx sy = plsr_fit_rejects sx sy.
Proof.
  intros [|nx sx] [|ny sy]; try reflexivity; unfold fit_rejects_src, plsr_fit_rejects; cbn [length nth];
    cases_nat; cbn; try reflexivity; exfalso; lia.
Qed.
Lemma y_matrix_src_ok : forall sy, y_matrix_src sy = y_matrix_shape sy.
Proof. intros [|n [|m l]]; reflexivity. Qed.
Lemma skipn1 : forall (l : list nat), skipn 1 l = tl l. Proof. now destruct l. Qed.
Lemma predict_x_rejects_src_ok : forall xs s, predict_x_rejects_src xs s = plsr_new_x_rejects xs s.
Proof. intros. unfold predict_x_rejects_src, plsr_new_x_rejects. rewrite ?skipn1. reflexivity. Qed.
Lemma transform_x_rejects_src_ok : forall xs s, transform_x_rejects_src xs s = plsr_new_x_rejects xs s.
Proof. intros. unfold transform_x_rejects_src, plsr_new_x_rejects. rewrite ?skipn1. reflexivity. Qed.
Lemma transform_y_rejects_src_ok : forall ys sy, transform_y_rejects_src ys sy = plsr_new_y_rejects ys sy.
Proof.
  intros. unfold transform_y_rejects_src, plsr_new_y_rejects. rewrite ?skipn1, ?y_matrix_src_ok.
  destruct (nl_eqb (tl ys) (tl (y_matrix_shape sy))); cases_nat; cbn; try reflexivity; exfalso; lia.
Qed.
(* every attribute the model's zero state relies on is bound before the component loop, the factor matrices and coef_ as zeros *)
Lemma pre_loop_attrs_src_ok :
  forallb (fun a => existsb (String.eqb a) pre_loop_attrs_src) plsr_pre_loop_attrs = true /\
  forallb (fun a => existsb (String.eqb a) zero_init_attrs_src) ["X_factors"; "Y_factors"; "coef_"]%string = true.
Proof. split; vm_compute; reflexivity. Qed.
'''


# ---- the regressors' fit loop
def _name(e, n=None):
    return isinstance(e, _ast.Name) and (n is None or e.id == n)


def _tuple_names(e):
    if isinstance(e, _ast.Tuple) and all(isinstance(x, _ast.Name) for x in e.elts):
        return tuple(x.id for x in e.elts)
    return None


def _fexpr(e, env):
    """float expression of the stopping test -> Gallina over a record of operations"""
    if isinstance(e, _ast.Name) and e.id in env:
        return env[e.id]
    if _is_self_attr(e, "tol"):
        return "tol"
    if isinstance(e, _ast.Subscript) and _name(e.value, "norm_W") and isinstance(e.slice, _ast.UnaryOp) and isinstance(e.slice.op, _ast.USub) \
            and isinstance(e.slice.operand, _ast.Constant) and e.slice.operand.value in (1, 2):
        return "a" if e.slice.operand.value == 1 else "b"
    if isinstance(e, _ast.BinOp) and isinstance(e.op, (_ast.Add, _ast.Sub, _ast.Mult, _ast.Div)):
        f = {_ast.Add: "fadd", _ast.Sub: "fsub", _ast.Mult: "fmul", _ast.Div: "fdiv"}[type(e.op)]
        return f"({f} Op {_fexpr(e.left, env)} {_fexpr(e.right, env)})"
    if isinstance(e, _ast.Call) and not e.keywords and len(e.args) == 1 and \
            ((isinstance(e.func, _ast.Attribute) and e.func.attr == "abs" and _name(e.func.value) and e.func.value.id in ("T", "tl", "np")) or _name(e.func, "abs")):
        return f"(fabs Op {_fexpr(e.args[0], env)})"
    raise Untranslatable("float expression " + _ast.dump(e)[:80])


def gen_regressor(path, cls, tag, rebuild_fn, vec_fn, blocks_attr):
    fns = _src_class(path, cls)
    body = _doc_stripped(fns["fit"].body)
    loops = [i for i, s in enumerate(body) if isinstance(s, _ast.For) and _name(s.target, "iteration")]
    if len(loops) != 1:
        raise Untranslatable(f"{cls}.fit: the `for iteration` loop")
    k = loops[0]
    loop = body[k]
    if not (isinstance(loop.iter, _ast.Call) and _name(loop.iter.func, "range") and len(loop.iter.args) == 1 and _is_self_attr(loop.iter.args[0], "n_iter_max")) or loop.orelse:
        raise Untranslatable(f"{cls}.fit: the loop does not run over range(self.n_iter_max)")
    if _self_stores(body[:k + 1]):
        raise Untranslatable(f"{cls}.fit binds an attribute of self before the end of its loop (a raising fit would modify the object): {_self_stores(body[:k + 1])}")
    if len(loop.body) < 3:
        raise Untranslatable(f"{cls}.fit: loop body")
    rb, ap, chk = loop.body[-3], loop.body[-2], loop.body[-1]
    # weight_tensor_ = cp_to_tensor((weights, W))
    if not (isinstance(rb, _ast.Assign) and len(rb.targets) == 1 and _name(rb.targets[0], "weight_tensor_") and isinstance(rb.value, _ast.Call)
            and _name(rb.value.func, rebuild_fn) and len(rb.value.args) == 1 and _tuple_names(rb.value.args[0])):
        raise Untranslatable(f"{cls}.fit: `weight_tensor_ = {rebuild_fn}((..))` is not the third-last statement of the pass")
    blocks = _tuple_names(rb.value.args[0])
    # the blocks must not be re-assigned after the rebuild
    # norm_W.append(T.norm(weight_tensor_, 2))
    v = ap.value if isinstance(ap, _ast.Expr) else None
    if not (isinstance(v, _ast.Call) and isinstance(v.func, _ast.Attribute) and v.func.attr == "append" and _name(v.func.value, "norm_W") and len(v.args) == 1
            and isinstance(v.args[0], _ast.Call) and isinstance(v.args[0].func, _ast.Attribute) and v.args[0].func.attr == "norm"
            and _name(v.args[0].args[0], "weight_tensor_") and len(v.args[0].args) == 2 and isinstance(v.args[0].args[1], _ast.Constant) and v.args[0].args[1].value == 2):
        raise Untranslatable(f"{cls}.fit: `norm_W.append(T.norm(weight_tensor_, 2))`")
    # if iteration > 1: weight_evolution = ...; if weight_evolution <= self.tol: ...; break
    if not (isinstance(chk, _ast.If) and not chk.orelse):
        raise Untranslatable(f"{cls}.fit: convergence check")
    gx = ShapeExpr({})
    t = chk.test
    if not (isinstance(t, _ast.Compare) and len(t.ops) == 1 and _name(t.left, "iteration") and isinstance(t.comparators[0], _ast.Constant)):
        raise Untranslatable(f"{cls}.fit: guard of the convergence check")
    guard = {_ast.Gt: "(Nat.ltb {c} iteration)", _ast.GtE: "(Nat.leb {c} iteration)"}.get(type(t.ops[0]))
    if guard is None:
        raise Untranslatable(f"{cls}.fit: guard comparison")
    guard = guard.format(c=int(t.comparators[0].value))
    env = {}
    inner = None
    for s in chk.body:
        if isinstance(s, _ast.Assign) and len(s.targets) == 1 and _name(s.targets[0]):
            env[s.targets[0].id] = _fexpr(s.value, env)
        elif isinstance(s, _ast.If) and not s.orelse and inner is None:
            inner = s
        else:
            raise Untranslatable(f"{cls}.fit: statement in the convergence check")
    if inner is None or not isinstance(inner.body[-1], _ast.Break) or \
            not all(isinstance(s, _ast.Break) or (isinstance(s, _ast.If) and all(isinstance(x, _ast.Expr) for x in s.body)) or isinstance(s, _ast.Expr) for s in inner.body):
        raise Untranslatable(f"{cls}.fit: the stopping branch")
    c = inner.test
    if not (isinstance(c, _ast.Compare) and len(c.ops) == 1):
        raise Untranslatable(f"{cls}.fit: the stopping test")
    l, r = _fexpr(c.left, env), _fexpr(c.comparators[0], env)
    small = {_ast.LtE: f"fleb Op {l} {r}", _ast.Lt: f"fltb Op {l} {r}", _ast.GtE: f"fleb Op {r} {l}", _ast.Gt: f"fltb Op {r} {l}"}.get(type(c.ops[0]))
    if small is None:
        raise Untranslatable(f"{cls}.fit: the stopping comparison")
    # ---- after the loop
    post = body[k + 1:]
    stores = {}
    for s in post:
        if isinstance(s, _ast.Return):
            if not _name(s.value, "self"):
                raise Untranslatable(f"{cls}.fit does not return self")
            continue
        if not (isinstance(s, _ast.Assign) and len(s.targets) == 1 and _is_self_attr(s.targets[0])):
            raise Untranslatable(f"{cls}.fit: statement after the loop " + _ast.dump(s)[:60])
        stores[s.targets[0].attr] = s.value
    first = post[0] if post else None
    if not (isinstance(first, _ast.Assign) and len(first.targets) == 1 and _is_self_attr(first.targets[0], "weight_tensor_")):
        raise Untranslatable(f"{cls}.fit: the first statement after the loop is not `self.weight_tensor_ = weight_tensor_` (with n_iter_max = 0 the source raises "
                             "there; an attribute bound before it would survive a raising fit)")
    need = {"weight_tensor_", blocks_attr, "vec_W_", "n_iterations_", "norm_W_"}
    if set(stores) != need:
        raise Untranslatable(f"{cls}.fit binds {sorted(stores)} after the loop, expected {sorted(need)}")
    if not _name(stores["weight_tensor_"], "weight_tensor_"):
        raise Untranslatable(f"{cls}.fit: self.weight_tensor_ is not the local of the last pass")
    if _tuple_names(stores[blocks_attr]) != blocks:
        raise Untranslatable(f"{cls}.fit: self.{blocks_attr} is not the tuple the weight tensor was rebuilt from")
    vv = stores["vec_W_"]
    if not (isinstance(vv, _ast.Call) and _name(vv.func, vec_fn) and len(vv.args) == 1 and _tuple_names(vv.args[0]) == blocks):
        raise Untranslatable(f"{cls}.fit: self.vec_W_ is not {vec_fn} of the exposed blocks")
    if not _name(stores["norm_W_"], "norm_W"):
        raise Untranslatable(f"{cls}.fit: self.norm_W_")
    ni = stores["n_iterations_"]
    if isinstance(ni, _ast.BinOp) and isinstance(ni.op, _ast.Add) and _name(ni.left, "iteration") and isinstance(ni.right, _ast.Constant) and isinstance(ni.right.value, int):
        nit = f"(length norms - 1 + {ni.right.value})"
    elif _name(ni, "iteration"):
        nit = "(length norms - 1)"
    elif isinstance(ni, _ast.Call) and _name(ni.func, "len") and len(ni.args) == 1 and _name(ni.args[0], "norm_W"):
        nit = "(length norms)"
    else:
        raise Untranslatable(f"{cls}.fit: self.n_iterations_")
    nit_ns = nit.replace('norms', 'ns')
    return f'''
Section Src_{tag}.
Context {{F P : Type}} (Op : fops F).
Variable sweep : P -> P.
Variable rebuild : P -> tensor F.
Variable nrm : tensor F -> F.
Variable tol : F.
Definition guard_{tag} (iteration : nat) : bool := {guard}.
Definition small_{tag} (a b : F) : bool := {small}.
Fixpoint loop_{tag} (fuel iteration : nat) (w : P) (wt : option (tensor F)) (norms : list F) : P * option (tensor F) * list F :=
  match fuel with
  | O => (w, wt, norms)
  | S k =>
      let w' := sweep w in
      let wt' := rebuild w' in
      let norms' := nrm wt' :: norms in
      if guard_{tag} iteration && (match norms' with a :: b :: _ => small_{tag} a b | _ => false end)
      then (w', Some wt', norms')
      else loop_{tag} k (S iteration) w' (Some wt') norms'
  end.
Definition fit_{tag} (n_iter_max : nat) (w0 : P) : res (reg_full (F:=F) (P:=P)) :=
  match loop_{tag} n_iter_max 0 w0 None [] with
  | (w, Some wt, norms) => Ok (mkFull (mkReg wt w (tensor_to_vec (rebuild w))) {nit} (rev norms))
  | (_, None, _) => Err
  end.
Lemma loop_{tag}_ok : forall fuel it w wt norms,
  loop_{tag} fuel it w wt norms = reg_loop sweep rebuild nrm (rel_small Op tol) fuel it w wt norms.
Proof. induction fuel as [|k IH]; intros; cbn [loop_{tag} reg_loop]; [reflexivity|]. cbv zeta. rewrite IH. reflexivity. Qed.
Lemma fit_{tag}_ok : forall n w0, fit_{tag} n w0 = reg_fit_full sweep rebuild nrm (rel_small Op tol) n w0.
Proof.
  intros n w0. unfold fit_{tag}. rewrite loop_{tag}_ok.
  pose proof (reg_fit_trace sweep rebuild nrm (rel_small Op tol) w0 n) as T. unfold reg_fit_full in *.
  destruct (reg_loop sweep rebuild nrm (rel_small Op tol) n 0 w0 None []) as [[w wt] ns]. destruct wt as [t|]; [|reflexivity].
  specialize (T _ eq_refl). cbv zeta in T. cbn [rf_n_iterations] in T. destruct T as [[T1 _] _].
  assert (E : {nit_ns} = length ns) by lia. try rewrite E. reflexivity.
Qed.
End Src_{tag}.
'''



# ---- CPRegressor.predict / TuckerRegressor.predict: the reshape specifications and the composition
def _nat_pred(e):
    """naturals of predict: T.ndim(X), T.ndim(self.weight_tensor_), constants, a - b / a + b"""
    if isinstance(e, _ast.Constant) and isinstance(e.value, int) and not isinstance(e.value, bool) and e.value >= 0:
        return str(e.value)
    if isinstance(e, _ast.Call) and isinstance(e.func, _ast.Attribute) and e.func.attr == "ndim" and len(e.args) == 1:
        a = e.args[0]
        if _name(a, "X"):
            return "ndx"
        if _is_self_attr(a, "weight_tensor_"):
            return "(length ws)"
    if isinstance(e, _ast.BinOp) and isinstance(e.op, (_ast.Sub, _ast.Add)):
        return f"({_nat_pred(e.left)} {'-' if isinstance(e.op, _ast.Sub) else '+'} {_nat_pred(e.right)})"
    raise Untranslatable("number in predict " + _ast.dump(e)[:80])


def _wshape_tail(e):
    """self.weight_tensor_.shape[k:] -> skipn k ws"""
    if isinstance(e, _ast.Subscript) and isinstance(e.value, _ast.Attribute) and e.value.attr == "shape" and _is_self_attr(e.value.value, "weight_tensor_") \
            and isinstance(e.slice, _ast.Slice) and e.slice.upper is None and e.slice.step is None and e.slice.lower is not None:
        return f"(skipn {_nat_pred(e.slice.lower)} ws)"
    raise Untranslatable("shape slice in predict " + _ast.dump(e)[:80])


def _spec(e):
    if not isinstance(e, _ast.Tuple):
        raise Untranslatable("reshape specification " + _ast.dump(e)[:60])
    parts = []
    for x in e.elts:
        if isinstance(x, _ast.UnaryOp) and isinstance(x.op, _ast.USub) and isinstance(x.operand, _ast.Constant) and x.operand.value == 1:
            parts.append("[None]")
        elif isinstance(x, _ast.Starred):
            parts.append(f"map Some {_wshape_tail(x.value)}")
        elif isinstance(x, _ast.Call) and _name(x.func, "int") and len(x.args) == 1 and isinstance(x.args[0], _ast.Call) and \
                isinstance(x.args[0].func, _ast.Attribute) and x.args[0].func.attr == "prod" and len(x.args[0].args) == 1:
            parts.append(f"[Some (prod {_wshape_tail(x.args[0].args[0])})]")
        else:
            raise Untranslatable("element of a reshape specification " + _ast.dump(x)[:60])
    return "(" + " ++ ".join(parts) + ")"


def _is_call(e, attr, n):
    return isinstance(e, _ast.Call) and ((isinstance(e.func, _ast.Attribute) and e.func.attr == attr) or _name(e.func, attr)) and len(e.args) == n and not e.keywords


PREDICT_LEMMA = """
Lemma predict_cp_src_ok : forall (F : Type) (Op : fops F) (W X : tensor F),
  predict_cp Op W X =
  rbind (partial_tensor_to_vec (f0 Op) X 1 0) (fun xv =>
  rbind (reshape_spec (w_spec_src (shape W) (ndim X)) W) (fun wm =>
  rbind (dot Op xv wm) (fun p => reshape_spec (out_spec_src (shape W) (ndim X)) p))).
Proof. intros. unfold predict_cp, w_spec_src, out_spec_src, ndim. cbn [app]. reflexivity. Qed.
"""


def gen_predict(cp_path, tk_path):
    fns = _src_class(cp_path, "CPRegressor")
    b = _doc_stripped(fns["predict"].body)
    if _self_stores(b) or not isinstance(b[-1], _ast.Return):
        raise Untranslatable("CPRegressor.predict")
    defs = {}
    for s in b[:-1]:
        if isinstance(s, _ast.Assign) and len(s.targets) == 1 and _name(s.targets[0]):
            defs[s.targets[0].id] = _spec(s.value)
        elif isinstance(s, _ast.If) and len(s.body) == 1 and len(s.orelse) == 1 and all(isinstance(x, _ast.Assign) and len(x.targets) == 1 and _name(x.targets[0]) for x in (s.body[0], s.orelse[0])) \
                and s.body[0].targets[0].id == s.orelse[0].targets[0].id and isinstance(s.test, _ast.Compare) and len(s.test.ops) == 1:
            a, c = _nat_pred(s.test.left), _nat_pred(s.test.comparators[0])
            t = {_ast.Gt: f"Nat.ltb {c} {a}", _ast.GtE: f"Nat.leb {c} {a}", _ast.Lt: f"Nat.ltb {a} {c}", _ast.LtE: f"Nat.leb {a} {c}"}.get(type(s.test.ops[0]))
            if t is None:
                raise Untranslatable("comparison in CPRegressor.predict")
            defs[s.body[0].targets[0].id] = f"(if {t} then {_spec(s.body[0].value)} else {_spec(s.orelse[0].value)})"
        else:
            raise Untranslatable("statement of CPRegressor.predict " + _ast.dump(s)[:60])
    r = b[-1].value          # T.reshape(T.dot(partial_tensor_to_vec(X), T.reshape(self.weight_tensor_, weight_shape)), out_shape)
    if not (_is_call(r, "reshape", 2) and _name(r.args[1]) and _is_call(r.args[0], "dot", 2) and _is_call(r.args[0].args[0], "partial_tensor_to_vec", 1)
            and _name(r.args[0].args[0].args[0], "X") and _is_call(r.args[0].args[1], "reshape", 2) and _is_self_attr(r.args[0].args[1].args[0], "weight_tensor_")
            and _name(r.args[0].args[1].args[1])):
        raise Untranslatable("CPRegressor.predict: the returned composition")
    outn, wn = r.args[1].id, r.args[0].args[1].args[1].id
    if outn not in defs or wn not in defs:
        raise Untranslatable("CPRegressor.predict: reshape specifications")
    # TuckerRegressor.predict: T.dot(partial_tensor_to_vec(X), self.vec_W_)
    tb = _doc_stripped(_src_class(tk_path, "TuckerRegressor")["predict"].body)
    if not (len(tb) == 1 and isinstance(tb[0], _ast.Return) and _is_call(tb[0].value, "dot", 2) and _is_call(tb[0].value.args[0], "partial_tensor_to_vec", 1)
            and _name(tb[0].value.args[0].args[0], "X") and _is_self_attr(tb[0].value.args[1], "vec_W_")):
        raise Untranslatable("TuckerRegressor.predict is not T.dot(partial_tensor_to_vec(X), self.vec_W_)")
    return (f"\nDefinition out_spec_src (ws : list nat) (ndx : nat) : list (option nat) := {defs[outn]}.\n"
            f"Definition w_spec_src (ws : list nat) (ndx : nat) : list (option nat) := {defs[wn]}.\n" + PREDICT_LEMMA)


SRC_HEADER = '''From Coq Require Import List Arith Bool Lia. From Coq Require String. Import ListNotations.
From TLV Require Import Base.Shape Base.PyList Base.Tensor Base.Ops Model.Base Model.Regress Model.RegressObj Proofs.RegressProofsObj.
Import String.StringSyntax. Delimit Scope string_scope with string.
Open Scope nat_scope.
(* GENERATED from the TensorLy source by harness/props/C19.py (ast -> Gallina); do not edit *)
'''


PLSR_BOX = """
Definition ext (l : list (list nat)) : list (list nat) := flat_map (fun s => map (fun d => d :: s) [1; 2; 3]) l.
Definition box : list (list nat) := [[]] ++ ext [[]] ++ ext (ext [[]]) ++ ext (ext (ext [[]])) ++ ext (ext (ext (ext [[]]))).
Definition all2b (f : list nat -> list nat -> bool) : bool := forallb (fun a => forallb (f a) box) box.
(* fallback when the universal proofs do not go through (a re-formulated but equivalent test): all shapes of order 0-4 over mode sizes 1-3 *)
Lemma shape_tests_box :
  all2b (fun sx sy => Bool.eqb (fit_rejects_src sx sy) (plsr_fit_rejects sx sy)) = true /\\
  forallb (fun sy => nl_eqb (y_matrix_src sy) (y_matrix_shape sy)) box = true /\\
  all2b (fun a b => Bool.eqb (predict_x_rejects_src a b) (plsr_new_x_rejects a b)) = true /\\
  all2b (fun a b => Bool.eqb (transform_x_rejects_src a b) (plsr_new_x_rejects a b)) = true /\\
  all2b (fun a b => Bool.eqb (transform_y_rejects_src a b) (plsr_new_y_rejects a b)) = true.
Proof. vm_compute. repeat split. Qed.
Lemma pre_loop_attrs_src_ok :
  forallb (fun a => existsb (String.eqb a) pre_loop_attrs_src) plsr_pre_loop_attrs = true /\\
  forallb (fun a => existsb (String.eqb a) zero_init_attrs_src) ["X_factors"; "Y_factors"; "coef_"]%string = true.
Proof. split; vm_compute; reflexivity. Qed.
"""

PREDICT_BOX = """
From Coq Require Import ZArith.
From TLV Require Import Corr.Common.
Definition ext (l : list (list nat)) : list (list nat) := flat_map (fun s => map (fun d => d :: s) [1; 2; 3]) l.
Definition box : list (list nat) := ext [[]] ++ ext (ext [[]]) ++ ext (ext (ext [[]])).
Definition mkt (s : list nat) (off : Z) : tensor Z := tabulate s (fun idx => (Z.of_nat (ravel s idx) * 3 + off)%Z).
Definition predict_src (W X : tensor Z) : res (tensor Z) :=
  rbind (partial_tensor_to_vec 0%Z X 1 0) (fun xv =>
  rbind (reshape_spec (w_spec_src (shape W) (ndim X)) W) (fun wm =>
  rbind (dot Zops xv wm) (fun p => reshape_spec (out_spec_src (shape W) (ndim X)) p))).
(* fallback: every weight shape and every data shape of order 1-3 over mode sizes 1-3 (matching and mis-shaped requests) *)
Lemma predict_cp_src_box :
  forallb (fun ws => forallb (fun xs => res_eqb zt_eqb (predict_cp Zops (mkt ws 1) (mkt xs (-2))) (predict_src (mkt ws 1) (mkt xs (-2)))) box) box = true.
Proof. vm_compute. reflexivity. Qed.
"""


LOOP_BOX = """
From Coq Require Import ZArith.
From TLV Require Import Corr.Common.
(* fallback: the regenerated loop and stored attributes against the model's on a finite box -- blocks = pass counter, the norm after
   pass j read from a table (all tables of length 6 over {1, 2, 4, 9}), tolerances 0-2 (integer division), budgets 0-7 *)
Definition ext (l : list (list Z)) : list (list Z) := flat_map (fun s => map (fun d => d :: s) [1; 2; 4; 9]%Z) l.
Definition tables : list (list Z) := ext (ext (ext (ext (ext (ext [[]]))))).
Definition proj (r : res (reg_full (F:=Z) (P:=nat))) : list Z :=
  match r with Ok x => Z.of_nat (rf_n_iterations x) :: Z.of_nat (r_blocks (rf_stored x)) :: rf_norm_W x ++ data (r_weight_tensor (rf_stored x)) | Err => [] end.
Lemma loop_TAG_box :
  forallb (fun tbl => forallb (fun tol => forallb (fun n =>
    let rebuild := fun w : nat => mk [1] [nth w tbl 1%Z] in
    let nrm := fun t : tensor Z => nth 0 (data t) 0%Z in
    z_list_eqb (proj (fit_TAG Zops S rebuild nrm tol n 0)) (proj (reg_fit_full S rebuild nrm (rel_small Zops tol) n 0)))
    (seq 0 8)) [0; 1; 2]%Z) tables = true.
Proof. vm_compute. reflexivity. Qed.
"""


def generate_source_groups(repo):
    """-> list of (group name, file proving the universal lemmas, fallback file (finite box, vm_compute) or None)"""
    import os
    R = os.path.join(repo, "tensorly", "regression")
    plsr = gen_plsr(os.path.join(R, "cp_plsr.py"))
    pred = gen_predict(os.path.join(R, "cp_regression.py"), os.path.join(R, "tucker_regression.py"))
    pred_defs = pred[:pred.index("Lemma predict_cp_src_ok")]
    cpl = gen_regressor(os.path.join(R, "cp_regression.py"), "CPRegressor", "cp", "cp_to_tensor", "cp_to_vec", "cp_weight_")
    tkl = gen_regressor(os.path.join(R, "tucker_regression.py"), "TuckerRegressor", "tk", "tucker_to_tensor", "tucker_to_vec", "tucker_weight_")
    from harness.props import C19_blocks
    blocks = [(name, text, None) for name, text in C19_blocks.generate(repo) + C19_blocks.generate_plsr(repo)]
    return blocks + [("CP_PLSR shape tests and pre-loop attributes", SRC_HEADER + plsr + PLSR_LEMMAS, SRC_HEADER + plsr + PLSR_BOX),
            ("CPRegressor.fit loop", SRC_HEADER + cpl, SRC_HEADER + cpl[:cpl.index("Lemma loop_cp_ok")] + "End Src_cp.\n" + LOOP_BOX.replace("TAG", "cp")),
            ("TuckerRegressor.fit loop", SRC_HEADER + tkl, SRC_HEADER + tkl[:tkl.index("Lemma loop_tk_ok")] + "End Src_tk.\n" + LOOP_BOX.replace("TAG", "tk")),
            ("predict of both regressors", SRC_HEADER + pred, SRC_HEADER + pred_defs + PREDICT_BOX)]


def source_tie(chk):
    """regenerate the source-derived definitions from the CURRENT tensorly tree and re-check the lemmas tying them to the model.
    Fails closed: a construct the translator does not cover is a broken tie.  A group whose universal lemmas fail is re-checked on
    a finite box (vm_compute) where one exists: an equivalent re-formulation of a test is then reported in the evidence only."""
    import os, shutil, subprocess
    d = os.path.join(C.BUILD, "gen", f"C19_{os.getpid()}")
    os.makedirs(d, exist_ok=True)
    # The verdict of coqc on a generated file is a function of its text and of the compiled objects it loads.  The text is
    # regenerated from the CURRENT source on every run; in the quick tier a text already proved against the same compiled objects
    # is not re-checked (same rule as common.print_assumptions: VERIF_NO_PA_CACHE=1 disables it, the thorough tier always re-checks
    # and refreshes the cache).  Only "proved" verdicts are remembered.
    import hashlib, json
    cache_fn = os.path.join(C.BUILD, "pa_cache", "C19_source_tie.json")
    stamp = C._vo_stamp()
    known = set()
    try:
        cj = json.load(open(cache_fn))
        if cj.get("stamp") == stamp:
            known = set(cj.get("proved", []))
    except Exception:
        pass
    use_cache = chk.tier == "quick" and not os.environ.get("VERIF_NO_PA_CACHE")
    proved_now, hits = set(), []

    def coqc(name, text):
        h = hashlib.sha256(text.encode()).hexdigest()
        if use_cache and h in known:
            hits.append(name); proved_now.add(h)
            return "proved", ""
        st, detail = coqc_run(name, text)
        if st == "proved":
            proved_now.add(h)
        return st, detail

    def coqc_run(name, text):
        fn = os.path.join(d, name)
        open(fn, "w").write(text)
        r = None
        for attempt in range(2):
            r = subprocess.run(["timeout", "600", "coqc", "-w", "none", "-R", os.path.join(C.COQ, "theories"), "TLV", fn], capture_output=True, text=True, cwd=d)
            if r.returncode in (0, 1):
                break
        if r.returncode == 0:
            return "proved", ""
        if r.returncode == 1 and "Error" in (r.stdout + r.stderr):
            return "failed", (r.stdout + r.stderr)[-1500:]
        return "skipped", f"coqc rc {r.returncode} (killed / timeout on a loaded machine)"
    try:
        from harness.props import C19_blocks
        try:
            groups = generate_source_groups(C.REPO)
        except (Untranslatable, C19_blocks.Untranslatable, KeyError, IndexError, ValueError, SyntaxError, OSError, AttributeError, ImportError) as e:
            chk.broken.append({"what": "source tie corr:C19-source broken: the ast translator does not cover the current source of tensorly/regression (validation chain of CP_PLSR, "
                                       "attributes bound before its component loop, loop skeleton / stopping test / stored attributes of the regressors, predict)", "detail": f"{type(e).__name__}: {e}"})
            chk.cov["source_derived_lemmas"] = "untranslatable source"
            return
        chk.checker_cmds.append("coqc on generated build/gen/C19_*/Src*.v (tensorly/regression source -> Gallina): fit_rejects_src_ok, y_matrix_src_ok, predict_x_rejects_src_ok, "
                                "transform_x_rejects_src_ok, transform_y_rejects_src_ok, pre_loop_attrs_src_ok, loop_cp_ok, fit_cp_ok, loop_tk_ok, fit_tk_ok, predict_cp_src_ok, cp_blocks_src_box, tk_blocks_src_box, plsr_bodies_src_box")
        res = {}
        from concurrent.futures import ThreadPoolExecutor
        with ThreadPoolExecutor(max_workers=4) as ex:
            firsts = list(ex.map(lambda kg: coqc(f"Src{kg[0]}.v", kg[1][1]), enumerate(groups)))
        for k, (name, main, fallback) in enumerate(groups):
            st, detail = firsts[k]
            if st == "failed" and fallback is not None:
                st2, detail2 = coqc(f"Src{k}box.v", fallback)
                if st2 == "proved":
                    st = "universal proof script failed; equal on the finite box (vm_compute)"
                elif st2 == "failed":
                    detail = detail2
                else:
                    st = st2
            res[name] = st
            if st == "failed":
                chk.broken.append({"what": f"source tie corr:C19-source broken ({name}): a definition regenerated from the current source of tensorly/regression no longer equals the model's",
                                   "detail": detail})
        chk.cov["source_derived_lemmas"] = res
        chk.cov["source_derived_lemmas_answered_from_cache"] = len(hits)
        try:
            os.makedirs(os.path.dirname(cache_fn), exist_ok=True)
            tmp = cache_fn + f".{os.getpid()}.tmp"
            json.dump({"stamp": stamp, "proved": sorted(proved_now | (known if use_cache else set()))}, open(tmp, "w"))
            os.replace(tmp, cache_fn)
        except OSError:
            pass
    finally:
        shutil.rmtree(d, ignore_errors=True)


def dtype_probes(chk, rng):
    """non-float64 inputs (outside the Coq model, implementation-only predicates): float32 and int64 data through both regressors
    (predict == contraction with the exposed weight_tensor_ == reconstruction of the exposed factors, at the precision of the dtype);
    integer-valued new data through a float64-fitted CP_PLSR (recorded, see build/fix_candidates/C19_plsr_integer_input.md:
    today predict / transform raise a casting error; once they accept integers the values are compared with the float64 call)"""
    from tensorly.regression.cp_regression import CPRegressor
    from tensorly.regression.tucker_regression import TuckerRegressor
    res = {}
    for kind in ("cp", "tucker"):
        for dt, rt in ((np.float32, 2e-4), (np.int64, 1e-8)):
            n, sx = rng.randint(4, 7), (rng.randint(2, 3), rng.randint(2, 3))
            X = dyadic(rng, (n,) + sx, denom=1 if dt is np.int64 else 8).astype(dt)
            y = dyadic(rng, (n,), denom=1 if dt is np.int64 else 8).astype(dt)
            seed = rng.randint(0, 10 ** 6)
            mk = (lambda: CPRegressor(weight_rank=2, n_iter_max=3, random_state=seed, verbose=0)) if kind == "cp" else \
                 (lambda: TuckerRegressor(weight_ranks=[2, 1], n_iter_max=3, random_state=seed, verbose=0))
            try:
                st, r = call(lambda: mk().fit(X.copy(), y.copy()))
            except Skip:
                continue
            key = f"{kind}/{np.dtype(dt).name}"
            if st != "ok":
                res[key] = "fit raised"
                continue
            W = np.asarray(r.weight_tensor_, dtype=np.float64)
            blocks = r.cp_weight_ if kind == "cp" else r.tucker_weight_
            fs = [np.asarray(f, dtype=np.float64) for f in blocks[1]]
            full = cp_full(np.asarray(blocks[0], dtype=np.float64), fs) if kind == "cp" else tucker_full(np.asarray(blocks[0], dtype=np.float64), fs)
            stp, pr = call(r.predict, X.copy())
            inp = {"kind": kind, "X": X, "y": y, "rank": 2 if kind == "cp" else [2, 1], "reg": 1, "seed": seed, "n_iter": 3, "Xn": X[:2], "dtype": np.dtype(dt).name}
            if not finite_ok(W, full):
                res[key] = "non-finite"
                continue
            if not close(W, full, rt) or not close(np.asarray(r.vec_W_, dtype=np.float64), W.reshape(-1), 1e-12):
                chk.finding(ENTRY[kind], inp, f"{np.dtype(dt).name} data: weight_tensor_ / vec_W_ are not the reconstruction of the exposed factors", "C19_weight_is_reconstruction")
            if stp != "ok" or not close(np.asarray(pr, dtype=np.float64), contract(X.astype(np.float64), W), rt):
                chk.finding(ENTRY[kind], inp, f"{np.dtype(dt).name} data: predict != tensordot(X, weight_tensor_)", "C19_predict_is_contraction")
            res[key] = "ok"
            chk.count(key=("dtype_probe", key), nontrivial=True)
    # CP_PLSR fitted on float64, asked about integer-valued new data
    X = dyadic(rng, (6, 2, 3), denom=8); Y = X.reshape(6, -1) @ dyadic(rng, (6, 2), denom=4) + 0.25 * dyadic(rng, (6, 2), denom=8)
    Xi = np.array([rng.randint(-9, 9) for _ in range(12)], dtype=np.int64).reshape(2, 2, 3)
    try:
        st, r = call(fit_plsr_opts, X, Y, 1, 2, 0.0)
        if st == "ok":
            ref = call(r.predict, Xi.astype(np.float64)); got = call(r.predict, Xi.copy())
            if got[0] == "ok":
                if ref[0] != "ok" or not close(got[1], ref[1], 1e-12):
                    chk.finding(ENTRY["plsr"], {"kind": "plsr_int", "X": X, "y": Y, "Xn": Xi}, "predict(integer-valued X) != predict(the same values as float64)", "C19_plsr_predict")
                res["plsr/int64 new data"] = "ok"
            else:
                res["plsr/int64 new data"] = "raises: " + str(got[1])[:90] + " (reported: build/fix_candidates/C19_plsr_integer_input.md)"
    except Skip:
        pass
    chk.cov["dtype_probes"] = res
    chk.cov["integer_input_probe"] = res.get("plsr/int64 new data", "not run")


def degenerate_probes(chk, rng):
    """degenerate training data through CP_PLSR.fit (implementation only; the unit-norm clause is conditional on a successful fit):
    constant X, constant Y, X'Y = 0 exactly (every normalisation is 0/0), a NaN in X (the SVD inside initialize_cp raises in
    component 0: the object must be left with the zero factors bound before the component loop, C19_plsr_fit_init_raising_first).
    A fit that RETURNS on such data with a loading column that is not finite or not of unit norm is a finding; a raise is
    recorded.  Also: score(X, y) for a vector y (reported: the (n, 1) predictions are broadcast against the (n,) targets)."""
    from tensorly.regression.cp_plsr import CP_PLSR
    res = {}
    n, sx = 4, (2, 3)
    A = dyadic(rng, sx, denom=8); A[0, 0] = 1.0
    s = np.array([1.0, -1.0, 1.0, -1.0]); t = np.array([1.0, 1.0, -1.0, -1.0])
    Xb = dyadic(rng, (n,) + sx, denom=8); Yb = dyadic(rng, (n, 2), denom=8)
    Xnan = Xb.copy(); Xnan[rng.randint(0, n - 1), 1, rng.randint(0, 2)] = np.nan
    data = {"constant X": (np.broadcast_to(Xb[0], (n,) + sx).copy(), Yb),
            "constant Y": (Xb, np.broadcast_to(Yb[0], (n, 2)).copy()),
            "X'Y = 0": (s[:, None, None] * A, np.stack([t, 2 * t], 1)),
            "NaN in X": (Xnan, Yb)}
    for name, (X, Y) in data.items():
        for ncomp in (1, 2):
            r = CP_PLSR(n_components=ncomp, tol=0.0, n_iter_max=2)
            try:
                out = call(r.fit, X.copy(), Y.copy())
            except Skip:
                continue
            inp = {"kind": "plsr_degenerate", "X": X, "y": Y, "ncomp": ncomp, "n_iter": 2, "tol": 0.0, "what": name}
            if out[0] == "ok":
                cols = [np.linalg.norm(np.asarray(f), axis=0) for f in list(r.X_factors[1:]) + [r.Y_factors[1]]]
                if not all(np.all(np.isfinite(c)) and np.all(np.abs(c - 1) <= 1e-9) for c in cols):
                    chk.finding(ENTRY["plsr"], inp, f"fit on degenerate data ({name}) returned normally with loading columns of norm {[c.tolist() for c in cols]}", "C19_plsr_unit_norm")
                res[f"{name} / {ncomp}"] = "fit returned"
            else:
                res[f"{name} / {ncomp}"] = "raises: " + str(out[1])[:60]
                if name == "NaN in X" and hasattr(r, "X_factors"):
                    cols = list(r.X_factors) + list(r.Y_factors) + [r.coef_]
                    if any(np.any(np.asarray(c) != 0) for c in cols):
                        chk.finding(ENTRY["plsr"], inp, "fit raised in initialize_cp of component 0 but left non-zero factor columns", "C19_object_state")
            chk.count(key=("degenerate_probe", name, ncomp), nontrivial=True)
    # size-0 data (outside the model; recorded only): zero samples / an empty per-sample mode through the three fits
    from tensorly.regression.cp_regression import CPRegressor
    from tensorly.regression.tucker_regression import TuckerRegressor
    for shp in ((0, 2, 3), (4, 0, 3)):
        Xe = np.zeros(shp); ye = np.zeros((shp[0],)); Ye = np.zeros((shp[0], 2))
        for nm, mkf in (("CPRegressor", lambda: CPRegressor(weight_rank=2, n_iter_max=2, random_state=0, verbose=0).fit(Xe.copy(), ye.copy())),
                        ("TuckerRegressor", lambda: TuckerRegressor(weight_ranks=[1, 1], n_iter_max=2, random_state=0, verbose=0).fit(Xe.copy(), ye.copy())),
                        ("CP_PLSR", lambda: CP_PLSR(n_components=1, n_iter_max=2).fit(Xe.copy(), Ye.copy()))):
            try:
                out = call(mkf)
            except Skip:
                continue
            if out[0] != "ok":
                res[f"size-0 {shp} / {nm}"] = "raises: " + str(out[1])[:60]
            elif nm == "CP_PLSR":
                fin = all(np.all(np.isfinite(np.asarray(f))) for f in list(out[1].X_factors) + list(out[1].Y_factors))
                res[f"size-0 {shp} / {nm}"] = "fit returned, " + ("finite factors" if fin else "NON-FINITE factors (no error raised; reported)")
            else:
                res[f"size-0 {shp} / {nm}"] = "fit returned"
    chk.cov["degenerate_probe"] = res
    # score with a vector target
    X = dyadic(rng, (6, 2, 3), denom=8); y = X.reshape(6, -1) @ dyadic(rng, (6,), denom=4) + 0.25 * dyadic(rng, (6,), denom=8)
    try:
        st, r = call(fit_plsr_opts, X, y, 1, 3, 0.0)
        if st == "ok":
            a = call(r.score, X.copy(), y.copy()); b = call(r.score, X.copy(), y.reshape(-1, 1).copy())
            if a[0] == "ok" and b[0] == "ok":
                chk.cov["score_vector_y_probe"] = ("agrees with the column form" if close(a[1], b[1], 1e-9) else
                    f"score(X, y) = {float(a[1]):.6g} for a vector y, {float(b[1]):.6g} for the same targets as a column "
                    "(reported: build/fix_candidates/C19_plsr_score_vector_y.md)")
            else:
                chk.cov["score_vector_y_probe"] = f"raises: {a[1] if a[0] != 'ok' else b[1]}"[:120]
    except Skip:
        pass


# ----------------------------------------------------------------------------- driver
def describe(p):
    d = {k: v for k, v in p.items() if k not in ("X", "y", "Xn", "c", "d", "_seq", "loop_bad")}
    d["X"] = p["X"]; d["y"] = p["y"]
    if "Xn" in p:
        d["Xn"] = p["Xn"]
    if "c" in p:
        d["c"] = p["c"]; d["d"] = p["d"]
    d["X_shape"] = list(p["X"].shape); d["y_shape"] = list(np.shape(p["y"]))
    return d


def eval_problem(p):
    """-> (status, predicate failures, coq cases, comparable)"""
    if p["kind"] in ("cp", "tucker"):
        st, r = call(fit_reg, p)
        if st != "ok":
            return "fit-raised", [], [], True
        arrs = [r.weight_tensor_, r.vec_W_] + list((r.cp_weight_ if p["kind"] == "cp" else r.tucker_weight_)[1])
        arrs.append(r.cp_weight_[0] if p["kind"] == "cp" else r.tucker_weight_[0])
        if not finite_ok(*arrs):
            return "non-finite", [], [], True
        if p.get("want_stop"):
            p["_stopped_by"] = "tolerance" if int(r.n_iterations_) < int(p["n_iter"]) else "budget"
        return "ok", reg_predicates(p, r), ([] if p.get("pred_only") else reg_cases(p, r, 0)), True
    st, r = call(fit_plsr, p["X"], p["y"], p["ncomp"], p.get("n_iter", 100), p.get("tol", 1e-9))
    if st != "ok":
        return "fit-raised", [], [], True
    cols = [np.linalg.norm(np.asarray(f), axis=0) for f in list(r.X_factors[1:]) + [r.Y_factors[1]]]
    if not all(np.all(np.isfinite(c)) for c in cols):
        return "ok", [("C19_plsr_unit_norm", f"a fit that returned normally exposes non-finite loading columns (norms {[c.tolist() for c in cols]})")], [], True
    if not plsr_wellposed(r):
        return "ill-conditioned", [], [], True
    bad, comparable = plsr_predicates(p, r)
    bad2, p["_seq"] = plsr_sequences(p, r)
    return "ok", bad + bad2, plsr_cases(p, r), comparable


ENTRY = {"cp": "tensorly.regression.CPRegressor", "tucker": "tensorly.regression.TuckerRegressor", "plsr": "tensorly.regression.CP_PLSR"}


def load_corpus():
    import glob, json, os
    out = []
    for fn in sorted(glob.glob(os.path.join(C.VERIF, "corpus", "C19", "*.json"))):
        try:
            out.append(problem_from_json(json.load(open(fn))))
        except Exception:
            pass
    return out


def problem_from_json(d):
    p = dict(d)
    for k in ("X", "y", "Xn", "c", "d", "W"):
        if k in p and isinstance(p[k], dict):
            p[k] = C.from_jsonable_array(p[k])
    return p


_STAGE = {"t": None, "log": {}}


def stage(name):
    """CPU seconds (self + children) and wall seconds of the stage that just ended"""
    import os, time
    t = os.times(); now = (t[0] + t[1] + t[2] + t[3], time.time())
    if _STAGE["t"] is not None:
        pn, pt = _STAGE["t"]
        _STAGE["log"][pn] = [round(now[0] - pt[0], 1), round(now[1] - pt[1], 1)]
    _STAGE["t"] = (name, now)



def run(chk):
    rng = random.Random(chk.seed)
    stage('build_proofs')
    chk.build_proofs()
    stage('source_tie')
    # Coq prints a header line "Axioms:" before the list; common.print_assumptions captures that word as if it were an axiom
    chk.axioms = {k: [a for a in v if a != "Axioms"] for k, v in chk.axioms.items()}
    chk.broken = [b for b in chk.broken if not (str(b.get("what", "")).endswith("depends on non-stdlib axioms") and b.get("detail") == ["Axioms"])]
    C.reset_backends()
    source_tie(chk)
    stage('probes')
    dtype_probes(chk, random.Random(chk.seed + 19))
    # LAPACK reports the NaN arguments of the degenerate fits on the process's stdout / stderr ("On entry to DLASCL ..."): keep the
    # check's output clean
    import os, sys
    sys.stdout.flush(); sys.stderr.flush()
    _saved = (os.dup(1), os.dup(2)); _dn = os.open(os.devnull, os.O_WRONLY)
    os.dup2(_dn, 1); os.dup2(_dn, 2)
    try:
        degenerate_probes(chk, random.Random(chk.seed + 23))
    finally:
        sys.stdout.flush(); sys.stderr.flush()
        os.dup2(_saved[0], 1); os.dup2(_saved[1], 2)
        for _fd in _saved + (_dn,):
            os.close(_fd)
    cases, meta = [], []
    stage('predict_z')
    # 1. exact predict cases
    for kind, W, X in z_predict_cases(chk.tier, rng):
        fn = impl_predict_cp if kind == "cp" else impl_predict_tucker
        try:
            out = call(fn, W, X)
        except Skip:
            chk.hist("outcome", "timeout-skipped")
            continue
        if out[0] == "crash":
            # the implementation raised something other than a shape error: report through the predicate channel
            chk.finding(ENTRY[kind] + ".predict", {"kind": "predict_z", "which": kind, "W": W, "X": X}, f"predict crashed: {out[1]}", "C19_predict_is_contraction")
            continue
        ctor = "KPredCPZ" if kind == "cp" else "KPredTKZ"
        cases.append(f"({len(cases)}%nat, {ctor} {zt(W)} {zt(X)} {res_z(out)})")
        meta.append({"kind": "predict_z", "which": kind, "W": W, "X": X})
        chk.count(key=("predict_z", kind, W.shape, X.shape), nontrivial=X.size > 1 and out[0] == "ok")
        chk.hist("case", "predict_z_" + kind); chk.hist("outcome", out[0])
        if out[0] == "ok" and X.ndim >= 2 and W.ndim >= X.ndim - 1 and W.shape[:X.ndim - 1] == X.shape[1:]:
            ref = contract(X, W)
            if np.shape(out[1]) != ref.shape or not np.array_equal(out[1], ref):
                chk.finding(ENTRY[kind] + ".predict", {"kind": "predict_z", "which": kind, "W": W, "X": X},
                            "predict != contraction of each sample with the weights over the non-sample modes (exact, integers)", "C19_predict_is_contraction")
    # 2. fitted regressors and PLSR
    stage('fit_problems')
    corpus = load_corpus()
    problems = [p for p in corpus if p.get("kind") not in ("reg_seq", "plsr_seq")] + reg_problems(chk.tier, rng) + plsr_problems(chk.tier, rng)
    fit_problems = plsr_fit_problems(chk.tier, rng) + plsr_conv_problems(chk.tier, rng) + loop_problems(chk.tier, rng)
    skipped = 0
    for p in fit_problems:
        try:
            status, c = loop_case(p) if p["kind"].endswith("_loop") else plsr_fit_case(p)
        except Skip:
            status, c = "timeout-skipped", None
        chk.hist("fit_status_" + p["kind"], status)
        for pred, msg in p.get("loop_bad", []):
            q = {k: v for k, v in p.items() if k != "loop_bad"}
            q.update(kind="cp" if p["kind"] == "cp_loop" else "tucker", Xn=p["X"][:2], loop=True,
                     n_iter=p["chosen"]["n_iter_max"] if "chosen" in p else p["n_iter"], tol=p.get("chosen", {}).get("tol", -1.0))
            chk.finding(ENTRY[q["kind"]], describe(q), msg + " (run stopping by its convergence test)" , pred)
        if c is None:
            skipped += 1
            continue
        extra = c[1:] if isinstance(c, list) else []
        c = c[0] if isinstance(c, list) else c
        cases.append(f"({len(cases)}%nat, {c})")
        if p["kind"].endswith("_loop"):
            meta.append({"kind": p["kind"], "case": c.split(" ", 1)[0], "X_shape": list(p["X"].shape), "y_shape": list(np.shape(p["y"])),
                         "params": {k: p[k] for k in ("rank", "reg", "seed", "chosen")}, "problem": describe(p)})
            chk.count(key=(p["kind"], p["X"].shape, np.shape(p["y"]), str(p["rank"]), str(p["chosen"])), nontrivial=True)
            chk.hist("case", c.split(" ", 1)[0]); chk.hist("loop_stop_rule", "never" if p["chosen"]["tol"] < 0 else ("third pass" if p["chosen"]["tol"] > 1e8 else "margin-chosen tol"))
            continue
        meta.append({"kind": p["kind"], "case": p.get("ctor", "KPlsrFit"), "X_shape": list(p["X"].shape), "y_shape": list(np.shape(p["y"])),
                     "params": {k: p[k] for k in ("ncomp", "n_iter", "tol")}, "problem": describe(p)})
        chk.count(key=(p["kind"], p["X"].shape, np.shape(p["y"]), p["ncomp"], p["n_iter"], p["tol"]), nontrivial=True)
        chk.hist("case", p.get("ctor", "KPlsrFit")); chk.hist("plsr_fit_passes", f"n_iter_max={p['n_iter']} tol={p['tol']}")
        for c2 in extra:
            cases.append(f"({len(cases)}%nat, {c2})")
            meta.append({"kind": p["kind"], "case": c2.split(" ", 1)[0] + " (two-fit: " + ("permuted" if c2.startswith("KPlsrFitPerm") else "shifted") + " run)",
                         "X_shape": list(p["X"].shape), "y_shape": list(np.shape(p["y"])), "params": {k: p[k] for k in ("ncomp", "n_iter", "tol")}, "problem": describe(p)})
            chk.count(n=1); chk.hist("case", "KPlsrFitPerm" if c2.startswith("KPlsrFitPerm") else "KPlsrFit(shifted run)")
    stage('ridge')
    # the ridge blocks on integer data: exact (A, B) of every T.solve call of one pass
    for k in range(16 if chk.tier == "quick" else 80):
        kind = "cp" if k % 2 == 0 else "tucker"
        try:
            status, c = ridge_case(rng, kind)
        except Skip:
            status, c = "timeout-skipped", None
        chk.hist("fit_status_ridge_" + kind, status)
        if c is None:
            skipped += 1
            continue
        cases.append(f"({len(cases)}%nat, {c})")
        meta.append({"kind": "ridge_" + kind, "case": c.split(" ", 1)[0], "literal": c[:600]})
        chk.count(key=("ridge", kind, c[:80]), nontrivial=True); chk.hist("case", c.split(" ", 1)[0])
    stage('sequences')
    # one object under sequences of calls (predict / transform before fit, raising fits, refits, set_params in between)
    for p in [q for q in corpus if q.get("kind") in ("reg_seq", "plsr_seq")] + seq_problems(chk.tier, rng):
        try:
            status, c, bad, prog = seq_eval(p)
        except Skip:
            status, c, bad, prog = "timeout-skipped", None, [], None
        chk.hist("fit_status_" + p["kind"], status)
        if c is None:
            skipped += 1
            continue
        ent = ENTRY[p.get("which", "plsr")]
        for pred, msg in bad:
            chk.finding(ent, dict(p), msg, pred)
        cases.append(f"({len(cases)}%nat, {c})")
        meta.append({"kind": p["kind"], "case": c.split(" ", 1)[0], "params": dict(p), "program": [str(o[:1] + tuple(x for x in o[1:] if not isinstance(x, np.ndarray))) for o in prog["ops"]],
                     "initial_params": {k: (v if not isinstance(v, list) else list(v)) for k, v in prog["params"].items()}})
        chk.count(key=(p["kind"], p.get("which", "plsr"), p["gen_seed"]), nontrivial=True); chk.hist("case", c.split(" ", 1)[0])
        chk.hist("sequence_length", len(prog["ops"]))
    stage('problems')
    # the budget test of CP_PLSR.fit (n_iter_max = 0 raises iff there is a component to fit)
    Xb = dyadic(rng, (4, 2, 3), denom=8); Yb = dyadic(rng, (4, 2), denom=8)
    for n_it, n_c in ((0, 1), (0, 2), (0, 0), (1, 0), (1, 1)):
        try:
            out = call(fit_plsr_opts, Xb, Yb, n_c, n_it, 0.0)
        except Skip:
            continue
        cases.append(f"({len(cases)}%nat, KPlsrBudget {C.nat(n_it)} {C.nat(n_c)} {qt(Xb)} {qt(Yb)} {C.boolc(out[0] != 'ok')})")
        meta.append({"kind": "plsr_budget", "case": "KPlsrBudget", "params": {"n_iter_max": n_it, "n_components": n_c, "outcome": out[0] if out[0] == "ok" else out[1]}})
        chk.count(key=("plsr_budget", n_it, n_c), nontrivial=True); chk.hist("case", "KPlsrBudget")
    for p in problems:
        try:
            status, bad, cs, comparable = eval_problem(p)
        except Skip:
            status, bad, cs, comparable = "timeout-skipped", [], [], True
        chk.hist("fit_status_" + p["kind"], status)
        if "_stopped_by" in p:
            chk.hist("convergence_exit_fits", f"{p['kind']} tol={p.get('tol', 'default')}: left the loop by {p['_stopped_by']}")
        if status != "ok":
            skipped += 1
            continue
        if not comparable:
            chk.hist("two_fit_comparison", "skipped-ill-conditioned")
        chk.count(key=(p["kind"], p["X"].shape, np.shape(p["y"]), str(p.get("rank", p.get("ncomp")))), nontrivial=True)
        chk.hist("input_order", p["X"].ndim); chk.hist("n_samples", p["X"].shape[0]); chk.hist("target_shape", str(np.shape(p["y"])[1:]))
        chk.sample({"kind": p["kind"], "X_shape": list(p["X"].shape), "y_shape": list(np.shape(p["y"])), "rank": str(p.get("rank", p.get("ncomp"))),
                    "predicate_failures": [b[0] for b in bad]})
        for pred, msg in bad:
            chk.finding(ENTRY[p["kind"]], describe(p), msg, pred)
        for c in cs:
            cases.append(f"({len(cases)}%nat, {c})")
            meta.append({"kind": p["kind"], "case": c.split(" ", 1)[0], "X_shape": list(p["X"].shape), "y_shape": list(np.shape(p["y"])),
                         "params": {k: v for k, v in p.items() if k in ("rank", "reg", "seed", "n_iter", "ncomp", "tol")}, "problem": describe(p)})
            chk.count(n=1); chk.hist("case", c.split(" ", 1)[0])
    # the generators construct well-posed problems: if most of them do not yield a usable fit the check would be vacuous
    for kind in ("cp", "tucker", "plsr", "plsr_fit", "plsr_conv", "cp_loop", "tucker_loop", "reg_seq", "plsr_seq"):
        h = chk.cov["histograms"].get("fit_status_" + kind, {})
        tried = sum(v for k, v in h.items() if k not in ("timeout-skipped", "no-margin"))
        if tried >= 4 and 2 * h.get("ok", 0) < tried:
            chk.broken.append({"what": f"correspondence corr:C19 not exercised: only {h.get('ok', 0)} of {tried} well-posed {kind} problems gave a finite, well-conditioned fit",
                               "detail": h})
    # the expensive cases (whole fits, sequences of fits) in small shards of their own, the cheap ones in larger shards
    HEAVY = ("KPlsrSeq", "KRegSeqZ", "KRegSeq", "KCpLoop", "KTkLoop", "KPlsrFitConv")
    ctor = lambda c: c.split(", ", 1)[1].split(" ", 1)[0]
    stage('shards_heavy')
    heavy = [c for c in cases if ctor(c) in HEAVY]
    light = [c for c in cases if ctor(c) not in HEAVY]
    failing, n_eval, broken = C.run_case_shards("C19", HEADER, "case", heavy, shard=(4 if chk.tier == "quick" else 5), timeout=3000, tag="heavy")
    stage('shards_light')
    f2, n2, b2 = C.run_case_shards("C19", HEADER, "case", light, shard=(64 if chk.tier == "quick" else 90), timeout=3000)
    failing |= f2; n_eval += n2; broken = list(broken) + list(b2)
    stage('end')
    chk.cov["stage_cpu_wall_seconds"] = dict(_STAGE["log"])
    chk.checker_cmds.append("coqc (vm_compute) on generated build/cases/C19/*.v: Corr.C19.failing")
    chk.cov["traces_validated_against_impl"] = n_eval
    chk.cov["skipped_ill_conditioned_or_failed_fits"] = skipped
    chk.cov["exhaustive"] = False
    chk.cov["rule"] = ("predict on injected integer weights: every per-sample shape of order 1-3 over mode sizes {1,2,3} x output shapes (), (1), (2), (3), (2,2), (1,3), (3,2) "
                       "(quick: half of the order-3 ones) + flattened weights + mis-shaped requests, exact in Z; "
                       "random regression problems (samples 2-8, per-sample order 1-3, scalar / vector / matrix targets for CP, scalar for Tucker, ranks 1-3, reg_W in {0.01..10}, "
                       "1-25 sweeps, seeds): fitted attributes -> model in Q vs implementation (1e-9); plus fits of both regressors that leave the loop through the convergence break (tol 1e-1, 1e-2, 1e-3, 1e-4, default; n_iter_max 400): predicates only, weight_tensor_ vs reconstruction of the exposed factors at 1e-12 of the terms' magnitude; CP_PLSR problems (samples 2-8, per-sample order 1-3, 1-D and 1-3 column Y, 1-3 components, "
                       "converged fits and fits stopped after 1-3 passes): X_mean_, transform(X), transform(X_train, Y_train)[1], predict from the fitted attributes -> model in 70-bit binary fixed point vs implementation (1e-9); "
                       "whole CP_PLSR.fit with pinned pass counts (tol=0: n_iter_max in 1-4 resp. up to 30 in thorough; tol=1e300: stops after pass 2), samples 3-7, 1-3 components, "
                       "initialize_cp / lstsq answers recorded from the implementation -> per-component loadings, X/Y scores, Y loadings of the model (fixed point) vs implementation (1e-8); "
                       "for each of these fits the implementation is also run on re-ordered samples and on shifted data (X + constant tensor, Y + constant row) and compared with the model's fit of the ORIGINAL data (KPlsrFitPerm: scores re-ordered by pick; shifted run: identical loadings and scores); the budget test (n_iter_max = 0 raises iff n_components > 0); "
                       "the same run to convergence (n_iter_max=100) with a tolerance placed by a pilot in a gap of the observed score movements, compared where the model's stopping decisions have a 1.25 margin; "
                       "the regressors' fit loop: tape of iterates from runs with n_iter_max=1..6 (tol=-1), then a run that never stops / stops from the third pass / stops at a later pass with a margin-chosen tol: "
                       "model loop (concrete ridge blocks of both regressors, incl. the Tucker core block; every T.solve answer certified by A x = B at 1e-7 against the model's design matrices, pass 1 included: the random initial factors are replayed from the seeded generator) must store the implementation's weight_tensor_ / factors (1e-8); "
                       "a case is non-trivial if the fit succeeded with finite weights; distinct key = (regressor, X shape, y shape, rank)")
    for b in broken:
        chk.broken.append({"what": "correspondence corr:C19 shard not evaluated", "detail": b})
    for i in sorted(failing):
        m = meta[i]
        chk.disagreement("corr:C19 (Model/Regress.v vs tensorly/regression)", {k: v for k, v in m.items() if k != "problem"})
    chk.assumptions = ["CPRegressor.fit / TuckerRegressor.fit succeeded with finite weights (fit raises on matrix-shaped X with scalar targets; Tucker supports scalar targets only)",
                       "CP_PLSR two-fit comparisons (shift, permutation) only on problems where every component's score vector has norm > 1e-3 (otherwise the normalisations are 0/0)",
                       "size-0 modes are outside the model"]
    chk.trusted = ["cp_to_tensor / tucker_to_tensor / multi_mode_dot / outer are modelled by their entrywise meaning (their code-level models are C02/C03); tied to the code by this run's Q cases",
                   "CP_PLSR: the SVD inside initialize_cp (a function of Z), lstsq (modelled as a function of the normal-equation data T'T, T'u: true of the minimum-norm solution in exact arithmetic) and sqrt are black boxes of the model; their answers are recorded from the implementation for execution",
                   "T.solve inside the CP ridge blocks is a black box whose recorded answers are certified (A x = B); the random initial factors of both regressors are obtained by replaying the seeded generator in the source's draw order (core first for Tucker, then one matrix per mode); a refactoring that changes the draw order would show up as a pass-1 certificate failure",
                   "the code-level models of cp_to_tensor / tucker_to_tensor linked by C19_*_code_level are those of property C03 (Model/Factorized.v, tied to the code by C03's correspondence)",
                   "fixed-point execution (70 fractional bits) of the CP_PLSR model: rounding 1e-21 per operation, compared at 1e-9 / 1e-8"]
    return chk.finish({})


def replay(payload):
    """re-run a stored failing input against the current implementation; 1 = still failing"""
    if payload.get("kind") != "failing-input":
        print("replay file names a broken theorem/correspondence, not an input:", payload.get("theorem_or_correspondence"))
        return 1
    C.reset_backends()
    p = problem_from_json(payload["inputs"])
    if p.get("kind") == "predict_z":
        fn = impl_predict_cp if p["which"] == "cp" else impl_predict_tucker
        out = C.call_impl(fn, p["W"], p["X"], timeout=240)
        okk = out[0] == "ok" and np.shape(out[1]) == contract(p["X"], p["W"]).shape and np.array_equal(out[1], contract(p["X"], p["W"]))
        print("replay: predict_z ->", "holds" if okk else "fails")
        return 0 if okk else 1
    if p.get("kind") in ("reg_seq", "plsr_seq"):
        try:
            status, _, bad, _ = seq_eval({k: (int(v) if k == "gen_seed" else v) for k, v in p.items()})
        except Skip:
            print("replay: timed out (machine loaded); not a verdict")
            return 1
        print("replay:", p["kind"], status, "->", [b[0] for b in bad] or "holds")
        return 1 if bad else 0
    for k in ("rank",):
        if isinstance(p.get(k), list):
            p[k] = [int(x) for x in p[k]]
    if "perm" in p:
        p["perm"] = [int(x) for x in p["perm"]]
    try:
        status, bad, _, _ = eval_problem(p)
    except Skip:
        print("replay: timed out (machine loaded); not a verdict")
        return 1
    print("replay:", p["kind"], status, "->", [b[0] for b in bad] or "holds")
    return 1 if bad else 0
