"""C19 source tie, part 2: the ridge block updates of CPRegressor.fit / TuckerRegressor.fit.
The body of `for i in range(len(W))` (and, for Tucker, the core update that follows it) is translated from the CURRENT Python source
into a Gallina term over the code-level models of the functions it calls (Model/RegressSrc.v: partial_unfold, partial_tensor_to_vec,
unfold, vec_to_tensor, reshape, moveaxis, transpose of C01; khatri_rao, kronecker of C02; np.dot, eye, +, scalar *), every array
expression in the res monad, integer expressions in Z.  The generated sweep is compared by vm_compute with the model's
cp_sweep / tk_concrete_sweep (the subject of the C19_*_phi_*_linear and C19_*_concrete_fit_predict theorems) on a finite box of
integer problems with an instrumented T.solve.  Fails closed: a construct outside this fragment raises Untranslatable."""
import ast as _ast
import random


class Untranslatable(Exception):
    pass


def _name(e, n=None):
    return isinstance(e, _ast.Name) and (n is None or e.id == n)


def _is_self_attr(e, name=None):
    return isinstance(e, _ast.Attribute) and _name(e.value, "self") and (name is None or e.attr == name)


def _fn(e):
    """called function: ('T', 'dot') for T.dot / tl.dot / np.dot, (None, 'khatri_rao') for a bare name"""
    if isinstance(e, _ast.Call):
        f = e.func
        if isinstance(f, _ast.Attribute) and _name(f.value) and f.value.id in ("T", "tl", "np"):
            return ("T", f.attr)
        if _name(f):
            return (None, f.id)
    return None


# keyword defaults of the called tensorly functions, checked against the CURRENT signatures (fail closed)
DEFAULTS = {"partial_unfold": (("tensor", "mode", "skip_begin", "skip_end", "ravel_tensors"), {"mode": 0, "skip_begin": 1, "skip_end": 0, "ravel_tensors": False}),
            "partial_tensor_to_vec": (("tensor", "skip_begin", "skip_end"), {"skip_begin": 1, "skip_end": 0}),
            "unfold": (("tensor", "mode"), {}),
            "vec_to_tensor": (("vec", "shape"), {}),
            "khatri_rao": (("matrices", "weights", "skip_matrix", "mask"), {"weights": None, "skip_matrix": None, "mask": None}),
            "kronecker": (("matrices", "skip_matrix", "reverse"), {"skip_matrix": None, "reverse": False})}


def check_signatures():
    import inspect
    import tensorly.base as B
    from tensorly.tenalg.core_tenalg import khatri_rao, kronecker
    fns = {"partial_unfold": B.partial_unfold, "partial_tensor_to_vec": B.partial_tensor_to_vec, "unfold": B.unfold, "vec_to_tensor": B.vec_to_tensor,
           "khatri_rao": khatri_rao, "kronecker": kronecker}
    for nm, f in fns.items():
        sig = inspect.signature(f)
        names = tuple(sig.parameters)
        dflt = {k: p.default for k, p in sig.parameters.items() if p.default is not inspect.Parameter.empty}
        if names != DEFAULTS[nm][0] or dflt != DEFAULTS[nm][1]:
            raise Untranslatable(f"signature of {nm} changed: {sig}")


class Tr:
    """expressions of one block -> Gallina.  arrays: Python name -> Gallina name of a plain tensor; lists: the factor list W;
    ints: Python name -> Z term; solve_idx: the nat naming the T.solve call of this block"""

    def __init__(self, arrays, lists, ints, solve_idx):
        self.arrays, self.lists, self.ints, self.solve_idx = dict(arrays), dict(lists), dict(ints), solve_idx
        self.n_solve = 0

    # ---- integers (Z)
    def shape_list_nat(self, e):
        """a.shape / T.shape(a) -> Gallina list nat"""
        if isinstance(e, _ast.Attribute) and e.attr == "shape" and _name(e.value) and e.value.id in self.arrays:
            return f"(shape {self.arrays[e.value.id]})"
        if _fn(e) == ("T", "shape") and len(e.args) == 1 and _name(e.args[0]) and e.args[0].id in self.arrays:
            return f"(shape {self.arrays[e.args[0].id]})"
        raise Untranslatable("shape of " + _ast.dump(e)[:80])

    def int(self, e):
        if isinstance(e, _ast.Constant) and isinstance(e.value, int) and not isinstance(e.value, bool):
            return f"({e.value})%Z"
        if _name(e) and e.id in self.ints:
            return self.ints[e.id]
        if _is_self_attr(e) and ("self." + e.attr) in self.ints:
            return self.ints["self." + e.attr]
        if isinstance(e, _ast.UnaryOp) and isinstance(e.op, _ast.USub):
            return f"(- {self.int(e.operand)})%Z"
        if isinstance(e, _ast.BinOp) and isinstance(e.op, (_ast.Add, _ast.Sub, _ast.Mult)):
            op = {_ast.Add: "+", _ast.Sub: "-", _ast.Mult: "*"}[type(e.op)]
            return f"({self.int(e.left)} {op} {self.int(e.right)})%Z"
        if _fn(e) == ("T", "ndim") and len(e.args) == 1 and not e.keywords and _name(e.args[0]) and e.args[0].id in self.arrays:
            return f"(Z.of_nat (ndim {self.arrays[e.args[0].id]}))"
        if isinstance(e, _ast.Attribute) and e.attr == "ndim" and _name(e.value) and e.value.id in self.arrays:
            return f"(Z.of_nat (ndim {self.arrays[e.value.id]}))"
        if _fn(e) == (None, "len") and len(e.args) == 1 and _name(e.args[0]) and e.args[0].id in self.lists:
            return f"(Z.of_nat (length {self.lists[e.args[0].id]}))"
        if isinstance(e, _ast.Subscript) and not isinstance(e.slice, (_ast.Slice, _ast.Tuple)):
            return f"(shape_at {self.shape_list_nat(e.value)} {self.int(e.slice)})"
        raise Untranslatable("integer expression " + _ast.dump(e)[:100])

    def zlist(self, e):
        """a shape argument: a tuple of integers or a.shape -> Gallina list Z"""
        if isinstance(e, (_ast.Tuple, _ast.List)):
            return "[" + "; ".join(self.int(x) for x in e.elts) + "]"
        return f"(map Z.of_nat {self.shape_list_nat(e)})"

    def cond(self, e):
        if isinstance(e, _ast.Compare) and len(e.ops) == 1:
            a, b = self.int(e.left), self.int(e.comparators[0])
            f = {_ast.Lt: "(Z.ltb {a} {b})", _ast.LtE: "(Z.leb {a} {b})", _ast.Gt: "(Z.ltb {b} {a})", _ast.GtE: "(Z.leb {b} {a})",
                 _ast.Eq: "(Z.eqb {a} {b})", _ast.NotEq: "(negb (Z.eqb {a} {b}))"}.get(type(e.ops[0]))
            if f:
                return f.format(a=a, b=b)
        raise Untranslatable("condition " + _ast.dump(e)[:100])

    # ---- arrays (res (tensor Z))
    def args(self, e, nm):
        """positional + keyword arguments of a tensorly call -> dict over the parameter names, defaults filled in"""
        names, dflt = DEFAULTS[nm]
        out = {k: _ast.Constant(v) for k, v in dflt.items()}
        if len(e.args) > len(names):
            raise Untranslatable(f"arguments of {nm}")
        for k, a in zip(names, e.args):
            out[k] = a
        for kw in e.keywords:
            if kw.arg not in names:
                raise Untranslatable(f"keyword {kw.arg} of {nm}")
            out[kw.arg] = kw.value
        if set(out) != set(names):
            raise Untranslatable(f"missing arguments of {nm}")
        return out

    def is_ctx_kw(self, kws):
        """**T.context(X) / no keywords"""
        return all(kw.arg is None and _fn(kw.value) == ("T", "context") for kw in kws)

    def opt_int(self, e):
        if isinstance(e, _ast.Constant) and e.value is None:
            return "None"
        return f"(Some {self.int(e)})"

    def lst(self, e):
        if _name(e) and e.id in self.lists:
            return self.lists[e.id]
        raise Untranslatable("list of factors " + _ast.dump(e)[:80])

    def none(self, e, what):
        if not (isinstance(e, _ast.Constant) and e.value is None):
            raise Untranslatable(what)

    def false(self, e, what):
        if not (isinstance(e, _ast.Constant) and e.value is False):
            raise Untranslatable(what)

    def arr(self, e):
        if _name(e) and e.id in self.arrays:
            return f"(Ok {self.arrays[e.id]})"
        fn = _fn(e)
        if isinstance(e, _ast.BinOp) and isinstance(e.op, _ast.Add):
            return f"(rb2 radd2 {self.arr(e.left)} {self.arr(e.right)})"
        if isinstance(e, _ast.BinOp) and isinstance(e.op, _ast.Mult):
            for s, a in ((e.left, e.right), (e.right, e.left)):
                if _is_self_attr(s, "reg_W"):
                    return f"(rbind {self.arr(a)} (rscale reg))"
            raise Untranslatable("product " + _ast.dump(e)[:80])
        if fn is None:
            raise Untranslatable("array expression " + _ast.dump(e)[:100])
        mod, nm = fn
        if mod == "T":
            if nm == "dot" and len(e.args) == 2 and not e.keywords:
                return f"(rb2 ndot {self.arr(e.args[0])} {self.arr(e.args[1])})"
            if nm == "reshape" and len(e.args) == 2 and not e.keywords:
                return f"(rbind {self.arr(e.args[0])} (fun t_ => rreshape t_ {self.zlist(e.args[1])}))"
            if nm == "transpose" and len(e.args) in (1, 2) and not e.keywords:
                p = "None" if len(e.args) == 1 else f"(Some {self.zlist(e.args[1])})"
                return f"(rbind {self.arr(e.args[0])} (fun t_ => rtranspose t_ {p}))"
            if nm == "moveaxis" and len(e.args) == 3 and not e.keywords:
                return f"(rbind {self.arr(e.args[0])} (fun t_ => rmoveaxis t_ {self.int(e.args[1])} {self.int(e.args[2])}))"
            if nm == "eye" and len(e.args) == 1 and self.is_ctx_kw(e.keywords):
                return f"(reye {self.int(e.args[0])})"
            if nm == "tensor" and len(e.args) == 1 and self.is_ctx_kw(e.keywords):
                return self.arr(e.args[0])
            if nm == "solve" and len(e.args) == 2 and not e.keywords:
                self.n_solve += 1
                return f"(rb2 (fun a_ b_ => Ok (solve {self.solve_idx} a_ b_)) {self.arr(e.args[0])} {self.arr(e.args[1])})"
            raise Untranslatable(f"backend call {nm}")
        if nm in ("partial_unfold", "partial_tensor_to_vec", "unfold", "vec_to_tensor", "khatri_rao", "kronecker"):
            a = self.args(e, nm)
            if nm == "partial_unfold":
                if not (isinstance(a["ravel_tensors"], _ast.Constant) and isinstance(a["ravel_tensors"].value, bool)):
                    raise Untranslatable("ravel_tensors")
                return (f"(rbind {self.arr(a['tensor'])} (fun t_ => r_partial_unfold t_ {self.int(a['mode'])} {self.int(a['skip_begin'])} "
                        f"{self.int(a['skip_end'])} {'true' if a['ravel_tensors'].value else 'false'}))")
            if nm == "partial_tensor_to_vec":
                return f"(rbind {self.arr(a['tensor'])} (fun t_ => r_partial_tensor_to_vec t_ {self.int(a['skip_begin'])} {self.int(a['skip_end'])}))"
            if nm == "unfold":
                return f"(rbind {self.arr(a['tensor'])} (fun t_ => r_unfold t_ {self.int(a['mode'])}))"
            if nm == "vec_to_tensor":
                return f"(rbind {self.arr(a['vec'])} (fun t_ => r_vec_to_tensor t_ {self.zlist(a['shape'])}))"
            if nm == "khatri_rao":
                self.none(a["weights"], "khatri_rao weights"); self.none(a["mask"], "khatri_rao mask")
                return f"(r_khatri_rao {self.lst(a['matrices'])} {self.opt_int(a['skip_matrix'])})"
            self.false(a["reverse"], "kronecker reverse")
            return f"(r_kronecker {self.lst(a['matrices'])} {self.opt_int(a['skip_matrix'])})"
        raise Untranslatable(f"call of {nm}")

    # ---- statements: a straight-line block (with if / else) whose value is what is stored into `target`
    def block(self, stmts, is_target, done=None):
        """-> Gallina term of type RZ: the value of the LAST store into the target; temporaries become binders"""
        if not stmts:
            if done is None:
                raise Untranslatable("block does not store its result")
            return done
        s, rest = stmts[0], stmts[1:]
        if isinstance(s, _ast.Expr) and isinstance(s.value, _ast.Constant) and isinstance(s.value.value, str):
            return self.block(rest, is_target, done)
        if isinstance(s, _ast.If):
            if rest:
                raise Untranslatable("statements after an if / else inside a block")
            if not s.orelse:
                raise Untranslatable("if without else inside a block")
            a, b = Tr(self.arrays, self.lists, self.ints, self.solve_idx), Tr(self.arrays, self.lists, self.ints, self.solve_idx)
            ta, tb = a.block(s.body, is_target, done), b.block(s.orelse, is_target, done)
            if a.n_solve != 1 or b.n_solve != 1:
                raise Untranslatable("a branch of the block does not call T.solve exactly once")
            self.n_solve += 1
            return f"(if {self.cond(s.test)} then {ta} else {tb})"
        if not (isinstance(s, _ast.Assign) and len(s.targets) == 1):
            raise Untranslatable("statement " + _ast.dump(s)[:100])
        t = s.targets[0]
        if is_target(t):
            v = self.arr(s.value)
            if any(True for r in rest for m in _ast.walk(r) if isinstance(m, _ast.Name) and isinstance(t, _ast.Name) and m.id == t.id):
                # the target is re-used afterwards: bind it like a temporary and keep going
                g = "v_" + t.id
                inner = Tr({**self.arrays, t.id: g}, self.lists, self.ints, self.solve_idx)
                out = inner.block(rest, is_target, f"(Ok {g})")
                self.n_solve += inner.n_solve
                return f"(rbind {v} (fun {g} => {out}))"
            if rest:
                raise Untranslatable("statements after the store of the block's result")
            return v
        if _name(t):
            v = self.arr(s.value)
            g = "v_" + t.id
            inner = Tr({**self.arrays, t.id: g}, self.lists, self.ints, self.solve_idx)
            out = inner.block(rest, is_target, done)
            self.n_solve += inner.n_solve
            return f"(rbind {v} (fun {g} => {out}))"
        raise Untranslatable("assignment target " + _ast.dump(t)[:80])


def _fit_loop(path, cls):
    tree = _ast.parse(open(path).read())
    for n in tree.body:
        if isinstance(n, _ast.ClassDef) and n.name == cls:
            for f in n.body:
                if isinstance(f, _ast.FunctionDef) and f.name == "fit":
                    if [a.arg for a in f.args.args] != ["self", "X", "y"]:
                        raise Untranslatable(f"signature of {cls}.fit")
                    loops = [s for s in f.body if isinstance(s, _ast.For) and _name(s.target, "iteration")]
                    if len(loops) != 1:
                        raise Untranslatable(f"{cls}.fit: the `for iteration` loop")
                    return f, loops[0]
    raise Untranslatable(f"{cls}.fit not found")


def _inner_loop(loop, cls):
    """the first statement of the pass must be `for i in range(len(W))`"""
    body = [s for s in loop.body if not (isinstance(s, _ast.Expr) and isinstance(s.value, _ast.Constant))]
    inner = body[0] if body else None
    if not (isinstance(inner, _ast.For) and _name(inner.target, "i") and not inner.orelse and _fn(inner.iter) == (None, "range") and len(inner.iter.args) == 1
            and _fn(inner.iter.args[0]) == (None, "len") and len(inner.iter.args[0].args) == 1 and _name(inner.iter.args[0].args[0], "W")):
        raise Untranslatable(f"{cls}.fit: the pass does not start with `for i in range(len(W))`")
    return inner, body[1:]


def _is_w_i(t):
    return isinstance(t, _ast.Subscript) and _name(t.value, "W") and _name(t.slice, "i")


def _no_w_writes(nodes, what):
    for n in nodes:
        for m in _ast.walk(n):
            if isinstance(m, (_ast.Assign, _ast.AugAssign)):
                for t in (m.targets if isinstance(m, _ast.Assign) else [m.target]):
                    for u in _ast.walk(t):
                        if _name(u, "W") and not _is_w_i(t):
                            raise Untranslatable(f"{what}: W is written other than by W[i] = ...")
            if isinstance(m, _ast.Call) and isinstance(m.func, _ast.Attribute) and _name(m.func.value, "W"):
                raise Untranslatable(f"{what}: a method of the list W is called")


SWEEP = """Definition {tag}_sweep_src (solve : nat -> tensor Z -> tensor Z -> tensor Z) (reg : Z) {params} (W : list (tensor Z)) : res (list (tensor Z)) :=
  fold_left (fun acc i => rbind acc (fun W => rbind ({tag}_block_src solve reg {pargs} W i) (fun v => Ok (set_nth i v W)))) (seq 0 (length W)) (Ok W).
"""


def gen_cp_blocks(path):
    f, loop = _fit_loop(path, "CPRegressor")
    inner, after = _inner_loop(loop, "CPRegressor")
    _no_w_writes(inner.body, "CPRegressor.fit block loop")
    _no_w_writes(after, "CPRegressor.fit after the block loop")
    tr = Tr({"X": "X", "y": "y"}, {"W": "W"}, {"i": "(Z.of_nat i)", "self.weight_rank": "(Z.of_nat R)"}, "i")
    term = tr.block(inner.body, _is_w_i)
    if tr.n_solve != 1:
        raise Untranslatable("CPRegressor.fit: a block does not call T.solve exactly once")
    return (f"Definition cp_block_src (solve : nat -> tensor Z -> tensor Z -> tensor Z) (reg : Z) (R : nat) (X y : tensor Z) (W : list (tensor Z)) (i : nat) : RZ :=\n  {term}.\n"
            + SWEEP.format(tag="cp", params="(R : nat) (X y : tensor Z)", pargs="R X y"))


def gen_tk_blocks(path):
    f, loop = _fit_loop(path, "TuckerRegressor")
    inner, after = _inner_loop(loop, "TuckerRegressor")
    _no_w_writes(inner.body, "TuckerRegressor.fit block loop")
    # the core update: the statements between the block loop and `weight_tensor_ = ...`
    k = next((j for j, s in enumerate(after) if isinstance(s, _ast.Assign) and len(s.targets) == 1 and _name(s.targets[0], "weight_tensor_")), None)
    if k is None:
        raise Untranslatable("TuckerRegressor.fit: `weight_tensor_ = ...` after the blocks")
    core = after[:k]
    _no_w_writes(after, "TuckerRegressor.fit after the block loop")
    for m in (x for s in inner.body for x in _ast.walk(s)):
        if isinstance(m, (_ast.Assign, _ast.AugAssign)) and any(_name(u, "G") for t in (m.targets if isinstance(m, _ast.Assign) else [m.target]) for u in _ast.walk(t)):
            raise Untranslatable("TuckerRegressor.fit: the core is written inside the factor loop")
    tr = Tr({"X": "X", "y": "y", "G": "G"}, {"W": "W"}, {"i": "(Z.of_nat i)"}, "i")
    term = tr.block(inner.body, _is_w_i)
    if tr.n_solve != 1:
        raise Untranslatable("TuckerRegressor.fit: a factor block does not call T.solve exactly once")
    tc = Tr({"X": "X", "y": "y", "G": "G"}, {"W": "W"}, {}, "(length W)")
    cterm = tc.block(core, lambda t: _name(t, "G"))
    if tc.n_solve != 1:
        raise Untranslatable("TuckerRegressor.fit: the core update does not call T.solve exactly once")
    return (f"Definition tk_block_src (solve : nat -> tensor Z -> tensor Z -> tensor Z) (reg : Z) (X y G : tensor Z) (W : list (tensor Z)) (i : nat) : RZ :=\n  {term}.\n"
            + SWEEP.format(tag="tk", params="(X y G : tensor Z)", pargs="X y G")
            + f"Definition tk_core_src (solve : nat -> tensor Z -> tensor Z -> tensor Z) (reg : Z) (X y G : tensor Z) (W : list (tensor Z)) : RZ :=\n  {cterm}.\n")


# ---- the finite box
def _zt(shape, rng, lo=-3, hi=3):
    n = 1
    for d in shape:
        n *= d
    return "(mk [" + "; ".join(str(d) for d in shape) + "] [" + "; ".join(f"({rng.randint(lo, hi)})%Z" for _ in range(n)) + "])"


def cp_box():
    rng = random.Random(1907)
    out = []
    shapes = [(a,) for a in (1, 2, 3)] + [(a, b) for a in (1, 2, 3) for b in (1, 2, 3)] + [(2, 2, 2), (1, 2, 3), (3, 1, 2), (2, 3, 1), (3, 2, 2), (1, 1, 1)]
    sos = [(), (2,), (1, 2), (2, 2), (3,), (2, 1, 2)]
    k = 0
    for sx in shapes:
        for so in sos:
            if len(sx) + len(so) < 2:
                continue            # a single factor: khatri_rao of an empty list raises in the source
            k += 1
            if (len(sx) == 3 and k % 2) or (len(sx) == 2 and k % 3 == 0):
                continue
            R = 1 + k % 2
            n = 1 + k % 3
            W = "[" + "; ".join(_zt((d, R), rng) for d in sx + so) + "]"
            out.append(f"({R}, {_zt((n,) + sx, rng)}, {_zt((n,) + so, rng)}, {W})")
    return out


def tk_box():
    rng = random.Random(1908)
    out = []
    # per-sample order >= 2: with a single factor kronecker(W, skip_matrix=0) is a product of no matrix and the source raises
    shapes = [(a, b) for a in (1, 2, 3) for b in (1, 2, 3)] + [(2, 2, 2), (1, 2, 3), (3, 1, 2), (2, 3, 1), (3, 2, 2)]
    k = 0
    for sx in shapes:
        for _ in range(2):
            k += 1
            gs = tuple(1 + (k + j) % 2 for j in range(len(sx)))
            n = 1 + k % 3
            W = "[" + "; ".join(_zt((d, g), rng) for d, g in zip(sx, gs)) + "]"
            out.append(f"({_zt((n,) + sx, rng)}, {_zt((n,), rng)}, {_zt(gs, rng)}, {W})")
    return out


HEADER = """From Coq Require Import List Arith ZArith Bool. Import ListNotations.
From TLV Require Import Base.Shape Base.PyList Base.Tensor Base.Ops Model.Base Model.Tenalg Model.Regress Model.RegressSrc.
"""

CP_LEMMA = """
Definition cp_box : list (nat * tensor Z * tensor Z * list (tensor Z)) := [
 {box}].
Definition cp_box_ok (c : nat * tensor Z * tensor Z * list (tensor Z)) : bool :=
  let '(R, X, y, W) := c in
  match cp_sweep_src box_solve 3%Z R X y W with
  | Ok W' => zts_eqb W' (cp_sweep Zops box_solve 3%Z X y (tl (shape y)) R W)
  | Err => false
  end.
Lemma cp_blocks_src_box : forallb cp_box_ok cp_box = true.
Proof. vm_compute. reflexivity. Qed.
"""

TK_LEMMA = """
Definition tk_box : list (tensor Z * tensor Z * tensor Z * list (tensor Z)) := [
 {box}].
Definition tk_box_ok (c : tensor Z * tensor Z * tensor Z * list (tensor Z)) : bool :=
  let '(X, y, G, W) := c in
  match tk_sweep_src box_solve 3%Z X y G W with
  | Ok W' =>
      match tk_core_src box_solve 3%Z X y G W' with
      | Ok G' => let m := tk_concrete_sweep Zops box_solve 3%Z X y (G, W) in zts_eqb (G' :: W') (fst m :: snd m)
      | Err => false
      end
  | Err => false
  end.
Lemma tk_blocks_src_box : forallb tk_box_ok tk_box = true.
Proof. vm_compute. reflexivity. Qed.
"""


def generate(repo):
    """-> [(group name, Coq text)]"""
    import os
    check_signatures()
    R = os.path.join(repo, "tensorly", "regression")
    cp = gen_cp_blocks(os.path.join(R, "cp_regression.py"))
    tk = gen_tk_blocks(os.path.join(R, "tucker_regression.py"))
    return [("CPRegressor.fit ridge blocks", HEADER + cp + CP_LEMMA.format(box=";\n ".join(cp_box()))),
            ("TuckerRegressor.fit ridge blocks", HEADER + tk + TK_LEMMA.format(box=";\n ".join(tk_box())))]


# ============================================================================ CP_PLSR.predict / transform(X): the component loops
class PTr(Tr):
    """adds what the bodies of CP_PLSR.predict / transform use: T.copy, T.zeros, T.index_update(M, T.index[:, c], v), M[:, c],
    multi_mode_dot(t, [vectors], range(a, b)), outer([vectors]), list comprehensions over self.X_factors[1:], broadcast + / -,
    the attributes of self"""

    def selfkey(self, e):
        if _is_self_attr(e):
            return "self." + e.attr
        if isinstance(e, _ast.Subscript) and _is_self_attr(e.value) and isinstance(e.slice, _ast.Constant) and isinstance(e.slice.value, int):
            return f"self.{e.value.attr}[{e.slice.value}]"
        return None

    def col_of(self, e):
        """M[:, c] -> (matrix term, column Z term) or None"""
        if isinstance(e, _ast.Subscript) and isinstance(e.slice, _ast.Tuple) and len(e.slice.elts) == 2:
            sl, c = e.slice.elts
            if isinstance(sl, _ast.Slice) and sl.lower is None and sl.upper is None and sl.step is None:
                return self.matrix(e.value), self.int(c)
        return None

    def matrix(self, e):
        """a plain (already bound) tensor: a name or an attribute of self"""
        if _name(e) and e.id in self.arrays:
            return self.arrays[e.id]
        k = self.selfkey(e)
        if k is not None and k in self.arrays:
            return self.arrays[k]
        raise Untranslatable("matrix " + _ast.dump(e)[:80])

    def vec_list(self, e):
        """a Python list of vectors -> Gallina list (tensor Z)"""
        if _name(e) and e.id in self.lists:
            return self.lists[e.id]
        if isinstance(e, _ast.BinOp) and isinstance(e.op, _ast.Add):
            return f"({self.vec_list(e.left)} ++ {self.vec_list(e.right)})"
        if isinstance(e, _ast.List):
            out = []
            for x in e.elts:
                mc = self.col_of(x)
                if mc is None:
                    raise Untranslatable("list element " + _ast.dump(x)[:80])
                out.append(f"zcol {mc[0]} {mc[1]}")
            return "[" + "; ".join(out) + "]"
        if isinstance(e, _ast.ListComp) and len(e.generators) == 1 and not e.generators[0].ifs and _name(e.generators[0].target):
            g = e.generators[0]
            v = g.target.id
            it = g.iter
            if isinstance(it, _ast.Subscript) and isinstance(it.slice, _ast.Slice) and it.slice.upper is None and it.slice.step is None \
                    and isinstance(it.slice.lower, _ast.Constant) and isinstance(it.slice.lower.value, int) and it.slice.lower.value >= 0 \
                    and self.selfkey(it.value) in self.lists:
                src = f"(skipn {it.slice.lower.value} {self.lists[self.selfkey(it.value)]})"
            elif self.selfkey(it) in self.lists:
                src = self.lists[self.selfkey(it)]
            else:
                raise Untranslatable("comprehension source " + _ast.dump(it)[:80])
            inner = PTr({**self.arrays, v: "f_" + v}, self.lists, self.ints, self.solve_idx)
            mc = inner.col_of(e.elt)
            if mc is None or mc[0] != "f_" + v:
                raise Untranslatable("comprehension element " + _ast.dump(e.elt)[:80])
            return f"(map (fun f_{v} => zcol f_{v} {mc[1]}) {src})"
        raise Untranslatable("list of vectors " + _ast.dump(e)[:80])

    def zrange(self, e):
        if _fn(e) == (None, "range") and len(e.args) in (1, 2) and not e.keywords:
            a = "(0)%Z" if len(e.args) == 1 else self.int(e.args[0])
            return f"(zrange {a} {self.int(e.args[-1])})"
        raise Untranslatable("modes " + _ast.dump(e)[:80])

    def arr(self, e):
        k = self.selfkey(e)
        if k is not None and k in self.arrays:
            return f"(Ok {self.arrays[k]})"
        mc = self.col_of(e)
        if mc is not None:
            return f"(Ok (zcol {mc[0]} {mc[1]}))"
        if isinstance(e, _ast.BinOp) and isinstance(e.op, (_ast.Add, _ast.Sub)):
            f = "Z.add" if isinstance(e.op, _ast.Add) else "Z.sub"
            return f"(rb2 (rbin_b {f}) {self.arr(e.left)} {self.arr(e.right)})"
        fn = _fn(e)
        if fn == ("T", "copy") and len(e.args) == 1 and not e.keywords:
            return self.arr(e.args[0])
        if fn == ("T", "zeros") and len(e.args) == 1 and self.is_ctx_kw(e.keywords):
            return f"(rzeros {self.zlist(e.args[0])})"
        if fn == ("T", "index_update") and len(e.args) == 3 and not e.keywords:
            ix = e.args[1]
            if isinstance(ix, _ast.Subscript) and isinstance(ix.value, _ast.Attribute) and ix.value.attr == "index" and isinstance(ix.slice, _ast.Tuple) \
                    and len(ix.slice.elts) == 2 and isinstance(ix.slice.elts[0], _ast.Slice) and ix.slice.elts[0].lower is None and ix.slice.elts[0].upper is None:
                return f"(rb2 (rset_col {self.int(ix.slice.elts[1])}) {self.arr(e.args[0])} {self.arr(e.args[2])})"
            raise Untranslatable("index_update index " + _ast.dump(ix)[:80])
        if fn == (None, "multi_mode_dot") and len(e.args) == 3 and not e.keywords:
            return f"(rbind {self.arr(e.args[0])} (fun t_ => r_multi_mode_dot t_ {self.vec_list(e.args[1])} {self.zrange(e.args[2])}))"
        if fn == (None, "outer") and len(e.args) == 1 and not e.keywords:
            return f"(r_outer {self.vec_list(e.args[0])})"
        return Tr.arr(self, e)

    ret_index = None

    def sub(self, arrays):
        t = PTr(arrays, self.lists, self.ints, self.solve_idx)
        t.ret_index = self.ret_index
        return t

    # ---- statement sequences with `for component in range(self.n_components)` loops; the value is the returned expression
    def seq(self, stmts, ret):
        """ret: None -> the sequence must end in `return <array expr>`; else a Gallina term builder called with the final translator"""
        if not stmts:
            if ret is None:
                raise Untranslatable("no return at the end of the method")
            return ret(self)
        s, rest = stmts[0], stmts[1:]
        if isinstance(s, _ast.Expr) and isinstance(s.value, _ast.Constant):
            return self.seq(rest, ret)
        if isinstance(s, _ast.Return):
            if ret is not None or rest:
                raise Untranslatable("return inside a loop / statements after return")
            v = s.value
            if isinstance(v, _ast.Tuple):
                if self.ret_index is None or self.ret_index >= len(v.elts):
                    raise Untranslatable("tuple return")
                v = v.elts[self.ret_index]
            return self.arr(v)
        if _is_raise_if(s):
            return self.seq(rest, ret)             # the validation chain is tied by the shape-test group
        if isinstance(s, _ast.If) and not s.orelse and len(s.body) == 1 and isinstance(s.body[0], _ast.Assign) and len(s.body[0].targets) == 1 \
                and _name(s.body[0].targets[0]) and s.body[0].targets[0].id in self.arrays:
            n = s.body[0].targets[0].id
            return (f"(rbind (if {self.cond(s.test)} then {self.arr(s.body[0].value)} else (Ok {self.arrays[n]})) "
                    f"(fun v_{n} => {self.sub({**self.arrays, n: 'v_' + n}).seq(rest, ret)}))")
        if isinstance(s, _ast.Assign) and len(s.targets) == 1 and _name(s.targets[0]):
            n = s.targets[0].id
            if isinstance(s.value, (_ast.List, _ast.ListComp)) or (isinstance(s.value, _ast.BinOp) and isinstance(s.value.left, (_ast.List, _ast.ListComp))):
                inner = PTr({k: v for k, v in self.arrays.items() if k != n}, {**self.lists, n: "l_" + n}, self.ints, self.solve_idx)
                inner.ret_index = self.ret_index
                return f"(let l_{n} := {self.vec_list(s.value)} in {inner.seq(rest, ret)})"
            lists = {k: v for k, v in self.lists.items() if k != n}
            nxt = PTr({**self.arrays, n: 'v_' + n}, lists, self.ints, self.solve_idx)
            nxt.ret_index = self.ret_index
            return f"(rbind {self.arr(s.value)} (fun v_{n} => {nxt.seq(rest, ret)}))"
        if isinstance(s, _ast.AugAssign) and _name(s.target) and s.target.id in self.arrays and isinstance(s.op, (_ast.Sub, _ast.Add)):
            n = s.target.id
            f = "Z.sub" if isinstance(s.op, _ast.Sub) else "Z.add"
            return (f"(rbind (rb2 (rbin_b {f}) (Ok {self.arrays[n]}) {self.arr(s.value)}) "
                    f"(fun v_{n} => {self.sub({**self.arrays, n: 'v_' + n}).seq(rest, ret)}))")
        if isinstance(s, _ast.For) and not s.orelse and _name(s.target) and _fn(s.iter) == (None, "range") and len(s.iter.args) == 1 \
                and _is_self_attr(s.iter.args[0], "n_components"):
            lv = s.target.id
            carried = []
            for m in s.body:
                t = m.targets[0] if isinstance(m, _ast.Assign) and len(m.targets) == 1 else (m.target if isinstance(m, _ast.AugAssign) else None)
                if not _name(t):
                    raise Untranslatable("loop body statement " + _ast.dump(m)[:80])
                if t.id in self.arrays and t.id not in carried:      # a name bound before the loop is carried; a new one is a temporary
                    carried.append(t.id)
            if not carried:
                raise Untranslatable("a component loop that updates nothing")
            pat = "(" + ", ".join("v_" + n for n in carried) + ")" if len(carried) > 1 else "v_" + carried[0]
            let = (lambda body: f"(let '{pat} := st_ in {body})") if len(carried) > 1 else (lambda body: f"(let {pat} := st_ in {body})")
            init = "(" + ", ".join(self.arrays[n] for n in carried) + ")"
            inner = PTr({**self.arrays, **{n: "v_" + n for n in carried}}, self.lists, {**self.ints, lv: f"(Z.of_nat {lv})"}, self.solve_idx)
            body = inner.seq(s.body, lambda tr: "(Ok (" + ", ".join(tr.arrays[n] for n in carried) + "))")
            after = self.sub({**self.arrays, **{n: "v_" + n for n in carried}}).seq(rest, ret)
            return (f"(rbind (fold_left (fun acc_ {lv} => rbind acc_ (fun st_ => {let(body)})) (seq 0 ncomp) (Ok {init})) "
                    f"(fun st_ => {let(after)}))")
        raise Untranslatable("statement " + _ast.dump(s)[:100])


def _method(path, cls, name):
    tree = _ast.parse(open(path).read())
    for n in tree.body:
        if isinstance(n, _ast.ClassDef) and n.name == cls:
            for f in n.body:
                if isinstance(f, _ast.FunctionDef) and f.name == name:
                    return f
    raise Untranslatable(f"{cls}.{name} not found")


def _is_raise_if(s):
    return isinstance(s, _ast.If) and not s.orelse and len(s.body) == 1 and isinstance(s.body[0], _ast.Raise)


PLSR_PARAMS = "(xmean : tensor Z) (XF : list (tensor Z)) (coef YF1 ymean : tensor Z) (ncomp : nat) (X : tensor Z)"


def gen_plsr_bodies(path):
    env = {"X": "X", "self.X_mean_": "xmean", "self.coef_": "coef", "self.Y_factors[1]": "YF1", "self.Y_mean_": "ymean"}
    out = []
    for name in ("predict", "transform"):
        f = _method(path, "CP_PLSR", name)
        body = [s for s in f.body if not (isinstance(s, _ast.Expr) and isinstance(s.value, _ast.Constant))]
        if not body or not _is_raise_if(body[0]):
            raise Untranslatable(f"CP_PLSR.{name}: the shape check is not the first statement")
        body = body[1:]
        if name == "transform":
            # the X part: everything before `if Y is not None`, then `return X_scores` (the statement after that branch)
            k = next((j for j, s in enumerate(body) if isinstance(s, _ast.If) and isinstance(s.test, _ast.Compare) and _name(s.test.left, "Y")
                      and isinstance(s.test.ops[0], _ast.IsNot)), None)
            if k is None or len(body) != k + 2 or not isinstance(body[k + 1], _ast.Return):
                raise Untranslatable("CP_PLSR.transform: `if Y is not None: ...` followed by the return of the X scores")
            full = body
            body = body[:k] + [body[k + 1]]
        tr = PTr(env, {"self.X_factors": "XF"}, {"self.n_components": "(Z.of_nat ncomp)"}, "0")
        out.append(f"Definition plsr_{name}_src {PLSR_PARAMS} : RZ :=\n  {tr.seq(body, None)}.\n")
        if name == "transform":
            # the Y branch inlined: the Y scores (second component of the returned pair)
            ybody = full[:k] + full[k].body
            if not isinstance(ybody[-1], _ast.Return):
                raise Untranslatable("CP_PLSR.transform: the Y branch does not end in a return")
            ty = PTr({**env, "Y": "Y"}, {"self.X_factors": "XF"}, {"self.n_components": "(Z.of_nat ncomp)"}, "0")
            ty.ret_index = 1
            out.append(f"Definition plsr_transform_y_src {PLSR_PARAMS} (Y : tensor Z) : RZ :=\n  {ty.seq(ybody, None)}.\n")
    return "".join(out)


def plsr_box():
    rng = random.Random(1909)
    out = []
    shapes = [(2,), (3,), (2, 2), (1, 3), (3, 2), (2, 2, 2), (2, 1, 3)]
    k = 0
    for sx in shapes:
        for width in (0, 1, 2, 3):
            for ncomp in range(0, width + 1):
                k += 1
                if k % 2 and width == 3:
                    continue
                n = 1 + k % 3
                m = 1 + k % 2
                ntr = 3
                XF = "[" + "; ".join(_zt((d, width), rng, -2, 2) for d in (ntr,) + sx) + "]"
                Y = _zt((n, m), rng) if (k % 4 or m > 1) else _zt((n,), rng)          # some vector-valued targets (m = 1)
                out.append(f"({_zt(sx, rng)}, {XF}, {_zt((width, width), rng, -2, 2)}, {_zt((m, width), rng, -2, 2)}, {_zt((m,), rng)}, {ncomp}, {_zt((n,) + sx, rng)}, {Y})")
    return out


PLSR_HEADER = """From Coq Require Import List Arith ZArith Bool. Import ListNotations.
From TLV Require Import Base.Shape Base.PyList Base.Tensor Base.Ops Model.Base Model.Tenalg Model.Regress Model.RegressObj Model.RegressSrc.
"""

PLSR_LEMMA = """
(* the attributes as the model holds them: one record per fitted column *)
Definition attrs_of (xmean : tensor Z) (XF : list (tensor Z)) (coef YF1 ymean : tensor Z) (X : tensor Z) : pattrs (F:=Z) :=
  let k := nth 1 (shape coef) 0 in
  mkPattrs (nth 0 (shape (nth 0 XF (mk [] []))) 0 :: tl (shape X)) [nth 0 (shape (nth 0 XF (mk [] []))) 0; nth 0 (shape YF1) 0]
    (mkPlsr xmean ymean
       (map (fun c => mkComp (map (fun f => zcol f (Z.of_nat c)) (tl XF)) [] (zcol YF1 (Z.of_nat c)) []
                             (map (fun r => zget coef [r; c]) (seq 0 k))) (seq 0 k))).
Definition plsr_box : list (tensor Z * list (tensor Z) * tensor Z * tensor Z * tensor Z * nat * tensor Z * tensor Z) := [
 {box}].
Definition res_zt_eqb (a b : RZ) : bool := match a, b with Ok x, Ok y => zt_eqb1 x y | Err, Err => true | _, _ => false end.
Definition plsr_box_ok (c : tensor Z * list (tensor Z) * tensor Z * tensor Z * tensor Z * nat * tensor Z * tensor Z) : bool :=
  let '(xmean, XF, coef, YF1, ymean, ncomp, X, Y) := c in
  let a := attrs_of xmean XF coef YF1 ymean X in
  let p := mkPprm ncomp 1 0%Z in
  res_zt_eqb (plsr_predict_src xmean XF coef YF1 ymean ncomp X) (plsr_predict_entry Zops p a X) &&
  res_zt_eqb (plsr_transform_src xmean XF coef YF1 ymean ncomp X)
             (match plsr_transform_entry Zops p a X None with Ok (t, _) => Ok t | Err => Err end) &&
  res_zt_eqb (plsr_transform_y_src xmean XF coef YF1 ymean ncomp X Y)
             (match plsr_transform_entry Zops p a X (Some Y) with Ok (_, Some u) => Ok u | _ => Err end).
Lemma plsr_bodies_src_box : forallb plsr_box_ok plsr_box = true.
Proof. vm_compute. reflexivity. Qed.
"""


def generate_plsr(repo):
    import os
    text = gen_plsr_bodies(os.path.join(repo, "tensorly", "regression", "cp_plsr.py"))
    return [("CP_PLSR.predict / transform(X) component loops", PLSR_HEADER + text + PLSR_LEMMA.format(box=";\n ".join(plsr_box())))]
